import Deb822Verif.Model.RelLossy
/-!
  Well-formed relationship fields (Debian Policy 7.1) as a structured AST — the grammar of
  property C10 — with an explicit *layout*: a gap (spaces, tabs, CRs, newlines) at every place
  where the grammar allows one. For a field `f`:
  * `f.str`  — how it is written,
  * `f.toks` — the token list the lexer must produce,
  * `f.tree` — the syntax tree the lossless parser must produce,
  * `f.view` — what the readers must expose (entries → alternatives → name, archqual, version,
    architecture list, profile groups; plus the substitution variables).
  Gaps are attached *before* the token they precede (and one after each entry), so two gaps are
  never adjacent and whitespace tokens never merge.
-/
namespace Deb822Verif.RelSpec
open Deb822Verif Rel Node

/-! ### gaps -/

/-- a piece of a gap: one newline, or one maximal run of space / tab / CR -/
inductive GapPiece
  | nl
  | ws (s : Str)
  deriving Repr, DecidableEq

abbrev Gap := List GapPiece

def GapPiece.str : GapPiece → Str
  | .nl => ['\n']
  | .ws s => s
def GapPiece.tok : GapPiece → Tok
  | .nl => (.NEWLINE, ['\n'])
  | .ws s => (.WHITESPACE, s)
def GapPiece.isNl : GapPiece → Bool
  | .nl => true
  | .ws _ => false

def gapStr (g : Gap) : Str := (g.map GapPiece.str).flatten
def gapToks (g : Gap) : List Tok := g.map GapPiece.tok

/-- whitespace runs are non-empty, made of space / tab / CR, and maximal (no two in a row) -/
def gapOk : Gap → Bool
  | [] => true
  | .nl :: g => gapOk g
  | .ws s :: g =>
    !s.isEmpty && s.all isWs && (match g with | .ws _ :: _ => false | _ => true) && gapOk g

def gapHasNl (g : Gap) : Bool := g.any GapPiece.isNl

/-! ### the AST -/

/-- identifier as the lexer defines it: non-empty, `[A-Za-z0-9.+~-]` -/
def isIdent (s : Str) : Bool := !s.isEmpty && s.all isIdentChar

/-- version text: `[epoch:]body`. With an epoch the body may itself contain ':' (Policy 5.6.12:
    "if there is no epoch then colons are not allowed" in upstream_version): `1:2:3` is epoch `1`,
    body `2:3` -/
structure VersionA where
  epoch : Option Str
  body : Str
  deriving Repr, DecidableEq

/-- `pre ( g2 op g3 version g4 )` -/
structure VerPart where
  pre : Gap
  g2 : Gap
  op : VC
  g3 : Gap
  ver : VersionA
  /-- gap between the version and `)` -/
  g4 : Gap
  deriving Repr, DecidableEq

/-- an architecture or a profile term: `gap [!]name` -/
structure Item where
  gap : Gap
  neg : Bool
  name : Str
  deriving Repr, DecidableEq

/-- `pre [ items post ]` or `pre < items post >` -/
structure Bracket where
  pre : Gap
  items : List Item
  post : Gap
  deriving Repr, DecidableEq

structure RelA where
  name : Str
  archqual : Option Str
  version : Option VerPart
  archs : Option Bracket
  profiles : List Bracket
  deriving Repr, DecidableEq

/-- a further alternative: `gb | ga relation` -/
structure AltA where
  gb : Gap
  ga : Gap
  rel : RelA
  deriving Repr, DecidableEq

inductive EntryA
  | alts (first : RelA) (rest : List AltA)
  /-- `${p0:p1:…}` -/
  | substvar (first : Str) (rest : List Str)
  | empty
  deriving Repr, DecidableEq

/-- one comma-separated segment: `pre entry post` (an empty entry has no `post`) -/
structure Seg where
  pre : Gap
  entry : EntryA
  post : Gap
  deriving Repr, DecidableEq

/-- segments joined by `,`; a trailing comma is a last segment with an empty entry -/
structure FieldA where
  segs : List Seg
  deriving Repr, DecidableEq

/-! ### text -/

def VersionA.str (v : VersionA) : Str :=
  (match v.epoch with | some e => e ++ [':'] | none => []) ++ v.body

def VerPart.str (p : VerPart) : Str :=
  gapStr p.pre ++ '(' :: (gapStr p.g2 ++ p.op.display ++ gapStr p.g3 ++ p.ver.str ++ gapStr p.g4 ++ [')'])

/-- the term as written, without its gap: `[!]name` -/
def Item.text (i : Item) : Str := (if i.neg then ['!'] else []) ++ i.name
def Item.str (i : Item) : Str := gapStr i.gap ++ i.text

def Bracket.str (o c : Char) (b : Bracket) : Str :=
  gapStr b.pre ++ o :: ((b.items.map Item.str).flatten ++ gapStr b.post ++ [c])

def RelA.str (r : RelA) : Str :=
  r.name
    ++ (match r.archqual with | some a => ':' :: a | none => [])
    ++ (match r.version with | some v => v.str | none => [])
    ++ (match r.archs with | some a => a.str '[' ']' | none => [])
    ++ (r.profiles.map (Bracket.str '<' '>')).flatten

def AltA.str (a : AltA) : Str := gapStr a.gb ++ '|' :: (gapStr a.ga ++ a.rel.str)

def EntryA.str : EntryA → Str
  | .alts r rest => r.str ++ (rest.map AltA.str).flatten
  | .substvar p ps => '$' :: '{' :: (p ++ (ps.map fun q => ':' :: q).flatten ++ ['}'])
  | .empty => []

def Seg.str (s : Seg) : Str := gapStr s.pre ++ s.entry.str ++ gapStr s.post

def FieldA.str (f : FieldA) : Str := Text.join [','] (f.segs.map Seg.str)

/-! ### tokens -/

def opToks : VC → List Tok
  | .GreaterThanEqual => [(.R_ANGLE, ['>']), (.EQUAL, ['='])]
  | .LessThanEqual => [(.L_ANGLE, ['<']), (.EQUAL, ['='])]
  | .Equal => [(.EQUAL, ['='])]
  | .GreaterThan => [(.R_ANGLE, ['>']), (.R_ANGLE, ['>'])]
  | .LessThan => [(.L_ANGLE, ['<']), (.L_ANGLE, ['<'])]

/-- the version text is identifiers separated by ':' — the first of them: the epoch, or the whole
    body when there is no epoch -/
def VersionA.first (v : VersionA) : Str :=
  match v.epoch with | some e => e | none => v.body
/-- … and the others: with an epoch, the pieces of the body between its colons -/
def VersionA.more (v : VersionA) : List Str :=
  match v.epoch with | some _ => Text.splitOn ':' v.body | none => []

/-- `COLON IDENT` for every further piece -/
def colonTail (ps : List Str) : List Tok :=
  (ps.map fun q => [(Kind.COLON, [':']), (Kind.IDENT, q)]).flatten

/-- `IDENT (COLON IDENT)*`: the lexer cuts the text at every ':' -/
def VersionA.toks (v : VersionA) : List Tok := (.IDENT, v.first) :: colonTail v.more

/-- tokens between `(` and `)` -/
def VerPart.inner (p : VerPart) : List Tok :=
  gapToks p.g2 ++ opToks p.op ++ gapToks p.g3 ++ p.ver.toks ++ gapToks p.g4

def VerPart.toks (p : VerPart) : List Tok :=
  gapToks p.pre ++ (.L_PARENS, ['(']) :: (p.inner ++ [(.R_PARENS, [')'])])

def Item.toks (i : Item) : List Tok :=
  gapToks i.gap ++ (if i.neg then [(.NOT, ['!'])] else []) ++ [(.IDENT, i.name)]

def itemsToks (is : List Item) : List Tok := (is.map Item.toks).flatten

/-- the bracket itself, without its `pre` gap -/
def Bracket.body (ok ck : Kind) (o c : Char) (b : Bracket) : List Tok :=
  (ok, [o]) :: (itemsToks b.items ++ gapToks b.post ++ [(ck, [c])])

def Bracket.toks (ok ck : Kind) (o c : Char) (b : Bracket) : List Tok :=
  gapToks b.pre ++ b.body ok ck o c

def archBody (b : Bracket) : List Tok := b.body .L_BRACKET .R_BRACKET '[' ']'
def profBody (b : Bracket) : List Tok := b.body .L_ANGLE .R_ANGLE '<' '>'

def RelA.toks (r : RelA) : List Tok :=
  (.IDENT, r.name)
    :: ((match r.archqual with | some a => [(.COLON, [':']), (.IDENT, a)] | none => [])
    ++ (match r.version with | some v => v.toks | none => [])
    ++ (match r.archs with | some a => gapToks a.pre ++ archBody a | none => [])
    ++ (r.profiles.map fun p => gapToks p.pre ++ profBody p).flatten)

def AltA.toks (a : AltA) : List Tok := gapToks a.gb ++ (.PIPE, ['|']) :: (gapToks a.ga ++ a.rel.toks)

def substvarToks (p : Str) (ps : List Str) : List Tok :=
  (.DOLLAR, ['$']) :: (.L_CURLY, ['{']) :: (.IDENT, p)
    :: ((ps.map fun q => [(Kind.COLON, [':']), (Kind.IDENT, q)]).flatten ++ [(.R_CURLY, ['}'])])

def EntryA.toks : EntryA → List Tok
  | .alts r rest => r.toks ++ (rest.map AltA.toks).flatten
  | .substvar p ps => substvarToks p ps
  | .empty => []

def Seg.toks (s : Seg) : List Tok := gapToks s.pre ++ s.entry.toks ++ gapToks s.post

def commaTok : Tok := (.COMMA, [','])

def segsToks : List Seg → List Tok
  | [] => []
  | [s] => s.toks
  | s :: t :: rest => s.toks ++ commaTok :: segsToks (t :: rest)

def FieldA.toks (f : FieldA) : List Tok := segsToks f.segs

/-! ### tree -/

def tks (ts : List Tok) : List RNode := ts.map tk

def VerPart.node (p : VerPart) : RNode :=
  .node .VERSION (tk (.L_PARENS, ['(']) :: (tks (gapToks p.g2) ++ [Node.node .CONSTRAINT (tks (opToks p.op))]
    ++ tks (gapToks p.g3) ++ tks p.ver.toks ++ tks (gapToks p.g4) ++ [tk (.R_PARENS, [')'])]))

/-- what follows a relation (after its trailing gap) -/
inductive Follow
  | pipe | comma | eof
  deriving Repr, DecidableEq

/-- a relation without version, architectures and profiles -/
def RelA.bare (r : RelA) : Bool := r.version.isNone && r.archs.isNone && r.profiles.isEmpty

/-- does `parse_relation` itself consume the whitespace after the relation? After an architecture
    qualifier always (relations.rs:190 `skip_ws`); after a bare name only at end of input
    (relations.rs:194); otherwise it is left to `parse_entry` / the root loop -/
def RelA.tailInside (r : RelA) (fl : Follow) : Bool :=
  r.bare && (r.archqual.isSome || fl == .eof)

/-- the RELATION node; `tail` = whitespace after the relation that ends up inside it -/
def RelA.node (r : RelA) (tail : List Tok) : RNode :=
  .node .RELATION (tk (.IDENT, r.name)
    :: ((match r.archqual with
          | some a => [Node.node .ARCHQUAL [tk (.COLON, [':']), tk (.IDENT, a)]]
          | none => [])
    ++ (match r.version with | some v => tks (gapToks v.pre) ++ [v.node] | none => [])
    ++ (match r.archs with
          | some a => tks (gapToks a.pre) ++ [Node.node .ARCHITECTURES (tks (archBody a))]
          | none => [])
    ++ (r.profiles.map fun p => tks (gapToks p.pre) ++ [Node.node .PROFILES (tks (profBody p))]).flatten
    ++ tks tail))

/-- children of the ENTRY node, and the whitespace tokens left for the root loop, for the
    alternatives `r, rest` followed by the gap `post` and then `fl` (`comma` or `eof`) -/
def altsNodes (r : RelA) (rest : List AltA) (post : Gap) (fl : Follow) : List RNode × List Tok :=
  match rest with
  | [] =>
    if r.tailInside fl then ([r.node (gapToks post)], [])
    else if fl = .eof then (r.node [] :: tks (gapToks post), [])
    else ([r.node []], gapToks post)
  | a :: as =>
    ((if r.tailInside .pipe then [r.node (gapToks a.gb)] else r.node [] :: tks (gapToks a.gb))
      ++ tk (.PIPE, ['|']) :: (tks (gapToks a.ga) ++ (altsNodes a.rel as post fl).1),
     (altsNodes a.rel as post fl).2)

/-- root-level nodes of one segment followed by `fl` -/
def Seg.nodes (s : Seg) (fl : Follow) : List RNode :=
  tks (gapToks s.pre) ++
    (match s.entry with
      | .alts r rest =>
        Node.node .ENTRY (altsNodes r rest s.post fl).1 :: tks (altsNodes r rest s.post fl).2
      | .substvar p ps => Node.node .SUBSTVAR (tks (substvarToks p ps)) :: tks (gapToks s.post)
      | .empty => tks (gapToks s.post))

def segsNodes : List Seg → List RNode
  | [] => []
  | [s] => s.nodes .eof
  | s :: t :: rest => s.nodes .comma ++ tk commaTok :: segsNodes (t :: rest)

def FieldA.tree (f : FieldA) : RNode := .node .ROOT (segsNodes f.segs)

/-! ### what the readers must expose -/

/-- upstream version and Debian revision: split at the last hyphen, when both sides are non-empty
    and the right side can be a revision (`[A-Za-z0-9+.~]+`: identifier characters always are, a ':'
    of a body with an epoch is not — then the whole body is the upstream version) -/
def splitRev (body : Str) : Str × Option Str :=
  match splitLastDash body with
  | some (b, a) => if !b.isEmpty && !a.isEmpty && a.all isRevChar then (b, some a) else (body, none)
  | none => (body, none)

/-- the `debversion::Version` that was written -/
def VersionA.value (v : VersionA) : Version :=
  ⟨v.epoch.map digitsVal, (splitRev v.body).1, (splitRev v.body).2⟩

def Item.profile (i : Item) : BuildProfile := if i.neg then .Disabled i.name else .Enabled i.name

/-- one alternative as the readers must expose it (same shape as `lossy::Relation`). The
    architecture list keeps its negations: each element is the term as written, `[!]name`. -/
def RelA.view (r : RelA) : Lossy.Relation :=
  { name := r.name
    archqual := r.archqual
    architectures := r.archs.map fun a => a.items.map Item.text
    version := r.version.map fun v => (v.op, v.ver.value)
    profiles := r.profiles.map fun g => g.items.map Item.profile }

def EntryA.view : EntryA → Option (List Lossy.Relation)
  | .alts r rest => some (r.view :: rest.map fun a => a.rel.view)
  | _ => none

def EntryA.substText : EntryA → Option Str
  | .substvar p ps => some (EntryA.substvar p ps).str
  | _ => none

/-- the non-empty entries, in order -/
def FieldA.view (f : FieldA) : List (List Lossy.Relation) := f.segs.filterMap fun s => s.entry.view
/-- the substitution variables, in order, as written (`${…}`) -/
def FieldA.substvars (f : FieldA) : List Str := f.segs.filterMap fun s => s.entry.substText

/-! ### well-formedness (decidable: everything is a `Bool`) -/

def isDigits (s : Str) : Bool := !s.isEmpty && s.all isAsciiDigit

/-- every piece between the colons is an identifier (so: no ':' in the body without an epoch; with an
    epoch no empty piece — not `1:`, `1::2`, `1:2:`); the epoch is a number below 2^32 -/
def VersionA.ok (v : VersionA) : Bool :=
  isIdent v.first && v.more.all isIdent
    && (match v.epoch with | some e => isDigits e && digitsVal e < 4294967296 | none => true)

def VerPart.ok (p : VerPart) : Bool :=
  gapOk p.pre && gapOk p.g2 && gapOk p.g3 && gapOk p.g4 && p.ver.ok

def Item.ok (i : Item) : Bool := gapOk i.gap && isIdent i.name

/-- terms after the first are separated by a non-empty gap -/
def laterGapsOk : List Item → Bool
  | [] => true
  | _ :: rest => rest.all fun i => !i.gap.isEmpty

/-- (an empty list `[]` / `<>` is not Policy syntax but both readers handle it, and the lossy value
    `architectures: Some(vec![])` prints it; it is part of the domain) -/
def Bracket.ok (b : Bracket) : Bool :=
  gapOk b.pre && gapOk b.post && b.items.all Item.ok && laterGapsOk b.items

def RelA.ok (r : RelA) : Bool :=
  isIdent r.name
    && (match r.archqual with | some a => isIdent a | none => true)
    && (match r.version with | some v => v.ok | none => true)
    && (match r.archs with | some a => a.ok | none => true)
    && r.profiles.all Bracket.ok

def AltA.ok (a : AltA) : Bool := gapOk a.gb && gapOk a.ga && a.rel.ok

def EntryA.ok : EntryA → Bool
  | .alts r rest => r.ok && rest.all AltA.ok
  | .substvar p ps => isIdent p && ps.all isIdent
  | .empty => true

def EntryA.isEmpty : EntryA → Bool
  | .empty => true
  | _ => false

def Seg.ok (s : Seg) : Bool :=
  gapOk s.pre && gapOk s.post && s.entry.ok && (!s.entry.isEmpty || s.post.isEmpty)

def FieldA.ok (f : FieldA) : Bool := f.segs.all Seg.ok

/-- the domain of C10 -/
def FieldA.WF (f : FieldA) : Prop := f.ok = true
instance (f : FieldA) : Decidable f.WF := by unfold FieldA.WF; exact inferInstance

/-! ### constructs on which the code used to depart from the property (findings F-C10-2 … F-C10-7,
    all fixed; the predicates are kept to name the regression statements `C10_fixed_*` of
    Props/C10.lean and for the generator statistics) -/

def EntryA.rels : EntryA → List RelA
  | .alts r rest => r :: rest.map AltA.rel
  | _ => []

def FieldA.rels (f : FieldA) : List RelA := f.segs.flatMap fun s => s.entry.rels

def EntryA.isSubstvar : EntryA → Bool
  | .substvar _ _ => true
  | _ => false

def FieldA.hasSubstvar (f : FieldA) : Bool := f.segs.any fun s => s.entry.isSubstvar

/-- `[!arch]` -/
def RelA.hasNegatedArch (r : RelA) : Bool :=
  match r.archs with | some a => a.items.any Item.neg | none => false
def FieldA.hasNegatedArch (f : FieldA) : Bool := f.rels.any RelA.hasNegatedArch

/-- whitespace between the version and `)` -/
def RelA.hasCloseGap (r : RelA) : Bool :=
  match r.version with | some v => !v.g4.isEmpty | none => false
def FieldA.hasCloseGap (f : FieldA) : Bool := f.rels.any RelA.hasCloseGap

/-- `<a b>`: a profile group with more than one term -/
def RelA.hasMultiTermGroup (r : RelA) : Bool := r.profiles.any fun g => 1 < g.items.length
def FieldA.hasMultiTermGroup (f : FieldA) : Bool := f.rels.any RelA.hasMultiTermGroup

/-- whitespace directly after `<` or before `>` -/
def Bracket.hasEdgeGap (b : Bracket) : Bool :=
  !b.post.isEmpty || (match b.items with | i :: _ => !i.gap.isEmpty | [] => false)
def RelA.hasProfileEdgeGap (r : RelA) : Bool := r.profiles.any Bracket.hasEdgeGap
def FieldA.hasProfileEdgeGap (f : FieldA) : Bool := f.rels.any RelA.hasProfileEdgeGap

/-- all gaps *inside* a relation (not those around `|` and `,`) -/
def RelA.innerGaps (r : RelA) : List Gap :=
  (match r.version with | some v => [v.pre, v.g2, v.g3, v.g4] | none => [])
    ++ (match r.archs with | some a => a.pre :: a.post :: a.items.map Item.gap | none => [])
    ++ r.profiles.flatMap fun p => p.pre :: p.post :: p.items.map Item.gap
/-- a newline inside a relation -/
def RelA.hasInnerNewline (r : RelA) : Bool := r.innerGaps.any gapHasNl
def FieldA.hasInnerNewline (f : FieldA) : Bool := f.rels.any RelA.hasInnerNewline


end Deb822Verif.RelSpec
