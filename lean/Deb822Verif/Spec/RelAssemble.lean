import Deb822Verif.Spec.RelCanon
import Deb822Verif.Model.RelLossyBuild
/-!
  "Assembled from valid components" (property C14): the components handed to the public assembly
  API of the lossy relation type (`Relation::build(name)` + the setters of `RelationBuilder`,
  Model/RelLossyBuild.lean) and their validity, stated on the COMPONENTS — strings as the caller
  passes them, the version as TEXT (the builder parses it) — not on the assembled value.
-/
namespace Deb822Verif.RelSpec
open Deb822Verif Rel LossyBuild

/-- split at the first `':'` -/
def splitColon : Str → Option (Str × Str)
  | [] => none
  | c :: cs =>
    if c = ':' then some ([], cs)
    else match splitColon cs with
      | some (a, b) => some (c :: a, b)
      | none => none

/-- a version text read as `[epoch:]body`: the epoch is what stands before the first colon -/
def versionAOfText (t : Str) : VersionA :=
  match splitColon t with
  | some (e, body) => ⟨some e, body⟩
  | none => ⟨none, t⟩

/-- a valid version text (Policy 5.6.12 as far as the lexer's identifier characters go, `VersionA.ok`):
    without a colon an identifier; otherwise digits (a number below 2^32), a colon, and identifiers
    separated by colons -/
def validVersionText (t : Str) : Bool := (versionAOfText t).ok

/-- a profile group (restriction list) of identifiers, each possibly negated -/
def validGroup (g : List BuildProfile) : Bool := g.all fun p => isIdent (profName p)

/-- the argument of one setter call is valid -/
def validCall : Call → Bool
  | .archqual a => isIdent a
  | .architectures as => as.all validArch
  | .version _ t => validVersionText t
  | .profile g => validGroup g

/-- `Relation::build(name).c1(..)….build()` with a valid name and valid arguments throughout -/
def validCalls (name : Str) (cs : List Call) : Bool := isIdent name && cs.all validCall

/-- the components of the property text: name, optional qualifier, optional operator and version
    (text), optional architecture list, profile groups -/
structure Components where
  name : Str
  archqual : Option Str
  version : Option (VC × Str)
  architectures : Option (List Str)
  profiles : List (List BuildProfile)
  deriving DecidableEq, Repr

/-- one setter call per present component, in the order qualifier, version, architectures, profile
    groups -/
def Components.calls (c : Components) : List Call :=
  (match c.archqual with | some a => [Call.archqual a] | none => [])
    ++ (match c.version with | some (op, t) => [Call.version op t] | none => [])
    ++ (match c.architectures with | some as => [Call.architectures as] | none => [])
    ++ c.profiles.map Call.profile

/-- the value assembled from the components with the builder -/
def assemble (c : Components) : Outcome Lossy.Relation := runBuild c.name c.calls

/-- valid components (the weak domain, matching `ValidR`: an architecture list and a profile group may
    be empty) -/
def validComponents (c : Components) : Bool :=
  isIdent c.name
    && (match c.archqual with | some a => isIdent a | none => true)
    && (match c.version with | some (_, t) => validVersionText t | none => true)
    && (match c.architectures with | some as => as.all validArch | none => true)
    && c.profiles.all validGroup

/-- the components as the property text lists them: moreover an architecture list, when given, has
    at least one architecture and every profile group "one or more" terms -/
def validComponentsS (c : Components) : Bool :=
  validComponents c
    && (match c.architectures with | some as => !as.isEmpty | none => true)
    && c.profiles.all fun g => !g.isEmpty

end Deb822Verif.RelSpec
