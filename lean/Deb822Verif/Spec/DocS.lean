import Deb822Verif.Model.DebAccess
/-!
  Well-formed deb822 documents as a structured AST (the grammar of property C03), with
  * `text`  — how the document is written,
  * `toks`  — the token list the lexer must produce,
  * `tree`  — the syntax tree the parser must produce,
  * `content` — what a reader must expose.
  Every line carries a flag `nl`: whether it is LF-terminated (only the very last line of a
  document may lack the terminator; that is part of `WF`).
-/
namespace Deb822Verif.Spec
open Deb822Verif Deb Node

def nlTok (nl : Bool) : List Tok := if nl then [(.NEWLINE, ['\n'])] else []
def nlText (nl : Bool) : Str := if nl then ['\n'] else []
def optTok (k : Kind) (s : Str) : List Tok := if s = [] then [] else [(k, s)]

/-- continuation line: indent, text -/
structure ContS where
  indent : Str
  text : Str
  nl : Bool
  deriving Repr, DecidableEq

/-- a field: `key:` ws v, then continuation lines -/
structure EntryS where
  key : Str
  ws : Str
  v : Str
  nl : Bool
  conts : List ContS
  deriving Repr, DecidableEq

/-- things inside a paragraph after its first field -/
inductive PItem
  | comment (t : Str) (nl : Bool)
  | entry (e : EntryS)
  deriving Repr, DecidableEq

structure ParaS where
  first : EntryS
  rest : List PItem
  deriving Repr, DecidableEq

/-- lines between paragraphs -/
inductive Gap
  | blank
  | comment (t : Str) (nl : Bool)
  deriving Repr, DecidableEq

structure DocS where
  lead : List Gap
  paras : List (ParaS × List Gap)
  deriving Repr

/-! ### text -/
def ContS.str (c : ContS) : Str := c.indent ++ c.text ++ nlText c.nl
def EntryS.str (e : EntryS) : Str :=
  e.key ++ ':' :: (e.ws ++ e.v ++ nlText e.nl) ++ (e.conts.map ContS.str).flatten
def PItem.str : PItem → Str
  | .comment t nl => '#' :: t ++ nlText nl
  | .entry e => e.str
def ParaS.str (p : ParaS) : Str := p.first.str ++ (p.rest.map PItem.str).flatten
def Gap.str : Gap → Str
  | .blank => ['\n']
  | .comment t nl => '#' :: t ++ nlText nl
def gapsStr (gs : List Gap) : Str := (gs.map Gap.str).flatten
def DocS.str (d : DocS) : Str :=
  gapsStr d.lead ++ (d.paras.map fun pg => pg.1.str ++ gapsStr pg.2).flatten

/-! ### tokens -/
def ContS.toks (c : ContS) : List Tok := (.INDENT, c.indent) :: (.VALUE, c.text) :: nlTok c.nl
def contsToks (cs : List ContS) : List Tok := (cs.map ContS.toks).flatten
def EntryS.toks (e : EntryS) : List Tok :=
  (.KEY, e.key) :: (.COLON, [':']) :: (optTok .WHITESPACE e.ws ++ optTok .VALUE e.v ++ nlTok e.nl
    ++ contsToks e.conts)
def PItem.toks : PItem → List Tok
  | .comment t nl => (.COMMENT, '#' :: t) :: nlTok nl
  | .entry e => e.toks
def itemsToks (is : List PItem) : List Tok := (is.map PItem.toks).flatten
def ParaS.toks (p : ParaS) : List Tok := p.first.toks ++ itemsToks p.rest
def Gap.toks : Gap → List Tok
  | .blank => [(.NEWLINE, ['\n'])]
  | .comment t nl => (.COMMENT, '#' :: t) :: nlTok nl
def gapsToks (gs : List Gap) : List Tok := (gs.map Gap.toks).flatten
def parasToks (ps : List (ParaS × List Gap)) : List Tok :=
  (ps.map fun pg => pg.1.toks ++ gapsToks pg.2).flatten
def DocS.toks (d : DocS) : List Tok := gapsToks d.lead ++ parasToks d.paras

/-! ### tree -/
def EntryS.node (e : EntryS) : DNode := .node .ENTRY (e.toks.map tk)
def PItem.nodes : PItem → List DNode
  | .comment t nl => ((.COMMENT, '#' :: t) :: nlTok nl).map tk
  | .entry e => [e.node]
def itemsNodes (is : List PItem) : List DNode := (is.map PItem.nodes).flatten
def ParaS.node (p : ParaS) : DNode := .node .PARAGRAPH (p.first.node :: itemsNodes p.rest)
def Gap.node (g : Gap) : DNode := .node .EMPTY_LINE (g.toks.map tk)
def parasNodes (ps : List (ParaS × List Gap)) : List DNode :=
  (ps.map fun pg => pg.1.node :: pg.2.map Gap.node).flatten
def DocS.tree (d : DocS) : DNode := .node .ROOT (d.lead.map Gap.node ++ parasNodes d.paras)

/-! ### content: value = its non-empty lines joined by "\n" -/
def EntryS.valueLines (e : EntryS) : List Str :=
  (if e.v = [] then [] else [e.v]) ++ e.conts.map ContS.text
def EntryS.content (e : EntryS) : Str × Str := (e.key, Text.join ['\n'] e.valueLines)
def PItem.content : PItem → List (Str × Str)
  | .comment _ _ => []
  | .entry e => [e.content]
def ParaS.content (p : ParaS) : List (Str × Str) :=
  p.first.content :: (p.rest.map PItem.content).flatten
def DocS.content (d : DocS) : List (List (Str × Str)) := d.paras.map fun pg => pg.1.content

/-! ### well-formedness -/
def NoNl (s : Str) : Prop := ∀ c ∈ s, isNewline c = false
def AllIndent (s : Str) : Prop := ∀ c ∈ s, isIndent c = true

/-- printable ASCII without ':' and space, not starting with '-' or '#' -/
def ValidKey (k : Str) : Prop :=
  ∃ c cs, k = c :: cs ∧ isInitialKeyChar c = true ∧ c ≠ '#' ∧ ∀ x ∈ cs, isKeyChar x = true

/-- a first-line value: no line break; does not start with space/tab (that would be whitespace
    after the colon) -/
def ValidFirst (v : Str) : Prop := NoNl v ∧ ∀ c, v.head? = some c → isIndent c = false

/-- a continuation text: non-empty, no line break, not starting with space/tab or '#'
    ("continuation lines beginning with '#' are outside the domain") -/
def ValidCont (v : Str) : Prop :=
  NoNl v ∧ ∃ c cs, v = c :: cs ∧ isIndent c = false ∧ c ≠ '#'

structure ContS.WF (c : ContS) : Prop where
  indent_ne : c.indent ≠ []
  indent_ok : AllIndent c.indent
  text_ok : ValidCont c.text

structure EntryS.WF (e : EntryS) : Prop where
  key_ok : ValidKey e.key
  ws_ok : AllIndent e.ws
  v_ok : ValidFirst e.v
  conts_ok : ∀ c ∈ e.conts, c.WF

def PItem.WF : PItem → Prop
  | .comment t _ => NoNl t
  | .entry e => e.WF

def Gap.WF : Gap → Prop
  | .blank => True
  | .comment t _ => NoNl t

/-! line termination: a line may lack its `\n` only if nothing at all follows it.
    `more` = "some text follows this unit". -/
def contsTerm : List ContS → Bool → Prop
  | [], _ => True
  | c :: cs, more => (c.nl = true ∨ (cs = [] ∧ more = false)) ∧ contsTerm cs more

def EntryS.Term (e : EntryS) (more : Bool) : Prop :=
  (e.nl = true ∨ (e.conts = [] ∧ more = false)) ∧ contsTerm e.conts more

def itemsTerm : List PItem → Bool → Prop
  | [], _ => True
  | .comment _ nl :: is, more => (nl = true ∨ (is = [] ∧ more = false)) ∧ itemsTerm is more
  | .entry e :: is, more => e.Term (!is.isEmpty || more) ∧ itemsTerm is more

def ParaS.Term (p : ParaS) (more : Bool) : Prop :=
  p.first.Term (!p.rest.isEmpty || more) ∧ itemsTerm p.rest more

def gapsTerm : List Gap → Bool → Prop
  | [], _ => True
  | .blank :: gs, more => gapsTerm gs more
  | .comment _ nl :: gs, more => (nl = true ∨ (gs = [] ∧ more = false)) ∧ gapsTerm gs more

/-- between two paragraphs there is at least one blank line, and it comes first -/
def parasTerm : List (ParaS × List Gap) → Prop
  | [] => True
  | [(p, g)] => p.Term (!g.isEmpty) ∧ (g = [] ∨ ∃ g', g = .blank :: g') ∧ gapsTerm g false
  | (p, g) :: q :: ps => p.Term true ∧ (∃ g', g = .blank :: g') ∧ gapsTerm g true ∧ parasTerm (q :: ps)

structure ParaS.WF (p : ParaS) : Prop where
  first_ok : p.first.WF
  rest_ok : ∀ i ∈ p.rest, i.WF

structure DocS.WF (d : DocS) : Prop where
  lead_ok : ∀ g ∈ d.lead, g.WF
  lead_term : gapsTerm d.lead (!d.paras.isEmpty)
  paras_ok : ∀ pg ∈ d.paras, pg.1.WF ∧ ∀ g ∈ pg.2, g.WF
  paras_term : parasTerm d.paras

end Deb822Verif.Spec
