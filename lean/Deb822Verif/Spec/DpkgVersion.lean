import Deb822Verif.Model.RelAccess
/-!
  # dpkg's version comparison (`lib/dpkg/version.c`), the reference for "Debian version ordering"

  Written from dpkg's C source (and Policy 5.6.12), NOT from the `debversion` crate and not from
  its model `DebVersion.compare`: nothing of Model/DebVersion.lean is imported here. Only the
  record type `Rel.Version` (epoch, upstream, revision) is shared.

  ```c
  static int order(int c) {
      if (c_isdigit(c)) return 0;
      else if (c_isalpha(c)) return c;
      else if (c == '~') return -1;
      else if (c) return c + 256;
      else return 0;
  }
  static int verrevcmp(const char *a, const char *b) {
      if (a == NULL) a = "";
      if (b == NULL) b = "";
      while (*a || *b) {
          int first_diff = 0;
          while ((*a && !c_isdigit(*a)) || (*b && !c_isdigit(*b))) {
              int ac = order(*a);
              int bc = order(*b);
              if (ac != bc) return ac - bc;
              a++; b++;
          }
          while (*a == '0') a++;
          while (*b == '0') b++;
          while (c_isdigit(*a) && c_isdigit(*b)) {
              if (!first_diff) first_diff = *a - *b;
              a++; b++;
          }
          if (c_isdigit(*a)) return 1;
          if (c_isdigit(*b)) return -1;
          if (first_diff) return first_diff;
      }
      return 0;
  }
  int dpkg_version_compare(const struct dpkg_version *a, const struct dpkg_version *b) {
      int rc;
      if (a->epoch > b->epoch) return 1;
      if (a->epoch < b->epoch) return -1;
      rc = verrevcmp(a->version, b->version);
      if (rc) return rc;
      return verrevcmp(a->revision, b->revision);
  }
  ```

  A C string is a `List Char` here; `*a` is the head, the terminating NUL is the end of the list
  (`none`). For the versions `Version::from_str` / dpkg's `parseversion` accept (ASCII letters,
  digits and `. + - : ~`) a character is a byte, so the list IS the C string. A missing revision is
  `NULL` in `struct dpkg_version` and compares as `""`; a missing epoch is 0 (`parseversion`).
-/
namespace Deb822Verif.Dpkg
open Deb822Verif.Rel (Version)

/-- `c_isdigit` -/
def cIsDigit (c : Char) : Bool := '0' ≤ c && c ≤ '9'
/-- `c_isalpha` -/
def cIsAlpha (c : Char) : Bool := ('A' ≤ c && c ≤ 'Z') || ('a' ≤ c && c ≤ 'z')

/-- `order(*p)`: `none` = the terminating NUL. Letters sort before all other characters, `~`
    before everything — even before the end of the string —, digits and the end count 0. -/
def order : Option Char → Int
  | none => 0
  | some c =>
    if cIsDigit c then 0
    else if cIsAlpha c then (c.toNat : Int)
    else if c = '~' then -1
    else (c.toNat : Int) + 256

/-- `*p && !c_isdigit(*p)` -/
def atNonDigit : Str → Bool
  | [] => false
  | c :: _ => !cIsDigit c

/-- `c_isdigit(*p)` -/
def atDigit : Str → Bool
  | [] => false
  | c :: _ => cIsDigit c

/-- the first inner loop: `.inl d` = `return d`, `.inr (a, b)` = the loop ended with these pointers.
    (`a++` on an exhausted string does not occur in C: then `ac = 0 ≠ bc`; `tail [] = []` here.) -/
def nonDigitLoop (a b : Str) : Int ⊕ (Str × Str) :=
  if h : atNonDigit a || atNonDigit b then
    if order a.head? ≠ order b.head? then .inl (order a.head? - order b.head?)
    else nonDigitLoop a.tail b.tail
  else .inr (a, b)
termination_by a.length + b.length
decreasing_by
  cases a <;> cases b <;> simp [atNonDigit] at h ⊢ <;> omega

/-- `*p == '0'` -/
def isZeroChar (c : Char) : Bool := c == '0'

/-- `while (*p == '0') p++;` -/
def skipZeros (s : Str) : Str := s.dropWhile isZeroChar

/-- `first_diff = *a - *b` -/
def charDiff (x y : Char) : Int := (x.toNat : Int) - (y.toNat : Int)

/-- the digit loop: `(first_diff, a, b)` when it ends -/
def digitLoop : Int → Str → Str → Int × Str × Str
  | fd, x :: xs, y :: ys =>
    if cIsDigit x && cIsDigit y then digitLoop (if fd = 0 then charDiff x y else fd) xs ys
    else (fd, x :: xs, y :: ys)
  | fd, a, b => (fd, a, b)

/-- one round of the outer `while (*a || *b)`: `.inl r` = `return r`, `.inr (a, b)` = next round -/
def round (a b : Str) : Int ⊕ (Str × Str) :=
  match nonDigitLoop a b with
  | .inl d => .inl d
  | .inr p =>
    if atDigit (digitLoop 0 (skipZeros p.1) (skipZeros p.2)).2.1 then .inl 1
    else if atDigit (digitLoop 0 (skipZeros p.1) (skipZeros p.2)).2.2 then .inl (-1)
    else if (digitLoop 0 (skipZeros p.1) (skipZeros p.2)).1 ≠ 0 then
      .inl (digitLoop 0 (skipZeros p.1) (skipZeros p.2)).1
    else .inr ((digitLoop 0 (skipZeros p.1) (skipZeros p.2)).2.1, (digitLoop 0 (skipZeros p.1) (skipZeros p.2)).2.2)

/-! ### every round that does not return consumes a character (termination of the outer loop) -/

theorem nonDigitLoop_len (a b : Str) : ∀ p, nonDigitLoop a b = .inr p →
    p.1.length ≤ a.length ∧ p.2.length ≤ b.length ∧
    (atNonDigit a = true → p.1.length < a.length) ∧ (atNonDigit b = true → p.2.length < b.length) ∧
    atNonDigit p.1 = false ∧ atNonDigit p.2 = false := by
  fun_induction nonDigitLoop a b
  next a b h hne => intro p hp; simp at hp
  next a b h he ih =>
    intro p hp
    obtain ⟨h1, h2, _, _, h5, h6⟩ := ih p hp
    refine ⟨Nat.le_trans h1 (by simp), Nat.le_trans h2 (by simp), ?_, ?_, h5, h6⟩
    · intro ha; cases a with
      | nil => simp [atNonDigit] at ha
      | cons c cs => simp at h1 ⊢; omega
    · intro hb; cases b with
      | nil => simp [atNonDigit] at hb
      | cons c cs => simp at h2 ⊢; omega
  next a b h =>
    intro p hp
    simp only [Sum.inr.injEq] at hp
    subst hp
    simp only [Bool.or_eq_true, not_or, Bool.not_eq_true] at h
    simp [h.1, h.2]

theorem skipZeros_len (s : Str) : (skipZeros s).length ≤ s.length :=
  (List.dropWhile_sublist _).length_le

/-- skipping zeros at a digit either moves or stays at a digit -/
theorem skipZeros_digit {s : Str} (h : atDigit s = true) :
    (skipZeros s).length < s.length ∨ atDigit (skipZeros s) = true := by
  cases s with
  | nil => simp [atDigit] at h
  | cons c cs =>
    by_cases hc : isZeroChar c = true
    · left
      have := skipZeros_len cs
      simp only [skipZeros] at this ⊢
      rw [List.dropWhile_cons_of_pos hc]
      simp; omega
    · right
      simp only [skipZeros]
      rw [List.dropWhile_cons_of_neg hc]
      exact h

theorem digitLoop_len (fd : Int) (a b : Str) :
    (digitLoop fd a b).2.1.length ≤ a.length ∧ (digitLoop fd a b).2.2.length ≤ b.length ∧
    (atDigit a = true → (digitLoop fd a b).2.1.length < a.length ∨ atDigit (digitLoop fd a b).2.1 = true) ∧
    (atDigit b = true → (digitLoop fd a b).2.2.length < b.length ∨ atDigit (digitLoop fd a b).2.2 = true) := by
  fun_induction digitLoop fd a b
  next fd x xs y ys h ih =>
    obtain ⟨h1, h2, _, _⟩ := ih
    refine ⟨by simp; omega, by simp; omega, fun _ => Or.inl (by simp; omega), fun _ => Or.inl (by simp; omega)⟩
  next fd x xs y ys h => exact ⟨Nat.le_refl _, Nat.le_refl _, fun h => Or.inr h, fun h => Or.inr h⟩
  next fd a b h => exact ⟨Nat.le_refl _, Nat.le_refl _, fun h => Or.inr h, fun h => Or.inr h⟩

theorem atDigit_or_atNonDigit {s : Str} (h : s ≠ []) : atDigit s = true ∨ atNonDigit s = true := by
  cases s with
  | nil => exact absurd rfl h
  | cons c cs => cases hc : cIsDigit c <;> simp [atDigit, atNonDigit, hc]

/-- a round that goes on has consumed at least one character -/
theorem round_progress {a b : Str} (hne : ¬(a = [] ∧ b = [])) {p : Str × Str}
    (hr : round a b = .inr p) : p.1.length + p.2.length < a.length + b.length := by
  unfold round at hr
  split at hr
  · simp at hr
  · rename_i q hq
    obtain ⟨h1, h2, h3, h4, _, _⟩ := nonDigitLoop_len a b q hq
    split at hr
    · simp at hr
    · rename_i hd1
      split at hr
      · simp at hr
      · rename_i hd2
        split at hr
        · simp at hr
        · simp only [Sum.inr.injEq] at hr
          subst hr
          obtain ⟨g1, g2, g3, g4⟩ := digitLoop_len 0 (skipZeros q.1) (skipZeros q.2)
          have z1 := skipZeros_len q.1
          have z2 := skipZeros_len q.2
          simp only [Bool.not_eq_true] at hd1 hd2
          -- one of the two strings is non-empty; it loses a character
          have key : ∀ (s q1 : Str) (r : Str), q1.length ≤ s.length →
              (atNonDigit s = true → q1.length < s.length) → atNonDigit q1 = false →
              r.length ≤ (skipZeros q1).length →
              (atDigit (skipZeros q1) = true → r.length < (skipZeros q1).length ∨ atDigit r = true) →
              atDigit r = false → s ≠ [] → r.length < s.length := by
            intro s q1 r l1 l2 l3 l4 l5 l6 hs
            rcases atDigit_or_atNonDigit hs with hd | hn
            · by_cases hq1 : q1 = []
              · subst hq1
                have : r.length = 0 := by simpa [skipZeros] using l4
                have : 0 < s.length := List.length_pos_iff.2 hs
                omega
              · have hz := skipZeros_len q1
                rcases atDigit_or_atNonDigit hq1 with hd' | hn'
                · rcases skipZeros_digit hd' with hz' | hz'
                  · omega
                  · rcases l5 hz' with l | l
                    · omega
                    · rw [l6] at l; cases l
                · rw [l3] at hn'; cases hn'
            · have := l2 hn
              have hz := skipZeros_len q1
              omega
          by_cases ha : a = []
          · have hb : b ≠ [] := fun hb => hne ⟨ha, hb⟩
            have := key b q.2 _ h2 h4 (by assumption) g2 g4 hd2 hb
            dsimp only
            omega
          · have := key a q.1 _ h1 h3 (by assumption) g1 g3 hd1 ha
            dsimp only
            omega

/-- **`verrevcmp`** -/
def verrevcmp (a b : Str) : Int :=
  if h : a = [] ∧ b = [] then 0
  else
    match hr : round a b with
    | .inl r => r
    | .inr p => verrevcmp p.1 p.2
termination_by a.length + b.length
decreasing_by exact round_progress h hr

/-- `a->epoch` as `parseversion` fills it in: 0 when no epoch is written -/
def epoch (v : Version) : Nat := match v.epoch with | some e => e | none => 0
/-- `a->revision`: `NULL` (compared as `""`) when no revision is written -/
def revision (v : Version) : Str := match v.revision with | some r => r | none => []

/-- **`dpkg_version_compare`**: negative / zero / positive -/
def versionCompare (v w : Version) : Int :=
  if epoch v > epoch w then 1
  else if epoch v < epoch w then -1
  else if verrevcmp v.upstream w.upstream ≠ 0 then verrevcmp v.upstream w.upstream
  else verrevcmp (revision v) (revision w)

/-- the sign of a C comparison result -/
def sign (r : Int) : Ordering := if r < 0 then .lt else if r = 0 then .eq else .gt

/-- **the Debian version ordering** as dpkg decides it -/
def dpkgOrder (v w : Version) : Ordering := sign (versionCompare v w)

end Deb822Verif.Dpkg
