import Deb822Verif.Spec.DocSDec
/-! The domain of the C08 round trip: canonical lossy values, given by their lines (decidable). -/
namespace Deb822Verif.Spec
open Deb822Verif Deb

/-- canonical value, given by its lines: no line break characters inside a line; the first line
    may be empty only when more lines follow; every other line is non-empty; no line starts with
    space/tab; continuation lines do not start with '#' (an indented '#' line is a comment for both
    readers) -/
structure CanonLines (ls : List Str) : Prop where
  ne : ls ≠ []
  noNl : ∀ l ∈ ls, NoNl l
  first : ∀ c, (ls.head?.bind List.head?) = some c → isIndent c = false
  tailOk : ∀ l ∈ ls.tail, ValidCont l


theorem CanonLines.iff (ls : List Str) :
    CanonLines ls ↔ (ls ≠ [] ∧ (∀ l ∈ ls, NoNl l) ∧
      (∀ c, (ls.head?.bind List.head?) = some c → isIndent c = false) ∧ ∀ l ∈ ls.tail, ValidCont l) :=
  ⟨fun h => ⟨h.ne, h.noNl, h.first, h.tailOk⟩, fun h => ⟨h.1, h.2.1, h.2.2.1, h.2.2.2⟩⟩

instance (ls : List Str) : Decidable (∀ c, (ls.head?.bind List.head?) = some c → isIndent c = false) :=
  match h : ls.head?.bind List.head? with
  | none => isTrue (by intro c hc; simp at hc)
  | some c => if hi : isIndent c = false then isTrue (by intro c' hc'; simp at hc'; subst hc'; exact hi)
    else isFalse (by intro hh; exact hi (hh c rfl))

instance (ls : List Str) : Decidable (CanonLines ls) := decidable_of_iff _ (CanonLines.iff ls).symm


/-- a whole lossy document (paragraphs of (name, value)) is canonical: every paragraph non-empty,
    names valid, values canonical when split at LF -/
def canonDocB (d : List (List (Str × Str))) : Bool :=
  d.all fun p => !p.isEmpty && p.all fun f =>
    decide (ValidKey f.1) && decide (CanonLines (Text.splitOn '\n' f.2))

end Deb822Verif.Spec
