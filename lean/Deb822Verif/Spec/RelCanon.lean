import Deb822Verif.Spec.RelGrammar
import Deb822Verif.Model.RelBuild
/-!
  The domain of property C14 — lossy relation values assembled from valid components — and the
  canonical-layout field (`Spec/RelGrammar.FieldA`) whose text is what the lossy printer writes.
-/
namespace Deb822Verif.RelSpec
open Deb822Verif Rel

/-- the version text that prints a `debversion::Version`: `[epoch:]upstream[-revision]` -/
def versionAOf (v : Version) : VersionA :=
  ⟨v.epoch.map fun e => (toString e).toList,
    v.upstream ++ (match v.revision with | some r => '-' :: r | none => [])⟩

/-- a version that is the value of a well-formed version text printing as itself (epoch below 2^32,
    identifier characters, upstream / revision split at the last hyphen) -/
def validVersion (v : Version) : Bool :=
  (versionAOf v).ok && decide ((versionAOf v).value = v)

/-- an architecture as stored in `lossy::Relation::architectures`: `[!]name` -/
def archItem (gap : Gap) (a : Str) : Item :=
  match a with
  | '!' :: n => ⟨gap, true, n⟩
  | _ => ⟨gap, false, a⟩

def validArch (a : Str) : Bool := isIdent (archItem [] a).name

def profName : BuildProfile → Str
  | .Enabled n => n
  | .Disabled n => n

def profItem (gap : Gap) : BuildProfile → Item
  | .Enabled n => ⟨gap, false, n⟩
  | .Disabled n => ⟨gap, true, n⟩

/-- valid components: identifier characters as the lexer defines them for the name, the qualifier,
    the architecture names (possibly with a leading `!`) and the profile names; a version that
    prints as a well-formed version text. (An empty architecture list `Some([])` and an empty
    profile group are accepted too: both readers and the printer handle `[]` / `<>`.) -/
def validR (r : Lossy.Relation) : Bool :=
  isIdent r.name
    && (match r.archqual with | some a => isIdent a | none => true)
    && (match r.version with | some (_, v) => validVersion v | none => true)
    && (match r.architectures with | some as => as.all validArch | none => true)
    && r.profiles.all fun g => g.all fun p => isIdent (profName p)

def ValidR (r : Lossy.Relation) : Prop := validR r = true
instance (r : Lossy.Relation) : Decidable (ValidR r) := by unfold ValidR; exact inferInstance

/-- a valid `lossy::Relations` value: every entry has at least one alternative, all of them valid -/
def validRs (rs : List (List Lossy.Relation)) : Bool := rs.all fun e => !e.isEmpty && e.all validR
def ValidRs (rs : List (List Lossy.Relation)) : Prop := validRs rs = true
instance (rs : List (List Lossy.Relation)) : Decidable (ValidRs rs) := by unfold ValidRs; exact inferInstance

/-- the strong variant: moreover an architecture list, when present, is non-empty (Policy; the
    lossless setters and `RelationBuilder` treat an empty list as "no list", so `Some([])` does not
    survive the conversion to the lossless form) — the domain of the conversion clauses of C14 and of
    the constructors' layout of C11 -/
def validRS (r : Lossy.Relation) : Bool :=
  validR r && (match r.architectures with | some as => !as.isEmpty | none => true)

def ValidRS (r : Lossy.Relation) : Prop := validRS r = true
instance (r : Lossy.Relation) : Decidable (ValidRS r) := by unfold ValidRS; exact inferInstance

def validRSs (rs : List (List Lossy.Relation)) : Bool := rs.all fun e => !e.isEmpty && e.all validRS
def ValidRSs (rs : List (List Lossy.Relation)) : Prop := validRSs rs = true
instance (rs : List (List Lossy.Relation)) : Decidable (ValidRSs rs) := by unfold ValidRSs; exact inferInstance

def sp : Gap := [.ws [' ']]

/-- gaps of the canonical layout inside a bracket: none before the first term, one space before
    each later one -/
def canonItems (mk : Gap → α → Item) : List α → List Item
  | [] => []
  | x :: xs => mk [] x :: xs.map (mk sp)

/-- the relation as the lossy printer lays it out: `name[:aq][ (op v)][ [a b]][ <p q>]…` -/
def canonRel (r : Lossy.Relation) : RelA :=
  { name := r.name
    archqual := r.archqual
    version := r.version.map fun (c, v) => ⟨sp, [], c, sp, versionAOf v, []⟩
    archs := r.architectures.map fun as => ⟨sp, canonItems archItem as, []⟩
    profiles := r.profiles.map fun g => ⟨sp, canonItems profItem g, []⟩ }

/-- an entry: alternatives separated by ` | ` -/
def canonEntry : List Lossy.Relation → EntryA
  | [] => .empty
  | r :: rs => .alts (canonRel r) (rs.map fun x => ⟨sp, sp, canonRel x⟩)

/-- the field: entries separated by `, ` -/
def canonSegs : List (List Lossy.Relation) → List Seg
  | [] => []
  | e :: es => ⟨[], canonEntry e, []⟩ :: es.map fun x => ⟨sp, canonEntry x, []⟩

def canon (rs : List (List Lossy.Relation)) : FieldA := ⟨canonSegs rs⟩

/-! ### trigger predicates of the open findings of C14 -/

/-- F-C14-1: `architectures: None` — `RelationBuilder::build` calls `set_architectures` anyway and
    appends ` []` -/
def trigNoArchs (r : Lossy.Relation) : Bool := r.architectures.isNone
/-- F-C14-2: two or more profile groups — the second `add_profile` splices an immutable tree -/
def trigManyProfiles (r : Lossy.Relation) : Bool := decide (2 ≤ r.profiles.length)

end Deb822Verif.RelSpec
