import Deb822Verif.Spec.DocC
import Deb822Verif.Spec.DocSDec
/-! Decidability of `DocC.WF` / `DocC.TermAll` (so that concrete documents can be checked by `decide`). -/
namespace Deb822Verif.Spec
open Deb822Verif Deb

instance (s : Str) : Decidable (∃ t, s = '#' :: t ∧ NoNl t) :=
  match s with
  | [] => isFalse (by intro ⟨_, h, _⟩; simp at h)
  | c :: cs =>
    if h : c = '#' ∧ NoNl cs then isTrue ⟨cs, by rw [h.1], h.2⟩
    else isFalse (by
      intro ⟨t, he, hn⟩
      simp at he; obtain ⟨rfl, rfl⟩ := he
      exact h ⟨rfl, hn⟩)

theorem ContC.wf_iff (c : ContC) : c.WF ↔ (c.indent ≠ [] ∧ AllIndent c.indent
    ∧ (if c.isC then (∃ t, c.text = '#' :: t ∧ NoNl t) else ValidCont c.text)) :=
  ⟨fun h => ⟨h.indent_ne, h.indent_ok, h.text_ok⟩, fun h => ⟨h.1, h.2.1, h.2.2⟩⟩
instance (c : ContC) : Decidable c.WF := decidable_of_iff _ (ContC.wf_iff c).symm

theorem EntryC.wf_iff (e : EntryC) :
    e.WF ↔ (ValidKey e.key ∧ AllIndent e.ws ∧ ValidFirst e.v ∧ ∀ c ∈ e.conts, c.WF) :=
  ⟨fun h => ⟨h.key_ok, h.ws_ok, h.v_ok, h.conts_ok⟩, fun h => ⟨h.1, h.2.1, h.2.2.1, h.2.2.2⟩⟩
instance (e : EntryC) : Decidable e.WF := decidable_of_iff _ (EntryC.wf_iff e).symm

instance (i : PItemC) : Decidable i.WF := by cases i <;> simp only [PItemC.WF] <;> exact inferInstance

instance contsTermCMDec : (cs : List ContC) → (more : Bool) → Decidable (contsTermCM cs more)
  | [], _ => isTrue trivial
  | c :: cs, more =>
    have := contsTermCMDec cs more
    by simp only [contsTermCM]; exact inferInstance

instance (e : EntryC) (more : Bool) : Decidable (e.TermM more) := by
  unfold EntryC.TermM; exact inferInstance

instance contsTermCDec : (cs : List ContC) → Decidable (contsTermC cs)
  | [] => isTrue trivial
  | c :: cs =>
    have := contsTermCDec cs
    by simp only [contsTermC]; exact inferInstance

instance (e : EntryC) : Decidable e.Term := by unfold EntryC.Term; exact inferInstance
instance (e : EntryC) : Decidable e.TermAll := by unfold EntryC.TermAll; exact inferInstance

instance itemsTermCDec : (is : List PItemC) → (more : Bool) → Decidable (itemsTermC is more)
  | [], _ => isTrue trivial
  | .comment _ nl :: is, more =>
    have := itemsTermCDec is more
    by simp only [itemsTermC]; exact inferInstance
  | .entry e :: is, more =>
    have := itemsTermCDec is more
    by simp only [itemsTermC]; exact inferInstance

instance (p : ParaC) (more : Bool) : Decidable (p.Term more) := by unfold ParaC.Term; exact inferInstance

instance parasTermCDec : (ps : List (ParaC × List Gap)) → Decidable (parasTermC ps)
  | [] => isTrue trivial
  | [(p, g)] => by simp only [parasTermC]; exact inferInstance
  | (p, g) :: q :: ps =>
    have := parasTermCDec (q :: ps)
    by simp only [parasTermC]; exact inferInstance

theorem ParaC.wf_iff (p : ParaC) : p.WF ↔ (p.first.WF ∧ ∀ i ∈ p.rest, i.WF) :=
  ⟨fun h => ⟨h.first_ok, h.rest_ok⟩, fun h => ⟨h.1, h.2⟩⟩
instance (p : ParaC) : Decidable p.WF := decidable_of_iff _ (ParaC.wf_iff p).symm

theorem DocC.wf_iff (d : DocC) :
    d.WF ↔ ((∀ g ∈ d.lead, g.WF) ∧ gapsTerm d.lead (!d.paras.isEmpty)
      ∧ (∀ pg ∈ d.paras, pg.1.WF ∧ ∀ g ∈ pg.2, g.WF) ∧ parasTermC d.paras) :=
  ⟨fun h => ⟨h.lead_ok, h.lead_term, h.paras_ok, h.paras_term⟩, fun h => ⟨h.1, h.2.1, h.2.2.1, h.2.2.2⟩⟩
instance (d : DocC) : Decidable d.WF := decidable_of_iff _ (DocC.wf_iff d).symm

instance parasTermCRDec : (ps : List (ParaC × List Gap)) → Decidable (parasTermCR ps)
  | [] => isTrue trivial
  | [(p, g)] => by simp only [parasTermCR]; exact inferInstance
  | (p, g) :: q :: ps =>
    have := parasTermCRDec (q :: ps)
    by simp only [parasTermCR]; exact inferInstance

theorem DocC.termAll_iff (d : DocC) : d.TermAll ↔ (gapsTerm d.lead true ∧ parasTermCR d.paras) :=
  ⟨fun h => ⟨h.lead, h.paras⟩, fun h => ⟨h.1, h.2⟩⟩
instance (d : DocC) : Decidable d.TermAll := decidable_of_iff _ (DocC.termAll_iff d).symm

end Deb822Verif.Spec
