import Deb822Verif.Model.RelEdit
import Deb822Verif.Model.RelLossy
/-!
  The list model of a relationship field (property C11): a field is a list of items, an item is an
  entry — the list of its alternatives, each the record of what the read accessors of
  `lossless::Relation` return — or a substitution variable. `abs` reads the model off a tree through
  the accessors of Model/RelAccess.lean; `S.*` are the list operations the editing API must match.
-/
namespace Deb822Verif.Rel.Edit
open Deb822Verif Rel Node Build Lossy

/-- what the five read accessors say about a relation node (`none` / `.error` = the accessor panics) -/
structure RelRec where
  name : Option Str
  archqual : Option Str
  version : Except Unit (Option (VC × Version))
  architectures : Option (List Str)
  profiles : List (List BuildProfile)
  deriving DecidableEq, Repr

def recOf (r : RNode) : RelRec := ⟨name r, archqual r, version r, architectures r, profiles r⟩

/-- the record of a proper value -/
def RelRec.ofLossy (r : Lossy.Relation) : RelRec := ⟨some r.name, r.archqual, .ok r.version, r.architectures, r.profiles⟩

/-! ### the list model -/

/-- one comma-separated item of the field, as the readers see it -/
inductive ItemS
  /-- an entry: its alternatives, each as the record of what the accessors return -/
  | alts (rs : List RelRec)
  /-- a substitution variable, by its text -/
  | subst (text : Str)
  deriving DecidableEq, Repr

/-- a relationship field as a list of items (a list of lists of relation records, with the
    substitution variables in between) -/
abbrev FieldS := List ItemS

def ItemS.isAlts : ItemS → Bool
  | .alts _ => true
  | .subst _ => false

/-- `Entry::relations()` read through the accessors -/
def relsOf (e : RNode) : List RelRec := (relations e).map recOf

def itemOf (c : RNode) : Option ItemS :=
  if isNodeOf .ENTRY c then some (.alts (relsOf c))
  else if isNodeOf .SUBSTVAR c then some (.subst c.text)
  else none

def absKids (cs : List RNode) : FieldS := cs.filterMap itemOf

/-- the abstraction function: the items of the root node, in order -/
def abs (root : RNode) : FieldS := absKids root.children

namespace S

def nEntries (s : FieldS) : Nat := s.countP ItemS.isAlts

/-- the `i`-th entry (substitution variables are not counted) is replaced by the items `G rs` -/
def updEntry (G : List RelRec → List ItemS) : FieldS → Nat → FieldS
  | [], _ => []
  | .subst t :: xs, i => .subst t :: updEntry G xs i
  | .alts rs :: xs, 0 => G rs ++ xs
  | .alts rs :: xs, i + 1 => .alts rs :: updEntry G xs i

/-- the alternatives of the `i`-th entry -/
def entry? : FieldS → Nat → Option (List RelRec)
  | [], _ => none
  | .subst _ :: xs, i => entry? xs i
  | .alts rs :: _, 0 => some rs
  | .alts _ :: xs, i + 1 => entry? xs i

def modEntry (s : FieldS) (i : Nat) (g : List RelRec → List RelRec) : FieldS :=
  updEntry (fun rs => [.alts (g rs)]) s i

/-- the `j`-th alternative of the `i`-th entry is changed by `g` -/
def modRel (s : FieldS) (i j : Nat) (g : RelRec → RelRec) : FieldS := modEntry s i (·.modify j g)

/-- `Relations::push` -/
def push (s : FieldS) (e : List RelRec) : FieldS := s ++ [.alts e]

/-- `Relations::insert(i, e)`: before the `i`-th entry, at the end when there is none -/
def insert (s : FieldS) (i : Nat) (e : List RelRec) : FieldS :=
  if i < nEntries s then updEntry (fun rs => [.alts e, .alts rs]) s i else s ++ [.alts e]

/-- `Relations::replace(i, e)` -/
def replace (s : FieldS) (i : Nat) (e : List RelRec) : FieldS := updEntry (fun _ => [.alts e]) s i

/-- `Relations::remove_entry(i)` -/
def removeEntry (s : FieldS) (i : Nat) : FieldS := updEntry (fun _ => []) s i

/-- `Entry::remove_relation(j)` on the `i`-th entry: an entry left without alternative goes too -/
def removeRel (s : FieldS) (i j : Nat) : FieldS :=
  updEntry (fun rs => if (rs.eraseIdx j).isEmpty then [] else [.alts (rs.eraseIdx j)]) s i

/-- `Entry::push(r)` on the `i`-th entry -/
def entryPush (s : FieldS) (i : Nat) (r : RelRec) : FieldS := modEntry s i (· ++ [r])

/-- `Entry::replace(j, r)` on the `i`-th entry -/
def entryReplace (s : FieldS) (i j : Nat) (r : RelRec) : FieldS := modRel s i j (fun _ => r)

end S

end Deb822Verif.Rel.Edit
