import Deb822Verif.Model.DebLex
/-!
  The deb822 grammar of property C03 as data: a document is a list of lines.
  `render` prints it, `content` is what a reader must expose.
-/
namespace Deb822Verif.Spec
open Deb822Verif Deb

inductive Line
  /-- empty line -/
  | blank
  /-- `#` ++ text -/
  | comment (text : Str)
  /-- `key:` ++ ws ++ v -/
  | field (key ws v : Str)
  /-- continuation line: indent ++ v -/
  | cont (indent v : Str)
  /-- an arbitrary (corrupted) line -/
  | raw (text : Str)
  deriving Repr, DecidableEq

def Line.text : Line → Str
  | .blank => []
  | .comment t => '#' :: t
  | .field k ws v => k ++ ':' :: (ws ++ v)
  | .cont i v => i ++ v
  | .raw t => t

/-- every line LF-terminated, except possibly the last one -/
def render (ls : List Line) (finalNewline : Bool) : Str :=
  match ls with
  | [] => []
  | [l] => if finalNewline then l.text ++ ['\n'] else l.text
  | l :: ls' => l.text ++ '\n' :: render ls' finalNewline

/-- content accumulator: finished paragraphs (reversed), current paragraph (reversed, each field
    with its value lines reversed) -/
def pushLine (acc : List (Str × List Str)) (v : Str) : List (Str × List Str) :=
  match acc with
  | [] => []
  | (k, ls) :: rest => (k, if v = [] then ls else v :: ls) :: rest

def finishPara (cur : List (Str × List Str)) : List (Str × Str) :=
  cur.reverse.map fun kv => (kv.1, Text.join ['\n'] kv.2.reverse)

def contentAux : List Line → List (List (Str × Str)) → List (Str × List Str) → List (List (Str × Str))
  | [], done, cur => (if cur = [] then done else finishPara cur :: done).reverse
  | .blank :: ls, done, cur => contentAux ls (if cur = [] then done else finishPara cur :: done) []
  | .comment _ :: ls, done, cur => contentAux ls done cur
  | .field k _ v :: ls, done, cur => contentAux ls done ((k, if v = [] then [] else [v]) :: cur)
  | .cont _ v :: ls, done, cur => contentAux ls done (pushLine cur v)
  | .raw _ :: ls, done, cur => contentAux ls done cur

/-- paragraphs × (name, value) in file order; value = its non-empty lines joined by "\n" -/
def content (ls : List Line) : List (List (Str × Str)) := contentAux ls [] []

end Deb822Verif.Spec
