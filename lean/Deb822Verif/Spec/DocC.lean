import Deb822Verif.Lemmas.DebWrapSpecC
/-!
  Well-formed deb822 documents whose fields may hold *comment lines inside a multi-line value*
  (`A: b⏎ #c⏎ d`: a continuation-position line whose first non-blank character is `#`; the lexer
  emits INDENT COMMENT NEWLINE, the parser keeps the line inside the ENTRY, every reader treats it as a
  comment). `DocC` is `Spec/DocS.lean` with `EntryC` (Lemmas/DebWrapSpecC.lean) in place of `EntryS`:
  same `str` / `toks` / `tree`, same well-formedness and line-termination conditions. `DocS.toC`
  embeds the grammar of C03 (no comment lines inside values).
-/
namespace Deb822Verif.Spec
open Deb822Verif Deb Node

/-- things inside a paragraph after its first field -/
inductive PItemC
  | comment (t : Str) (nl : Bool)
  | entry (e : EntryC)
  deriving Repr, DecidableEq

structure ParaC where
  first : EntryC
  rest : List PItemC
  deriving Repr, DecidableEq

structure DocC where
  lead : List Gap
  paras : List (ParaC × List Gap)
  deriving Repr

/-! ### text -/
def PItemC.str : PItemC → Str
  | .comment t nl => '#' :: t ++ nlText nl
  | .entry e => e.str
def ParaC.str (p : ParaC) : Str := p.first.str ++ (p.rest.map PItemC.str).flatten
def DocC.str (d : DocC) : Str :=
  gapsStr d.lead ++ (d.paras.map fun pg => pg.1.str ++ gapsStr pg.2).flatten

/-! ### tokens -/
def PItemC.toks : PItemC → List Tok
  | .comment t nl => (.COMMENT, '#' :: t) :: nlTok nl
  | .entry e => e.toks
def itemsToksC (is : List PItemC) : List Tok := (is.map PItemC.toks).flatten
def ParaC.toks (p : ParaC) : List Tok := p.first.toks ++ itemsToksC p.rest
def parasToksC (ps : List (ParaC × List Gap)) : List Tok :=
  (ps.map fun pg => pg.1.toks ++ gapsToks pg.2).flatten
def DocC.toks (d : DocC) : List Tok := gapsToks d.lead ++ parasToksC d.paras

/-! ### tree -/
def PItemC.nodes : PItemC → List DNode
  | .comment t nl => ((.COMMENT, '#' :: t) :: nlTok nl).map tk
  | .entry e => [e.node]
def itemsNodesC (is : List PItemC) : List DNode := (is.map PItemC.nodes).flatten
def ParaC.node (p : ParaC) : DNode := .node .PARAGRAPH (p.first.node :: itemsNodesC p.rest)
def parasNodesC (ps : List (ParaC × List Gap)) : List DNode :=
  (ps.map fun pg => pg.1.node :: pg.2.map Gap.node).flatten
def DocC.tree (d : DocC) : DNode := .node .ROOT (d.lead.map Gap.node ++ parasNodesC d.paras)

/-! ### content: value = its non-empty value lines joined by "\n" (comment lines are no content) -/
def EntryC.content (e : EntryC) : Str × Str := (e.key, Text.join ['\n'] e.valueLines)
def PItemC.content : PItemC → List (Str × Str)
  | .comment _ _ => []
  | .entry e => [e.content]
def ParaC.content (p : ParaC) : List (Str × Str) :=
  p.first.content :: (p.rest.map PItemC.content).flatten
def DocC.content (d : DocC) : List (List (Str × Str)) := d.paras.map fun pg => pg.1.content

/-! ### well-formedness -/
def PItemC.WF : PItemC → Prop
  | .comment t _ => NoNl t
  | .entry e => e.WF

/-! line termination: a line may lack its `\n` only if nothing at all follows it.
    `more` = "some text follows this unit". -/
def contsTermCM : List ContC → Bool → Prop
  | [], _ => True
  | c :: cs, more => (c.nl = true ∨ (cs = [] ∧ more = false)) ∧ contsTermCM cs more

def EntryC.TermM (e : EntryC) (more : Bool) : Prop :=
  (e.nl = true ∨ (e.conts = [] ∧ more = false)) ∧ contsTermCM e.conts more

def itemsTermC : List PItemC → Bool → Prop
  | [], _ => True
  | .comment _ nl :: is, more => (nl = true ∨ (is = [] ∧ more = false)) ∧ itemsTermC is more
  | .entry e :: is, more => e.TermM (!is.isEmpty || more) ∧ itemsTermC is more

def ParaC.Term (p : ParaC) (more : Bool) : Prop :=
  p.first.TermM (!p.rest.isEmpty || more) ∧ itemsTermC p.rest more

/-- between two paragraphs there is at least one blank line, and it comes first -/
def parasTermC : List (ParaC × List Gap) → Prop
  | [] => True
  | [(p, g)] => p.Term (!g.isEmpty) ∧ (g = [] ∨ ∃ g', g = .blank :: g') ∧ gapsTerm g false
  | (p, g) :: q :: ps => p.Term true ∧ (∃ g', g = .blank :: g') ∧ gapsTerm g true ∧ parasTermC (q :: ps)

/-- fully terminated paragraphs: like `parasTermC`, but something follows the last one too -/
def parasTermCR : List (ParaC × List Gap) → Prop
  | [] => True
  | [(p, g)] => p.Term true ∧ (g = [] ∨ ∃ g', g = .blank :: g') ∧ gapsTerm g true
  | (p, g) :: q :: ps => p.Term true ∧ (∃ g', g = .blank :: g') ∧ gapsTerm g true ∧ parasTermCR (q :: ps)

structure ParaC.WF (p : ParaC) : Prop where
  first_ok : p.first.WF
  rest_ok : ∀ i ∈ p.rest, i.WF

structure DocC.WF (d : DocC) : Prop where
  lead_ok : ∀ g ∈ d.lead, g.WF
  lead_term : gapsTerm d.lead (!d.paras.isEmpty)
  paras_ok : ∀ pg ∈ d.paras, pg.1.WF ∧ ∀ g ∈ pg.2, g.WF
  paras_term : parasTermC d.paras

/-- every line of the document is LF-terminated -/
structure DocC.TermAll (d : DocC) : Prop where
  lead : gapsTerm d.lead true
  paras : parasTermCR d.paras

/-! ### from the `more`-indexed termination to the one of `EntryC` (DebWrapSpecC.lean) -/

theorem contsTermC_of_M (cs : List ContC) (more : Bool) (h : contsTermCM cs more) : contsTermC cs := by
  induction cs with
  | nil => trivial
  | cons c cs ih =>
    refine ⟨?_, ih h.2⟩
    rcases h.1 with h1 | h1
    · exact Or.inl h1
    · exact Or.inr h1.1

theorem EntryC.term_of_M (e : EntryC) (more : Bool) (h : e.TermM more) : e.Term := by
  refine ⟨?_, contsTermC_of_M _ _ h.2⟩
  rcases h.1 with h1 | h1
  · exact Or.inl h1
  · exact Or.inr h1.1

theorem contsTermCM_all (cs : List ContC) (h : ∀ c ∈ cs, c.nl = true) (more : Bool) : contsTermCM cs more := by
  induction cs with
  | nil => trivial
  | cons c cs ih => exact ⟨Or.inl (h c (by simp)), ih fun x hx => h x (by simp [hx])⟩

theorem EntryC.termAll_termM (e : EntryC) (h : e.TermAll) (more : Bool) : e.TermM more :=
  ⟨Or.inl h.1, contsTermCM_all _ h.2 more⟩

end Deb822Verif.Spec
