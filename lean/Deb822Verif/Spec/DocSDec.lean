import Deb822Verif.Spec.DocS
/-! Decidability of `DocS.WF` (so that concrete documents can be checked by `decide`, and the
    model driver can tell the harness whether a generated document lies in the theorems' domain). -/
namespace Deb822Verif.Spec
open Deb822Verif Deb

instance (s : Str) : Decidable (NoNl s) := by unfold NoNl; exact inferInstance
instance (s : Str) : Decidable (AllIndent s) := by unfold AllIndent; exact inferInstance

instance (k : Str) : Decidable (ValidKey k) :=
  match k with
  | [] => isFalse (by intro ⟨c, cs, h, _⟩; simp at h)
  | c :: cs =>
    if h : isInitialKeyChar c = true ∧ c ≠ '#' ∧ ∀ x ∈ cs, isKeyChar x = true then
      isTrue ⟨c, cs, rfl, h.1, h.2.1, h.2.2⟩
    else isFalse (by
      intro ⟨c', cs', he, h1, h2, h3⟩
      simp at he; obtain ⟨rfl, rfl⟩ := he
      exact h ⟨h1, h2, h3⟩)

instance (v : Str) : Decidable (ValidFirst v) :=
  match v with
  | [] => if h : NoNl ([] : Str) then isTrue ⟨h, by simp⟩ else isFalse (fun hh => h hh.1)
  | c :: cs =>
    if h : NoNl (c :: cs) ∧ isIndent c = false then isTrue ⟨h.1, by intro x hx; simp at hx; subst hx; exact h.2⟩
    else isFalse (by intro ⟨h1, h2⟩; exact h ⟨h1, h2 c (by simp)⟩)

instance (v : Str) : Decidable (ValidCont v) :=
  match v with
  | [] => isFalse (by intro ⟨_, c, cs, h, _⟩; simp at h)
  | c :: cs =>
    if h : NoNl (c :: cs) ∧ isIndent c = false ∧ c ≠ '#' then isTrue ⟨h.1, c, cs, rfl, h.2.1, h.2.2⟩
    else isFalse (by
      intro ⟨h1, c', cs', he, h2, h3⟩
      simp at he; obtain ⟨rfl, rfl⟩ := he
      exact h ⟨h1, h2, h3⟩)

theorem ContS.wf_iff (c : ContS) : c.WF ↔ (c.indent ≠ [] ∧ AllIndent c.indent ∧ ValidCont c.text) :=
  ⟨fun h => ⟨h.indent_ne, h.indent_ok, h.text_ok⟩, fun h => ⟨h.1, h.2.1, h.2.2⟩⟩
instance (c : ContS) : Decidable c.WF := decidable_of_iff _ (ContS.wf_iff c).symm

theorem EntryS.wf_iff (e : EntryS) :
    e.WF ↔ (ValidKey e.key ∧ AllIndent e.ws ∧ ValidFirst e.v ∧ ∀ c ∈ e.conts, c.WF) :=
  ⟨fun h => ⟨h.key_ok, h.ws_ok, h.v_ok, h.conts_ok⟩, fun h => ⟨h.1, h.2.1, h.2.2.1, h.2.2.2⟩⟩
instance (e : EntryS) : Decidable e.WF := decidable_of_iff _ (EntryS.wf_iff e).symm

instance (i : PItem) : Decidable i.WF := by cases i <;> simp only [PItem.WF] <;> exact inferInstance
instance (g : Gap) : Decidable g.WF := by cases g <;> simp only [Gap.WF] <;> exact inferInstance

instance contsTermDec : (cs : List ContS) → (more : Bool) → Decidable (contsTerm cs more)
  | [], _ => isTrue trivial
  | c :: cs, more =>
    have := contsTermDec cs more
    by simp only [contsTerm]; exact inferInstance

instance (e : EntryS) (more : Bool) : Decidable (e.Term more) := by
  unfold EntryS.Term; exact inferInstance

instance itemsTermDec : (is : List PItem) → (more : Bool) → Decidable (itemsTerm is more)
  | [], _ => isTrue trivial
  | .comment _ nl :: is, more =>
    have := itemsTermDec is more
    by simp only [itemsTerm]; exact inferInstance
  | .entry e :: is, more =>
    have := itemsTermDec is more
    by simp only [itemsTerm]; exact inferInstance

instance (p : ParaS) (more : Bool) : Decidable (p.Term more) := by unfold ParaS.Term; exact inferInstance

instance gapsTermDec : (gs : List Gap) → (more : Bool) → Decidable (gapsTerm gs more)
  | [], _ => isTrue trivial
  | .blank :: gs, more =>
    have := gapsTermDec gs more
    by simp only [gapsTerm]; exact inferInstance
  | .comment _ nl :: gs, more =>
    have := gapsTermDec gs more
    by simp only [gapsTerm]; exact inferInstance

instance startsBlankDec (g : List Gap) : Decidable (∃ g', g = Gap.blank :: g') :=
  match g with
  | [] => isFalse (by intro ⟨_, h⟩; simp at h)
  | .blank :: g' => isTrue ⟨g', rfl⟩
  | .comment _ _ :: _ => isFalse (by intro ⟨_, h⟩; simp at h)

instance parasTermDec : (ps : List (ParaS × List Gap)) → Decidable (parasTerm ps)
  | [] => isTrue trivial
  | [(p, g)] => by simp only [parasTerm]; exact inferInstance
  | (p, g) :: q :: ps =>
    have := parasTermDec (q :: ps)
    by simp only [parasTerm]; exact inferInstance

theorem ParaS.wf_iff (p : ParaS) : p.WF ↔ (p.first.WF ∧ ∀ i ∈ p.rest, i.WF) :=
  ⟨fun h => ⟨h.first_ok, h.rest_ok⟩, fun h => ⟨h.1, h.2⟩⟩
instance (p : ParaS) : Decidable p.WF := decidable_of_iff _ (ParaS.wf_iff p).symm

theorem DocS.wf_iff (d : DocS) :
    d.WF ↔ ((∀ g ∈ d.lead, g.WF) ∧ gapsTerm d.lead (!d.paras.isEmpty)
      ∧ (∀ pg ∈ d.paras, pg.1.WF ∧ ∀ g ∈ pg.2, g.WF) ∧ parasTerm d.paras) :=
  ⟨fun h => ⟨h.lead_ok, h.lead_term, h.paras_ok, h.paras_term⟩, fun h => ⟨h.1, h.2.1, h.2.2.1, h.2.2.2⟩⟩
instance (d : DocS) : Decidable d.WF := decidable_of_iff _ (DocS.wf_iff d).symm

end Deb822Verif.Spec
