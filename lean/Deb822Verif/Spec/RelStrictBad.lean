import Deb822Verif.Model.RelAccess
/-!
  Decidable description of the relations on which `Relation::version()` (lossless/relations.rs:1354-1378)
  panics although `Relations::from_str` accepted the text (C12, `Props/C12Strict.lean`):

  * `badOp r`   — the VERSION node of `r` has a CONSTRAINT child whose printed text is not one of the five
                  operator strings `<<`, `<=`, `=`, `>=`, `>>` (`VersionConstraint::from_str(..).unwrap()`,
                  relations.rs:1374). The parser's constraint loop (relations.rs:212-217) bumps ANY run of
                  `<`, `>`, `=` tokens, the empty run included: `a (> 1)`, `a (>>= 1)`, `a (1)`.
  * `bigEpoch r` — the version text (IDENT and COLON tokens of the VERSION node) is `digits ':' rest` and the
                  digits do not fit a `u32` (`version.parse().unwrap()`, relations.rs:1375; debversion
                  lib.rs:217 `e.parse::<u32>()`): `a (>= 4294967296:1)`.

  Both are plain Boolean functions of the tree (no hypothesis), used by the theorems and by the driver
  (`Driver/Sat.lean`, op `rel.strict`).
-/
namespace Deb822Verif.Rel

/-- the text is `digits ++ ':' :: rest` (digits = its longest prefix of ASCII digits) and the value of the
    digits is at least 2^32. (An empty digit prefix has value 0, so `:1` is not big.) -/
def bigEpochText (t : Str) : Bool :=
  match t.dropWhile isAsciiDigit with
  | ':' :: _ => decide (4294967296 ≤ digitsVal (t.takeWhile isAsciiDigit))
  | _ => false

/-- the relation has a VERSION node with a CONSTRAINT child whose text is not one of the five operators -/
def badOp (r : RNode) : Bool :=
  match firstChildNode .VERSION r with
  | none => false
  | some vc =>
    match firstChildNode .CONSTRAINT vc with
    | none => false
    | some c => (VC.parse c.text).isNone

/-- the relation has a VERSION node whose version text starts with an epoch that does not fit a `u32` -/
def bigEpoch (r : RNode) : Bool :=
  match firstChildNode .VERSION r with
  | none => false
  | some vc => bigEpochText (versionText vc)

/-- BAD: `version()` panics on this relation of a strict-accepted text (`Props/C12Strict.lean`) -/
def bad (r : RNode) : Bool := badOp r || bigEpoch r

/-- some alternative of some entry is BAD -/
def anyBad (root : RNode) : Bool := (entries root).any fun e => (relations e).any bad

end Deb822Verif.Rel
