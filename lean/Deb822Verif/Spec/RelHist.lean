import Deb822Verif.Model.RelEdit
/-!
  Histories of editing operations on a relationship field (property C11): the operations of
  Model/RelEdit.lean as one type, applied one after the other. Relations and entries are addressed
  the way the API does: by live handle (positions `p`, `q`) or by index (`i`, `j`).
-/
namespace Deb822Verif.Rel.Edit
open Deb822Verif Rel Node Build

inductive Op
  | setArchqual (p q : Nat) (aq : Str)
  | setVersion (p q : Nat) (vc : Option (VC × Version))
  | dropConstraint (p q : Nat)
  | setArchitectures (p q : Nat) (as : List Str)
  | addProfile (p q : Nat) (g : List BuildProfile)
  /-- `Entry::push(rel)` through the handle at `p` -/
  | entryPush (p : Nat) (rel : RNode)
  /-- `Entry::replace(j, rel)` through the handle at `p` -/
  | entryReplace (p j : Nat) (rel : RNode)
  /-- `Relation::remove()` through the handle at `(p, q)` -/
  | removeRelationAt (p q : Nat)
  /-- `get_entry(i).remove_relation(j)` -/
  | removeRelation (i j : Nat)
  | insert (i : Nat) (entry : RNode)
  | push (entry : RNode)
  | replace (i : Nat) (entry : RNode)
  | removeEntry (i : Nat)
  /-- `Entry::remove()` through the handle at `p` -/
  | removeEntryAt (p : Nat)

/-- one operation; `.panic` = the call panics -/
def step (f : Field) : Op → Outcome Field
  | .setArchqual p q aq => .ok (f.relEdit p q (setArchqual · aq))
  | .setVersion p q vc => .ok (f.relEdit p q (setVersion · vc))
  | .dropConstraint p q => .ok (f.relEdit p q fun r => (dropConstraint r).1)
  | .setArchitectures p q as => .ok (f.relEdit p q (setArchitectures · as))
  | .addProfile p q g => .ok (f.relEdit p q (addProfile · g))
  | .entryPush p rel => .ok (f.entryPushAt p rel)
  | .entryReplace p j rel => f.entryReplaceAt p j rel
  | .removeRelationAt p q => f.removeRelationAt p q
  | .removeRelation i j => f.removeRelation i j
  | .insert i entry => .ok (f.insert i entry)
  | .push entry => .ok (f.push entry)
  | .replace i entry => f.replace i entry
  | .removeEntry i => f.removeEntry i
  | .removeEntryAt p => f.removeEntryAt p

/-- a history: the operations one after the other, stopping at the first panic -/
def run (f : Field) : List Op → Outcome Field
  | [] => .ok f
  | op :: ops => (step f op).bind fun f' => run f' ops

end Deb822Verif.Rel.Edit
