//! C18: typed field values round-trip through their text form.
//!
//! ops `codec.<Type>.parse <text>` -> canonical rendering of the parsed value | `err`
//!     `codec.<Type>.print <fields…>` -> text (what the real `Display`/`to_string`/`to_field` prints)
//!
//! The worker evaluates the property's oracle on the real code:
//!   * `from_str(&v.to_string()) == Ok(v)` and `from_str(s)?.to_string() == s` for `s = v.to_string()`,
//!     for every value inside the property's domain (enumerations: all variants; records: `canon_*`);
//!   * a keyword type never accepts a text that is not the printed keyword of the variant returned
//!     (a lower-casing `from_str` is tolerated only when the translator's table says the type
//!     lower-cases its input);
//!   * every (type, variant, keyword) row of the translator's table (harness/gen/enums.json) agrees
//!     with the real `to_string` / `from_str`.
//! The record clauses are evaluated on the property's domain, given by the `canon_*` predicates below:
//! each is the transcription of the `Canon…` hypothesis of the corresponding Lean theorem.
use crate::util::*;
use crate::Resp;
use apt_sources::signature::Signature;
use apt_sources::{RepositoryType, YesNoForce};
use deb822_lossless::{FromDeb822Paragraph, ToDeb822Paragraph};
use debian_control::changes::File;
use debian_control::fields::{
    Md5Checksum, MultiArch, PackageListEntry, Priority, Sha1Checksum, Sha256Checksum, Sha512Checksum, Urgency,
};
use debian_control::relations::{BuildProfile, VersionConstraint};
use debian_control::vcs::{ParsedVcs, Vcs};
use debian_copyright::License;
use dep3::{AppliedUpstream, Forwarded, Origin, OriginCategory};
use std::str::FromStr;
use std::sync::OnceLock;

// ------------------------------------------------------------------ translator table (JSON)

const ENUMS_JSON: &str = include_str!("../gen/enums.json");

#[derive(Debug, Clone)]
pub(crate) enum J {
    Null,
    Bool(bool),
    Num(#[allow(unused)] f64),
    Str(String),
    Arr(Vec<J>),
    Obj(Vec<(String, J)>),
}

struct JP<'a> {
    b: &'a [u8],
    i: usize,
}
impl<'a> JP<'a> {
    fn ws(&mut self) {
        while self.i < self.b.len() && (self.b[self.i] as char).is_ascii_whitespace() {
            self.i += 1;
        }
    }
    fn val(&mut self) -> Result<J, String> {
        self.ws();
        match self.b.get(self.i) {
            Some(b'{') => {
                self.i += 1;
                let mut o = vec![];
                loop {
                    self.ws();
                    if self.b.get(self.i) == Some(&b'}') {
                        self.i += 1;
                        break;
                    }
                    let k = match self.val()? {
                        J::Str(s) => s,
                        _ => return Err("object key".into()),
                    };
                    self.ws();
                    if self.b.get(self.i) != Some(&b':') {
                        return Err("expected :".into());
                    }
                    self.i += 1;
                    let v = self.val()?;
                    o.push((k, v));
                    self.ws();
                    if self.b.get(self.i) == Some(&b',') {
                        self.i += 1;
                    }
                }
                Ok(J::Obj(o))
            }
            Some(b'[') => {
                self.i += 1;
                let mut a = vec![];
                loop {
                    self.ws();
                    if self.b.get(self.i) == Some(&b']') {
                        self.i += 1;
                        break;
                    }
                    a.push(self.val()?);
                    self.ws();
                    if self.b.get(self.i) == Some(&b',') {
                        self.i += 1;
                    }
                }
                Ok(J::Arr(a))
            }
            Some(b'"') => {
                self.i += 1;
                let mut units: Vec<u16> = vec![];
                loop {
                    let c = *self.b.get(self.i).ok_or("eof in string")?;
                    self.i += 1;
                    match c {
                        b'"' => break,
                        b'\\' => {
                            let e = *self.b.get(self.i).ok_or("eof in escape")?;
                            self.i += 1;
                            let ch = match e {
                                b'n' => '\n',
                                b't' => '\t',
                                b'r' => '\r',
                                b'b' => '\u{8}',
                                b'f' => '\u{c}',
                                b'/' => '/',
                                b'\\' => '\\',
                                b'"' => '"',
                                b'u' => {
                                    let h = std::str::from_utf8(&self.b[self.i..self.i + 4]).map_err(|e| e.to_string())?;
                                    self.i += 4;
                                    units.push(u16::from_str_radix(h, 16).map_err(|e| e.to_string())?);
                                    continue;
                                }
                                _ => return Err("bad escape".into()),
                            };
                            let mut buf = [0u16; 2];
                            units.extend_from_slice(ch.encode_utf16(&mut buf));
                        }
                        _ => {
                            // ensure_ascii output: plain ASCII only
                            units.push(c as u16);
                        }
                    }
                }
                String::from_utf16(&units).map(J::Str).map_err(|e| e.to_string())
            }
            Some(b'n') => {
                self.i += 4;
                Ok(J::Null)
            }
            Some(b't') => {
                self.i += 4;
                Ok(J::Bool(true))
            }
            Some(b'f') => {
                self.i += 5;
                Ok(J::Bool(false))
            }
            Some(_) => {
                let s = self.i;
                while self.i < self.b.len() && b"+-0123456789.eE".contains(&self.b[self.i]) {
                    self.i += 1;
                }
                std::str::from_utf8(&self.b[s..self.i]).unwrap().parse().map(J::Num).map_err(|_| "number".to_string())
            }
            None => Err("eof".into()),
        }
    }
}
pub(crate) fn parse_json(text: &str) -> Result<J, String> {
    JP { b: text.as_bytes(), i: 0 }.val()
}

impl J {
    pub(crate) fn boolean(&self) -> bool {
        matches!(self, J::Bool(true))
    }
    pub(crate) fn get(&self, k: &str) -> &J {
        if let J::Obj(o) = self {
            for (kk, v) in o {
                if kk == k {
                    return v;
                }
            }
        }
        &J::Null
    }
    pub(crate) fn str(&self) -> Option<String> {
        if let J::Str(s) = self {
            Some(s.clone())
        } else {
            None
        }
    }
    pub(crate) fn arr(&self) -> &[J] {
        if let J::Arr(a) = self {
            a
        } else {
            &[]
        }
    }
}

pub struct Table {
    pub name: String,
    pub variants: Vec<String>,
    pub print: Vec<(String, String)>,
    pub parse: Vec<(String, String)>,
    pub norm: String,
    pub catch_all: String,
}

fn tables() -> &'static Vec<Table> {
    static T: OnceLock<Vec<Table>> = OnceLock::new();
    T.get_or_init(|| {
        let j = JP { b: ENUMS_JSON.as_bytes(), i: 0 }.val().expect("harness/gen/enums.json");
        let mut out = vec![];
        for key in ["enums", "hybrids"] {
            for e in j.get(key).arr() {
                out.push(Table {
                    name: e.get("name").str().unwrap(),
                    variants: e.get("variants").arr().iter().map(|v| v.str().unwrap()).collect(),
                    print: e.get("print").arr().iter().map(|r| (r.get("variant").str().unwrap(), r.get("keyword").str().unwrap())).collect(),
                    parse: e.get("parse").arr().iter().map(|r| (r.get("keyword").str().unwrap(), r.get("variant").str().unwrap())).collect(),
                    norm: e.get("norm").str().unwrap(),
                    catch_all: e.get("catch_all").str().unwrap(),
                });
            }
        }
        out
    })
}

fn table(name: &str) -> Option<&'static Table> {
    tables().iter().find(|t| t.name == name)
}

// ------------------------------------------------------------------ the real keyword types

struct RealEnum {
    name: &'static str,
    /// (Debug name, `to_string()`, second printing route where one exists)
    variants: Vec<(String, String, String)>,
    parse: fn(&str) -> Option<String>,
}

macro_rules! real_enum {
    ($name:literal, $ty:ty, [$($v:expr),* $(,)?], $print:expr, $alt:expr) => {
        RealEnum {
            name: $name,
            variants: vec![$( (format!("{:?}", $v), ($print)(&$v), ($alt)(&$v)) ),*],
            parse: |s| <$ty as FromStr>::from_str(s).ok().map(|v| format!("{:?}", v)),
        }
    };
}

// compile-time exhaustiveness: a new variant in /repo stops the harness from building
#[allow(unused)]
fn _exhaustive(a: Priority, b: MultiArch, c: Urgency, d: VersionConstraint, e: OriginCategory, f: RepositoryType, g: YesNoForce, h: Forwarded) {
    match a {
        Priority::Required | Priority::Important | Priority::Standard | Priority::Optional | Priority::Extra => {}
    }
    match b {
        MultiArch::Same | MultiArch::Foreign | MultiArch::No | MultiArch::Allowed => {}
    }
    match c {
        Urgency::Low | Urgency::Medium | Urgency::High | Urgency::Emergency | Urgency::Critical => {}
    }
    match d {
        VersionConstraint::LessThan
        | VersionConstraint::LessThanEqual
        | VersionConstraint::Equal
        | VersionConstraint::GreaterThan
        | VersionConstraint::GreaterThanEqual => {}
    }
    match e {
        OriginCategory::Backport | OriginCategory::Vendor | OriginCategory::Upstream | OriginCategory::Other => {}
    }
    match f {
        RepositoryType::Binary | RepositoryType::Source => {}
    }
    match g {
        YesNoForce::Yes | YesNoForce::No | YesNoForce::Force => {}
    }
    match h {
        Forwarded::No | Forwarded::NotNeeded | Forwarded::Yes(_) => {}
    }
}

fn real_enums() -> &'static Vec<RealEnum> {
    static T: OnceLock<Vec<RealEnum>> = OnceLock::new();
    T.get_or_init(|| {
        vec![
            real_enum!(
                "Priority",
                Priority,
                [Priority::Required, Priority::Important, Priority::Standard, Priority::Optional, Priority::Extra],
                |v: &Priority| v.to_string(),
                |v: &Priority| format!("{}", v)
            ),
            real_enum!(
                "MultiArch",
                MultiArch,
                [MultiArch::Same, MultiArch::Foreign, MultiArch::No, MultiArch::Allowed],
                |v: &MultiArch| v.to_string(),
                |v: &MultiArch| format!("{}", v)
            ),
            real_enum!(
                "Urgency",
                Urgency,
                [Urgency::Low, Urgency::Medium, Urgency::High, Urgency::Emergency, Urgency::Critical],
                |v: &Urgency| v.to_string(),
                |v: &Urgency| format!("{}", v)
            ),
            real_enum!(
                "VersionConstraint",
                VersionConstraint,
                [
                    VersionConstraint::LessThan,
                    VersionConstraint::LessThanEqual,
                    VersionConstraint::Equal,
                    VersionConstraint::GreaterThan,
                    VersionConstraint::GreaterThanEqual
                ],
                |v: &VersionConstraint| v.to_string(),
                |v: &VersionConstraint| format!("{}", v)
            ),
            real_enum!(
                "OriginCategory",
                OriginCategory,
                [OriginCategory::Backport, OriginCategory::Vendor, OriginCategory::Upstream, OriginCategory::Other],
                |v: &OriginCategory| v.to_string(),
                |v: &OriginCategory| format!("{}", v)
            ),
            real_enum!(
                "RepositoryType",
                RepositoryType,
                [RepositoryType::Binary, RepositoryType::Source],
                |v: &RepositoryType| v.to_string(),
                |v: &RepositoryType| String::from(v)
            ),
            real_enum!(
                "YesNoForce",
                YesNoForce,
                [YesNoForce::Yes, YesNoForce::No, YesNoForce::Force],
                |v: &YesNoForce| v.to_string(),
                |v: &YesNoForce| String::from(v)
            ),
        ]
    })
}

fn real_enum(name: &str) -> Option<&'static RealEnum> {
    real_enums().iter().find(|e| e.name == name)
}

fn enum_parse(ty: &RealEnum, text: &str) -> Resp {
    let r = (ty.parse)(text);
    let obs = match &r {
        Some(v) => format!("ok {}", v),
        None => "err".to_string(),
    };
    let mut fail = None;
    let tab = table(ty.name);
    if let Some(v) = &r {
        match ty.variants.iter().find(|x| &x.0 == v) {
            None => fail = Some(format!("from_str returned a variant the harness does not know: {}", v)),
            Some((_, printed, _)) => {
                // rejection clause: only the printed keyword of the returned variant may be accepted
                let lowers = tab.map(|t| t.norm != "exact").unwrap_or(false);
                if text != printed && !(lowers && &text.to_lowercase() == printed) {
                    fail = Some(format!(
                        "text outside the defined keyword set accepted: {:?} -> {} (prints {:?})",
                        text, v, printed
                    ));
                }
                if (ty.parse)(printed).as_ref() != Some(v) {
                    fail = Some(format!("from_str(to_string({})) != {}", v, v));
                }
                // text side (`canonTextEnum`): a printed keyword of the type that parses prints back to itself
                if ty.variants.iter().any(|x| x.1 == text) && printed != text {
                    fail = Some(format!("text side: keyword {:?} parses to {} which prints {:?}", text, v, printed));
                }
            }
        }
    }
    // the translator's table must predict the real result
    match tab {
        None => fail = fail.or(Some(format!("no translator table for {}", ty.name))),
        Some(t) => {
            let key = match t.norm.as_str() {
                "lowerUnicode" => text.to_lowercase(),
                "lowerAscii" => text.to_ascii_lowercase(),
                _ => text.to_string(),
            };
            let predicted = t.parse.iter().find(|(k, _)| *k == key).map(|(_, v)| v.clone());
            let predicted = match (&predicted, t.catch_all.as_str()) {
                (None, "reject") => None,
                (None, _) => Some("<catch-all>".to_string()),
                _ => predicted,
            };
            if predicted != r && fail.is_none() {
                fail = Some(format!("translator table predicts {:?}, real from_str gives {:?}", predicted, r));
            }
        }
    }
    Resp::with(obs, fail)
}

fn enum_print(ty: &RealEnum, variant: &str) -> Resp {
    let tab = table(ty.name);
    match ty.variants.iter().find(|x| x.0 == variant) {
        None => {
            let known = tab.map(|t| t.variants.iter().any(|v| v == variant)).unwrap_or(false);
            Resp::with(
                "bad-value".into(),
                if known { Some(format!("variant {} of the table is unknown to the harness", variant)) } else { None },
            )
        }
        Some((v, printed, alt)) => {
            let mut fail = None;
            if printed != alt {
                fail = Some(format!("two printing routes disagree: {:?} vs {:?}", printed, alt));
            }
            if (ty.parse)(printed).as_ref() != Some(v) {
                fail = Some(format!("from_str(to_string({})) = {:?}", v, (ty.parse)(printed)));
            }
            match tab.and_then(|t| t.print.iter().find(|(tv, _)| tv == v)) {
                Some((_, kw)) if kw == printed => {}
                other => {
                    fail = Some(format!("translator table row {:?} but real to_string gives {:?}", other, printed));
                }
            }
            Resp::with(es(printed), fail)
        }
    }
}

// ------------------------------------------------------------------ domain of the record clauses
//
// Each `canon_*` predicate is the Rust transcription of the `Canon…` hypothesis of the Lean
// round-trip theorem of that type (Props/C18.lean); every conjunct has a `C18_*_needs_*` witness
// there showing that the text format cannot represent the value otherwise. They describe the
// property's domain (which values have a text form of their own), nothing else.

/// Lean `Tok`: non-empty, free of Unicode whitespace
fn tok(s: &str) -> bool {
    !s.is_empty() && !s.chars().any(|c| c.is_whitespace())
}
fn nows(s: &str) -> bool {
    !s.chars().any(|c| c.is_whitespace())
}

/// debug aid only: `VERIF_C18_ALLVALUES=1 harness worker` evaluates the oracle on every value,
/// also outside the domain (re-confirms the `_needs_` witnesses on the real code)
fn dom(b: bool) -> bool {
    static T: OnceLock<bool> = OnceLock::new();
    b || *T.get_or_init(|| std::env::var("VERIF_C18_ALLVALUES").is_ok())
}

/// `CanonPkgEntry`: package/type/section tokens; keys free of white space and `=`; values free of
/// white space (the map itself is canonical by construction: `HashMap`)
fn canon_ple(e: &PackageListEntry) -> bool {
    tok(&e.package) && tok(&e.package_type) && tok(&e.section) && e.extra.iter().all(|(k, v)| nows(k) && !k.contains('=') && nows(v))
}
/// `branchOK`: the branch does not itself read as ` [subpath]` — regex `^\[[^\] ]+\]`
fn looks_bracketed(b: &str) -> bool {
    let mut it = b.chars();
    if it.next() != Some('[') {
        return false;
    }
    let mut n = 0;
    for c in it {
        if c == ']' {
            return n > 0;
        }
        if c == ' ' {
            return false;
        }
        n += 1;
    }
    false
}
/// `CanonVcs`: url token; branch token and `branchOK`; subpath token without `]`
fn canon_parsed_vcs(url: &str, branch: &Option<String>, subpath: &Option<String>) -> bool {
    tok(url)
        && branch.as_deref().map(|b| tok(b) && !looks_bracketed(b)).unwrap_or(true)
        && subpath.as_deref().map(|p| tok(p) && !p.contains(']')).unwrap_or(true)
}
/// `CanonVcsField`
fn canon_vcs_field(v: &Vcs) -> bool {
    match v {
        Vcs::Git { repo_url, branch, subpath } => canon_parsed_vcs(repo_url, branch, subpath),
        Vcs::Bzr { repo_url, subpath } => canon_parsed_vcs(repo_url, &None, subpath),
        Vcs::Hg { .. } | Vcs::Svn { .. } => true,
        Vcs::Cvs { root, .. } => !root.contains(' '),
    }
}
/// `CanonOrigin` (Origin and AppliedUpstream): free text must not start with `commit:`
fn canon_origin(is_other: bool, s: &str) -> bool {
    !(is_other && s.starts_with("commit:"))
}
/// `CanonForwarded`: the free text of `Yes` is not one of the keywords
fn canon_forwarded(f: &Forwarded) -> bool {
    !matches!(f, Forwarded::Yes(s) if s == "no" || s == "not-needed")
}
/// `CanonOriginField`: canonical origin; without a category the first `, `-piece of the printed
/// origin is not a category keyword
fn canon_origin_field(cat: &Option<OriginCategory>, o: &Origin) -> bool {
    let (is_other, s) = match o {
        Origin::Commit(s) => (false, s),
        Origin::Other(s) => (true, s),
    };
    let printed = o.to_string();
    let first = printed.splitn(2, ", ").next().unwrap_or("");
    canon_origin(is_other, s) && (cat.is_some() || OriginCategory::from_str(first).is_err())
}
/// `CanonSignature`: a key path is a single line (every key block is canonical)
fn canon_signature(s: &Signature) -> bool {
    match s {
        Signature::KeyBlock(_) => true,
        Signature::KeyPath(p) => !p.to_string_lossy().contains('\n'),
    }
}
/// `CanonBuildProfile`: an enabled profile name does not start with `!`
fn canon_build_profile(p: &BuildProfile) -> bool {
    !matches!(p, BuildProfile::Enabled(s) if s.starts_with('!'))
}
/// `CanonLicense`: a name is a single line; the name of a named licence is non-empty
fn canon_license(l: &License) -> bool {
    match l {
        License::Name(n) => !n.contains('\n'),
        License::Text(_) => true,
        License::Named(n, _) => !n.is_empty() && !n.contains('\n'),
    }
}
/// `CanonIdentity`
fn canon_identity(name: &str, email: &str) -> bool {
    name.trim() == name && !name.contains('<') && email.trim() == email
}

// ------------------------------------------------------------------ canonical TEXTS
//
// Each `canon_text_*` predicate is the Rust transcription of the `canonText…` predicate of
// Props/C18Text.lean. Text-side clause evaluated by the parse ops: a canonical text that parses prints
// back to itself (`C18_<T>_text`); by the print ops: the printed form of a canonical value is a
// canonical text (`C18_<T>_print_canontext`). BuildProfile, Origin, AppliedUpstream, Forwarded and
// License: every text is canonical.

fn text_side(t: &str, printed: &str, canon_text: bool) -> Option<String> {
    if canon_text && printed != t {
        Some(format!("text side: canonical text {:?} parses but prints back as {:?}", t, printed))
    } else {
        None
    }
}
fn print_side(printed: &str, canon_value: bool, canon_text: bool) -> Option<String> {
    if canon_value && !canon_text {
        Some(format!("printed form {:?} of a canonical value is not a canonical text", printed))
    } else {
        None
    }
}
/// `canonTextUsize`: ASCII digits only, no leading zero except "0"
fn canon_text_usize(s: &str) -> bool {
    !s.is_empty() && s.chars().all(|c| c.is_ascii_digit()) && (s == "0" || !s.starts_with('0'))
}
fn priority_keywords() -> Vec<String> {
    [Priority::Required, Priority::Important, Priority::Standard, Priority::Optional, Priority::Extra].iter().map(|p| p.to_string()).collect()
}
/// `canonTextChecksum`
fn canon_text_checksum(t: &str) -> bool {
    let ps: Vec<&str> = t.split(' ').collect();
    matches!(ps.as_slice(), [h, n, f] if tok(h) && canon_text_usize(n) && tok(f))
}
/// `canonTextChangesFile`
fn canon_text_file(t: &str) -> bool {
    let ps: Vec<&str> = t.split(' ').collect();
    matches!(ps.as_slice(), [m, n, sec, pr, f]
        if tok(m) && canon_text_usize(n) && tok(sec) && priority_keywords().iter().any(|k| k == pr) && tok(f))
}
/// `canonTextPkgEntry`: extras are `key=value` tokens with strictly increasing keys (byte order =
/// code-point order)
fn canon_text_ple(t: &str) -> bool {
    let ps: Vec<&str> = t.split(' ').collect();
    if ps.len() < 4 {
        return false;
    }
    if !(tok(ps[0]) && tok(ps[1]) && tok(ps[2]) && priority_keywords().iter().any(|k| k == ps[3])) {
        return false;
    }
    let rest = &ps[4..];
    if !rest.iter().all(|p| tok(p) && p.contains('=')) {
        return false;
    }
    let keys: Vec<&str> = rest.iter().map(|p| p.split_once('=').unwrap().0).collect();
    keys.windows(2).all(|w| w[0] < w[1])
}
/// `subOK`: `[p]`, p a token without `]`
fn sub_ok(x: &str) -> bool {
    x.strip_prefix('[').and_then(|r| r.strip_suffix(']')).map(|p| tok(p) && !p.contains(']')).unwrap_or(false)
}
/// `branchOKB`
fn branch_ok_b(b: &str) -> bool {
    match b.strip_prefix('[') {
        Some(t) => t.starts_with(']') || !t.contains(']'),
        None => true,
    }
}
/// `canonTextVcs`
fn canon_text_vcs(t: &str) -> bool {
    let ps: Vec<&str> = t.split(' ').collect();
    match ps.as_slice() {
        [u] => tok(u),
        [u, x] => tok(u) && sub_ok(x),
        [u, m, b] => tok(u) && *m == "-b" && tok(b) && branch_ok_b(b),
        [u, m, b, x] => tok(u) && *m == "-b" && tok(b) && branch_ok_b(b) && sub_ok(x),
        _ => false,
    }
}
/// `canonTextVcsNoBranch`
fn canon_text_vcs_nobranch(t: &str) -> bool {
    let ps: Vec<&str> = t.split(' ').collect();
    match ps.as_slice() {
        [u] => tok(u),
        [u, x] => tok(u) && sub_ok(x),
        _ => false,
    }
}
/// `canonTextVcsField`
fn canon_text_vcs_field(name: &str, value: &str) -> bool {
    match name {
        "Git" => canon_text_vcs(value),
        "Bzr" => canon_text_vcs_nobranch(value),
        "Hg" | "Svn" | "Cvs" => true,
        _ => false,
    }
}
/// `canonTextIdentity`: `name <email>`, one space before the first `<`, name and email trimmed
fn canon_text_identity(t: &str) -> bool {
    match t.split_once('<') {
        Some((a, b)) => match (b.strip_suffix('>'), a.strip_suffix(' ')) {
            (Some(e), Some(n)) => n.trim() == n && e.trim() == e,
            _ => false,
        },
        None => false,
    }
}
/// `canonTextOriginField`: not a bare category keyword
fn canon_text_origin_field(t: &str) -> bool {
    !["backport", "vendor", "upstream", "other"].contains(&t)
}
/// `canonTextSignature`: a single line, or a multi-line text beginning with a line feed
fn canon_text_signature(t: &str) -> bool {
    !t.contains('\n') || t.starts_with('\n')
}

// ------------------------------------------------------------------ records

macro_rules! checksum_ops {
    ($ty:ident, $field:ident) => {
        mod $field {
            use super::*;
            pub fn show(c: &$ty) -> String {
                format!("ok {} {} {}", es(&c.$field), c.size, es(&c.filename))
            }
            pub fn oracle(c: &$ty) -> Option<String> {
                // CanonChecksum
                let canon = tok(&c.$field) && tok(&c.filename);
                if !dom(canon) {
                    return None;
                }
                let t = c.to_string();
                match $ty::from_str(&t) {
                    Ok(c2) if &c2 == c => {
                        if c2.to_string() != t {
                            Some(format!("from_str({:?}).to_string() = {:?}", t, c2.to_string()))
                        } else {
                            print_side(&t, canon, canon_text_checksum(&t))
                        }
                    }
                    other => Some(format!("from_str(to_string(v)) = {:?} for v = {:?}", other.ok(), c)),
                }
            }
            pub fn parse(t: &str) -> Resp {
                match $ty::from_str(t) {
                    Ok(c) => Resp::with(show(&c), oracle(&c).or_else(|| text_side(t, &c.to_string(), canon_text_checksum(t)))),
                    Err(_) => Resp::ok("err".into()),
                }
            }
            pub fn print(h: &str, n: &str, f: &str) -> Resp {
                let size: usize = match n.parse::<u128>().ok().and_then(|v| usize::try_from(v).ok()) {
                    Some(v) => v,
                    None => return Resp::ok("bad-value".into()),
                };
                let c = $ty { $field: h.to_string(), size, filename: f.to_string() };
                Resp::with(es(&c.to_string()), oracle(&c))
            }
        }
    };
}
checksum_ops!(Md5Checksum, md5sum);
checksum_ops!(Sha1Checksum, sha1);
checksum_ops!(Sha256Checksum, sha256);
checksum_ops!(Sha512Checksum, sha512);

fn priority_by_name(n: &str) -> Option<Priority> {
    [Priority::Required, Priority::Important, Priority::Standard, Priority::Optional, Priority::Extra]
        .into_iter()
        .find(|p| format!("{:?}", p) == n)
}

fn file_show(c: &File) -> String {
    format!("ok {} {} {} {:?} {}", es(&c.md5sum), c.size, es(&c.section), c.priority, es(&c.filename))
}
fn file_oracle(c: &File) -> Option<String> {
    // CanonChangesFile
    let canon = tok(&c.md5sum) && tok(&c.section) && tok(&c.filename);
    if !dom(canon) {
        return None;
    }
    let t = c.to_string();
    match File::from_str(&t) {
        Ok(c2) if &c2 == c => {
            if c2.to_string() != t {
                Some(format!("from_str({:?}).to_string() = {:?}", t, c2.to_string()))
            } else {
                print_side(&t, canon, canon_text_file(&t))
            }
        }
        other => Some(format!("from_str(to_string(v)) = {:?} for v = {:?}", other.ok(), c)),
    }
}

fn ple_sorted(e: &PackageListEntry) -> Vec<(String, String)> {
    let mut kv: Vec<(String, String)> = e.extra.iter().map(|(k, v)| (k.clone(), v.clone())).collect();
    kv.sort();
    kv
}
fn ple_show(e: &PackageListEntry) -> String {
    let kv = ple_sorted(e);
    format!(
        "ok {} {} {} {:?} [{}] [{}]",
        es(&e.package),
        es(&e.package_type),
        es(&e.section),
        e.priority,
        elist(&kv.iter().map(|x| x.0.clone()).collect::<Vec<_>>()),
        elist(&kv.iter().map(|x| x.1.clone()).collect::<Vec<_>>())
    )
}
fn ple_oracle(e: &PackageListEntry) -> Option<String> {
    let canon = canon_ple(e);
    if !dom(canon) {
        return None;
    }
    let t = e.to_string();
    match PackageListEntry::from_str(&t) {
        Ok(e2) if &e2 == e => {
            let t2 = e2.to_string();
            if t2 != t {
                Some(format!("from_str({:?}).to_string() = {:?}", t, t2))
            } else {
                print_side(&t, canon, canon_text_ple(&t))
            }
        }
        other => Some(format!("from_str(to_string(v)) = {:?} for v = {:?}", other.ok(), e)),
    }
}

fn bp_show(p: &BuildProfile) -> String {
    match p {
        BuildProfile::Enabled(s) => format!("ok Enabled {}", es(s)),
        BuildProfile::Disabled(s) => format!("ok Disabled {}", es(s)),
    }
}
fn bp_oracle(p: &BuildProfile) -> Option<String> {
    if !dom(canon_build_profile(p)) {
        return None;
    }
    let t = p.to_string();
    match BuildProfile::from_str(&t) {
        Ok(p2) if &p2 == p && p2.to_string() == t => None,
        other => Some(format!("from_str({:?}) = {:?} for v = {:?}", t, other, p)),
    }
}

fn pv_show(v: &ParsedVcs) -> String {
    format!("ok {} {} {}", es(&v.repo_url), eopt(v.branch.as_deref()), eopt(v.subpath.as_deref()))
}
fn pv_oracle(v: &ParsedVcs) -> Option<String> {
    let canon = canon_parsed_vcs(&v.repo_url, &v.branch, &v.subpath);
    if !dom(canon) {
        return None;
    }
    let t = v.to_string();
    match ParsedVcs::from_str(&t) {
        Ok(v2) if &v2 == v && v2.to_string() == t => print_side(&t, canon, canon_text_vcs(&t)),
        other => Some(format!("from_str({:?}) = {:?} for v = {:?}", t, other, v)),
    }
}

fn vcs_show(v: &Vcs) -> String {
    match v {
        Vcs::Git { repo_url, branch, subpath } => {
            format!("Git {} {} {}", es(repo_url), eopt(branch.as_deref()), eopt(subpath.as_deref()))
        }
        Vcs::Bzr { repo_url, subpath } => format!("Bzr {} {}", es(repo_url), eopt(subpath.as_deref())),
        Vcs::Hg { repo_url } => format!("Hg {}", es(repo_url)),
        Vcs::Svn { url } => format!("Svn {}", es(url)),
        Vcs::Cvs { root, module } => format!("Cvs {} {}", es(root), eopt(module.as_deref())),
    }
}
fn vcs_oracle(v: &Vcs) -> Option<String> {
    let canon = canon_vcs_field(v);
    if !dom(canon) {
        return None;
    }
    let (name, value) = v.to_field();
    match Vcs::from_field(name, &value) {
        Ok(v2) if vcs_show(&v2) == vcs_show(v) => {
            let (n2, val2) = v2.to_field();
            if n2 != name || val2 != value {
                Some(format!("to_field(from_field({:?},{:?})) = ({:?},{:?})", name, value, n2, val2))
            } else {
                print_side(&value, canon, canon_text_vcs_field(name, &value))
            }
        }
        other => Some(format!("from_field({:?},{:?}) = {:?} for v = {:?}", name, value, other, v)),
    }
}

fn dopt(f: &str) -> Option<Option<String>> {
    if f == "none" {
        Some(None)
    } else {
        ds(f).map(Some)
    }
}

fn origin_show(o: &Origin) -> String {
    match o {
        Origin::Commit(s) => format!("Commit {}", es(s)),
        Origin::Other(s) => format!("Other {}", es(s)),
    }
}
fn origin_oracle(o: &Origin) -> Option<String> {
    let (is_other, s) = match o {
        Origin::Commit(s) => (false, s),
        Origin::Other(s) => (true, s),
    };
    if !dom(canon_origin(is_other, s)) {
        return None;
    }
    let t = o.to_string();
    match Origin::from_str(&t) {
        Ok(o2) if &o2 == o && o2.to_string() == t => None,
        other => Some(format!("from_str({:?}) = {:?} for v = {:?}", t, other, o)),
    }
}
fn applied_show(o: &AppliedUpstream) -> String {
    match o {
        AppliedUpstream::Commit(s) => format!("Commit {}", es(s)),
        AppliedUpstream::Other(s) => format!("Other {}", es(s)),
    }
}
fn applied_oracle(o: &AppliedUpstream) -> Option<String> {
    let (is_other, s) = match o {
        AppliedUpstream::Commit(s) => (false, s),
        AppliedUpstream::Other(s) => (true, s),
    };
    if !dom(canon_origin(is_other, s)) {
        return None;
    }
    let t = o.to_string();
    match AppliedUpstream::from_str(&t) {
        Ok(o2) if &o2 == o && o2.to_string() == t => None,
        other => Some(format!("from_str({:?}) = {:?} for v = {:?}", t, other, o)),
    }
}

type LossyPara = deb822_lossless::lossy::Paragraph;

/// `dep3::fields::parse_origin` is crate-private; reach it through the derived field converter of
/// `dep3::lossy::PatchHeader` on a paragraph built in memory (no text layer in between)
fn real_parse_origin(s: &str) -> Result<(Option<OriginCategory>, Origin), String> {
    let para = LossyPara { fields: vec![deb822_lossless::lossy::Field { name: "Origin".into(), value: s.to_string() }] };
    let h: dep3::lossy::PatchHeader = FromDeb822Paragraph::from_paragraph(&para)?;
    h.origin.ok_or_else(|| "no origin".to_string())
}
fn real_format_origin(cat: Option<OriginCategory>, o: Origin) -> Option<String> {
    let h = dep3::lossy::PatchHeader {
        origin: Some((cat, o)),
        forwarded: None,
        author: None,
        reviewed_by: None,
        bug_debian: None,
        last_update: None,
        applied_upstream: None,
        bug: None,
        description: None,
    };
    let p: LossyPara = h.to_paragraph();
    p.get("Origin").map(|s| s.to_string())
}
fn origin_field_show(r: &(Option<OriginCategory>, Origin)) -> String {
    format!(
        "ok {} {}",
        match r.0 {
            Some(c) => format!("{:?}", c),
            None => "none".to_string(),
        },
        origin_show(&r.1)
    )
}
fn origin_field_oracle(r: &(Option<OriginCategory>, Origin)) -> Option<String> {
    let canon = canon_origin_field(&r.0, &r.1);
    if !dom(canon) {
        return None;
    }
    let t = match real_format_origin(r.0, r.1.clone()) {
        Some(t) => t,
        None => return Some("format_origin: no Origin field written".into()),
    };
    match real_parse_origin(&t) {
        Ok(r2) if &r2 == r => {
            if real_format_origin(r2.0, r2.1.clone()).as_deref() != Some(t.as_str()) {
                Some(format!("format_origin(parse_origin({:?})) differs", t))
            } else {
                print_side(&t, canon, canon_text_origin_field(&t))
            }
        }
        other => Some(format!("parse_origin({:?}) = {:?} for v = {:?}", t, other, r)),
    }
}

fn forwarded_show(f: &Forwarded) -> String {
    match f {
        Forwarded::Yes(s) => format!("ok Yes {}", es(s)),
        other => format!("ok {:?}", other),
    }
}
fn forwarded_oracle(f: &Forwarded) -> Option<String> {
    if !dom(canon_forwarded(f)) {
        return None;
    }
    let t = f.to_string();
    match Forwarded::from_str(&t) {
        Ok(f2) if &f2 == f && f2.to_string() == t => None,
        other => Some(format!("from_str({:?}) = {:?} for v = {:?}", t, other, f)),
    }
}

/// "keywords outside the defined set are rejected with an error rather than mapped to a default",
/// at record level: a changes-file / package-list line that was ACCEPTED has one of the five
/// priority keywords as its fourth white-space token (C18_changesfile_rejects_priority,
/// C18_pkgentry_rejects_priority)
fn priority_rejected(text: &str) -> Option<String> {
    match text.split_whitespace().nth(3) {
        Some(p) if !["required", "important", "standard", "optional", "extra"].contains(&p) => {
            Some(format!("accepted although the priority token {:?} is not a priority keyword", p))
        }
        _ => None,
    }
}

fn license_show(l: &License) -> String {
    match l {
        License::Name(n) => format!("ok Name {}", es(n)),
        License::Text(t) => format!("ok Text {}", es(t)),
        License::Named(n, t) => format!("ok Named {} {}", es(n), es(t)),
    }
}
fn license_oracle(l: &License) -> Option<String> {
    if !dom(canon_license(l)) {
        return None;
    }
    let t = l.to_string();
    match License::from_str(&t) {
        Ok(l2) if &l2 == l && l2.to_string() == t => None,
        other => Some(format!("from_str({:?}) = {:?} for v = {:?}", t, other, l)),
    }
}

fn signature_show(s: &Signature) -> String {
    match s {
        Signature::KeyBlock(t) => format!("ok KeyBlock {}", es(t)),
        Signature::KeyPath(p) => format!("ok KeyPath {}", es(&p.to_string_lossy())),
    }
}
fn signature_oracle(s: &Signature) -> Option<String> {
    let canon = canon_signature(s);
    if !dom(canon) {
        return None;
    }
    let t = s.to_string();
    match Signature::from_str(&t) {
        Ok(s2) if &s2 == s && s2.to_string() == t => print_side(&t, canon, canon_text_signature(&t)),
        other => Some(format!("from_str({:?}) = {:?} for v = {:?}", t, other.ok(), s)),
    }
}

// ------------------------------------------------------------------ dispatch

fn handle_parse(ty: &str, a: &[&str]) -> Option<Resp> {
    if let Some(e) = real_enum(ty) {
        return match a {
            [t] => Some(enum_parse(e, &ds(t)?)),
            _ => None,
        };
    }
    match (ty, a) {
        ("Md5Checksum", [t]) => Some(md5sum::parse(&ds(t)?)),
        ("Sha1Checksum", [t]) => Some(sha1::parse(&ds(t)?)),
        ("Sha256Checksum", [t]) => Some(sha256::parse(&ds(t)?)),
        ("Sha512Checksum", [t]) => Some(sha512::parse(&ds(t)?)),
        ("File", [t]) => Some(match File::from_str(&ds(t)?) {
            Ok(c) => Resp::with(
                file_show(&c),
                priority_rejected(&ds(t)?).or_else(|| file_oracle(&c)).or_else(|| text_side(&ds(t)?, &c.to_string(), canon_text_file(&ds(t)?))),
            ),
            Err(_) => Resp::ok("err".into()),
        }),
        ("PackageListEntry", [t]) => Some(match PackageListEntry::from_str(&ds(t)?) {
            Ok(e) => Resp::with(
                ple_show(&e),
                priority_rejected(&ds(t)?).or_else(|| ple_oracle(&e)).or_else(|| text_side(&ds(t)?, &e.to_string(), canon_text_ple(&ds(t)?))),
            ),
            Err(_) => Resp::ok("err".into()),
        }),
        ("BuildProfile", [t]) => Some(match BuildProfile::from_str(&ds(t)?) {
            Ok(p) => Resp::with(bp_show(&p), bp_oracle(&p).or_else(|| text_side(&ds(t)?, &p.to_string(), true))),
            Err(_) => Resp::ok("err".into()),
        }),
        ("ParsedVcs", [t]) => Some(match ParsedVcs::from_str(&ds(t)?) {
            Ok(v) => Resp::with(pv_show(&v), pv_oracle(&v).or_else(|| text_side(&ds(t)?, &v.to_string(), canon_text_vcs(&ds(t)?)))),
            Err(_) => Resp::ok("err".into()),
        }),
        ("Vcs", [n, t]) => Some(match Vcs::from_field(&ds(n)?, &ds(t)?) {
            Ok(v) => Resp::with(
                format!("ok {}", vcs_show(&v)),
                vcs_oracle(&v).or_else(|| {
                    let (n0, t0) = (ds(n)?, ds(t)?);
                    let (n2, t2) = v.to_field();
                    if canon_text_vcs_field(&n0, &t0) && (n2 != n0 || t2 != t0) {
                        Some(format!("text side: canonical field ({:?},{:?}) parses but prints back as ({:?},{:?})", n0, t0, n2, t2))
                    } else {
                        None
                    }
                }),
            ),
            Err(_) => Resp::ok("err".into()),
        }),
        ("Identity", [t]) => {
            let s = ds(t)?;
            Some(match debian_control::parse_identity(&s) {
                Ok((n, e)) => {
                    let mut fail = None;
                    if canon_identity(n, e) {
                        let t2 = format!("{} <{}>", n, e);
                        if debian_control::parse_identity(&t2) != Ok((n, e)) {
                            fail = Some(format!("parse_identity({:?}) != ({:?},{:?})", t2, n, e));
                        }
                    }
                    let fail = fail.or_else(|| text_side(&s, &format!("{} <{}>", n, e), canon_text_identity(&s)));
                    Resp::with(format!("ok {} {}", es(n), es(e)), fail)
                }
                Err(_) => Resp::ok("err".into()),
            })
        }
        ("Origin", [t]) => Some(match Origin::from_str(&ds(t)?) {
            Ok(o) => Resp::with(format!("ok {}", origin_show(&o)), origin_oracle(&o).or_else(|| text_side(&ds(t)?, &o.to_string(), true))),
            Err(_) => Resp::ok("err".into()),
        }),
        ("AppliedUpstream", [t]) => Some(match AppliedUpstream::from_str(&ds(t)?) {
            Ok(o) => Resp::with(format!("ok {}", applied_show(&o)), applied_oracle(&o).or_else(|| text_side(&ds(t)?, &o.to_string(), true))),
            Err(_) => Resp::ok("err".into()),
        }),
        ("OriginField", [t]) => Some(match real_parse_origin(&ds(t)?) {
            Ok(r) => Resp::with(
                origin_field_show(&r),
                origin_field_oracle(&r).or_else(|| {
                    let t0 = ds(t)?;
                    let printed = real_format_origin(r.0, r.1.clone()).unwrap_or_default();
                    text_side(&t0, &printed, canon_text_origin_field(&t0))
                }),
            ),
            Err(_) => Resp::ok("err".into()),
        }),
        ("Forwarded", [t]) => Some(match Forwarded::from_str(&ds(t)?) {
            Ok(f) => Resp::with(forwarded_show(&f), forwarded_oracle(&f).or_else(|| text_side(&ds(t)?, &f.to_string(), true))),
            Err(_) => Resp::ok("err".into()),
        }),
        ("License", [t]) => Some(match License::from_str(&ds(t)?) {
            Ok(l) => Resp::with(license_show(&l), license_oracle(&l).or_else(|| text_side(&ds(t)?, &l.to_string(), true))),
            Err(_) => Resp::ok("err".into()),
        }),
        ("Signature", [t]) => Some(match Signature::from_str(&ds(t)?) {
            Ok(s) => Resp::with(signature_show(&s), signature_oracle(&s).or_else(|| text_side(&ds(t)?, &s.to_string(), canon_text_signature(&ds(t)?)))),
            Err(_) => Resp::ok("err".into()),
        }),
        _ => None,
    }
}

fn dsize(n: &str) -> Option<usize> {
    n.parse::<u128>().ok().and_then(|v| usize::try_from(v).ok())
}

fn handle_print(ty: &str, a: &[&str]) -> Option<Resp> {
    if let Some(e) = real_enum(ty) {
        return match a {
            [v] => Some(enum_print(e, v)),
            _ => None,
        };
    }
    match (ty, a) {
        ("Md5Checksum", [h, n, f]) => Some(md5sum::print(&ds(h)?, n, &ds(f)?)),
        ("Sha1Checksum", [h, n, f]) => Some(sha1::print(&ds(h)?, n, &ds(f)?)),
        ("Sha256Checksum", [h, n, f]) => Some(sha256::print(&ds(h)?, n, &ds(f)?)),
        ("Sha512Checksum", [h, n, f]) => Some(sha512::print(&ds(h)?, n, &ds(f)?)),
        ("File", [m, n, sec, pr, f]) => {
            let (m, sec, f) = (ds(m)?, ds(sec)?, ds(f)?);
            match (dsize(n), priority_by_name(pr)) {
                (Some(size), Some(priority)) => {
                    let c = File { md5sum: m, size, section: sec, priority, filename: f };
                    Some(Resp::with(es(&c.to_string()), file_oracle(&c)))
                }
                _ => Some(Resp::ok("bad-value".into())),
            }
        }
        ("PackageListEntry", [p, t, sec, pr, ks, vs]) => {
            let (p, t, sec, ks, vs) = (ds(p)?, ds(t)?, ds(sec)?, dlist(ks)?, dlist(vs)?);
            if ks.len() != vs.len() {
                return None;
            }
            let priority = match priority_by_name(pr) {
                Some(p) => p,
                None => return Some(Resp::ok("bad-value".into())),
            };
            let mut e = PackageListEntry::new(&p, &t, &sec, priority);
            for (k, v) in ks.iter().zip(vs.iter()) {
                e.extra.insert(k.clone(), v.clone());
            }
            Some(Resp::with(es(&e.to_string()), ple_oracle(&e)))
        }
        ("BuildProfile", [k, x]) => {
            let x = ds(x)?;
            let p = match *k {
                "Enabled" => BuildProfile::Enabled(x),
                "Disabled" => BuildProfile::Disabled(x),
                _ => return None,
            };
            Some(Resp::with(es(&p.to_string()), bp_oracle(&p)))
        }
        ("ParsedVcs", [u, b, p]) => {
            let v = ParsedVcs { repo_url: ds(u)?, branch: dopt(b)?, subpath: dopt(p)? };
            Some(Resp::with(es(&v.to_string()), pv_oracle(&v)))
        }
        ("Vcs", args) => {
            let v = match args {
                ["Git", u, b, p] => Vcs::Git { repo_url: ds(u)?, branch: dopt(b)?, subpath: dopt(p)? },
                ["Bzr", u, p] => Vcs::Bzr { repo_url: ds(u)?, subpath: dopt(p)? },
                ["Hg", u] => Vcs::Hg { repo_url: ds(u)? },
                ["Svn", u] => Vcs::Svn { url: ds(u)? },
                ["Cvs", r, m] => Vcs::Cvs { root: ds(r)?, module: dopt(m)? },
                _ => return None,
            };
            let (n, val) = v.to_field();
            Some(Resp::with(format!("{} {}", es(n), es(&val)), vcs_oracle(&v)))
        }
        ("Identity", [n, e]) => {
            let (n, e) = (ds(n)?, ds(e)?);
            let t = format!("{} <{}>", n, e);
            let mut fail = None;
            if canon_identity(&n, &e) && debian_control::parse_identity(&t) != Ok((n.as_str(), e.as_str())) {
                fail = Some(format!("parse_identity({:?}) = {:?}", t, debian_control::parse_identity(&t)));
            }
            Some(Resp::with(es(&t), fail))
        }
        ("Origin", [k, x]) => {
            let x = ds(x)?;
            let o = match *k {
                "Commit" => Origin::Commit(x),
                "Other" => Origin::Other(x),
                _ => return None,
            };
            Some(Resp::with(es(&o.to_string()), origin_oracle(&o)))
        }
        ("AppliedUpstream", [k, x]) => {
            let x = ds(x)?;
            let o = match *k {
                "Commit" => AppliedUpstream::Commit(x),
                "Other" => AppliedUpstream::Other(x),
                _ => return None,
            };
            Some(Resp::with(es(&o.to_string()), applied_oracle(&o)))
        }
        ("OriginField", [c, k, x]) => {
            let x = ds(x)?;
            let o = match *k {
                "Commit" => Origin::Commit(x),
                "Other" => Origin::Other(x),
                _ => return None,
            };
            let cat = if *c == "none" {
                None
            } else {
                match [OriginCategory::Backport, OriginCategory::Vendor, OriginCategory::Upstream, OriginCategory::Other]
                    .into_iter()
                    .find(|v| format!("{:?}", v) == *c)
                {
                    Some(v) => Some(v),
                    None => return Some(Resp::ok("bad-value".into())),
                }
            };
            let r = (cat, o);
            match real_format_origin(r.0, r.1.clone()) {
                Some(t) => Some(Resp::with(es(&t), origin_field_oracle(&r))),
                None => Some(Resp::with("none".into(), Some("no Origin field written".into()))),
            }
        }
        ("Forwarded", ["Yes", x]) => {
            let f = Forwarded::Yes(ds(x)?);
            Some(Resp::with(es(&f.to_string()), forwarded_oracle(&f)))
        }
        ("Forwarded", [k]) => {
            let f = match *k {
                "No" => Forwarded::No,
                "NotNeeded" => Forwarded::NotNeeded,
                _ => return Some(Resp::ok("bad-value".into())),
            };
            let mut fail = forwarded_oracle(&f);
            let printed = f.to_string();
            match table("Forwarded").and_then(|t| t.print.iter().find(|(v, _)| v == k)) {
                Some((_, kw)) if *kw == printed => {}
                other => fail = Some(format!("translator table row {:?} but real to_string gives {:?}", other, printed)),
            }
            Some(Resp::with(es(&printed), fail))
        }
        ("License", ["Name", n]) => {
            let l = License::Name(ds(n)?);
            Some(Resp::with(es(&l.to_string()), license_oracle(&l)))
        }
        ("License", ["Text", t]) => {
            let l = License::Text(ds(t)?);
            Some(Resp::with(es(&l.to_string()), license_oracle(&l)))
        }
        ("License", ["Named", n, t]) => {
            let l = License::Named(ds(n)?, ds(t)?);
            Some(Resp::with(es(&l.to_string()), license_oracle(&l)))
        }
        ("Signature", ["KeyBlock", s]) => {
            let s = Signature::KeyBlock(ds(s)?);
            Some(Resp::with(es(&s.to_string()), signature_oracle(&s)))
        }
        ("Signature", ["KeyPath", s]) => {
            let s = Signature::KeyPath(ds(s)?.into());
            Some(Resp::with(es(&s.to_string()), signature_oracle(&s)))
        }
        _ => None,
    }
}

/// `sub=<subpath()> url=<to_branch_url(): some <text> | none | PANIC>`; `to_branch_url` unwraps the
/// branch of a Git location: the panic is reported as an observable (the model answers `PANIC` too),
/// not as an oracle failure — none of the 20 properties speaks about this second text form
fn branch_url_show(v: &Vcs) -> String {
    let u = match std::panic::catch_unwind(std::panic::AssertUnwindSafe(|| v.to_branch_url())) {
        Ok(Some(t)) => format!("some {}", es(&t)),
        Ok(None) => "none".to_string(),
        Err(_) => "PANIC".to_string(),
    };
    format!("sub={} url={}", eopt(v.subpath().as_deref()), u)
}

/// what can be judged: `subpath()` survives the field round trip of a canonical value; the URL is the
/// repository URL, for Git followed by `,branch=<branch>`
fn branch_url_oracle(v: &Vcs) -> Option<String> {
    if dom(canon_vcs_field(v)) {
        let (name, value) = v.to_field();
        match Vcs::from_field(name, &value) {
            Ok(v2) if v2.subpath() == v.subpath() => {}
            other => return Some(format!("subpath() changes through the field form: {:?}", other.map(|x| x.subpath()))),
        }
    }
    let got = std::panic::catch_unwind(std::panic::AssertUnwindSafe(|| v.to_branch_url())).ok()?;
    let want = match v {
        Vcs::Git { repo_url, branch: Some(b), .. } => Some(format!("{},branch={}", repo_url, b)),
        Vcs::Git { .. } => return None,
        Vcs::Bzr { repo_url, .. } | Vcs::Hg { repo_url } => Some(repo_url.clone()),
        Vcs::Svn { url } => Some(url.clone()),
        Vcs::Cvs { .. } => None,
    };
    if got != want {
        return Some(format!("to_branch_url() = {:?}, expected {:?}", got, want));
    }
    None
}

fn handle_branch_url(a: &[&str]) -> Option<Resp> {
    match a {
        ["v", rest @ ..] => {
            let v = match rest {
                ["Git", u, b, p] => Vcs::Git { repo_url: ds(u)?, branch: dopt(b)?, subpath: dopt(p)? },
                ["Bzr", u, p] => Vcs::Bzr { repo_url: ds(u)?, subpath: dopt(p)? },
                ["Hg", u] => Vcs::Hg { repo_url: ds(u)? },
                ["Svn", u] => Vcs::Svn { url: ds(u)? },
                ["Cvs", r, m] => Vcs::Cvs { root: ds(r)?, module: dopt(m)? },
                _ => return None,
            };
            Some(Resp::with(branch_url_show(&v), branch_url_oracle(&v)))
        }
        ["f", n, t] => Some(match Vcs::from_field(&ds(n)?, &ds(t)?) {
            Ok(v) => Resp::with(format!("ok {} {}", vcs_show(&v), branch_url_show(&v)), branch_url_oracle(&v)),
            Err(_) => Resp::ok("err".to_string()),
        }),
        _ => None,
    }
}

pub fn handle(op: &str, a: &[&str]) -> Option<Resp> {
    if op == "vcs.branchurl" {
        return handle_branch_url(a);
    }
    let parts: Vec<&str> = op.split('.').collect();
    match parts.as_slice() {
        ["codec", ty, "parse"] => handle_parse(ty, a),
        ["codec", ty, "print"] => handle_print(ty, a),
        _ => None,
    }
}

// ------------------------------------------------------------------ generators

/// every string at edit distance one (delete / substitute / insert over a small alphabet), case
/// changes, surrounding white space, the Kelvin-sign look-alike of `k`
fn near_misses(kw: &str) -> Vec<String> {
    let cs: Vec<char> = kw.chars().collect();
    let alpha = ['a', 'e', 'o', 'z', 'A', '-', '_', ' ', '=', '<', '>', '0', 'é', '\u{212a}', '\u{130}'];
    let mut out: Vec<String> = vec![];
    for i in 0..cs.len() {
        let mut d = cs.clone();
        d.remove(i);
        out.push(d.iter().collect());
        for a in alpha {
            let mut s = cs.clone();
            s[i] = a;
            out.push(s.iter().collect());
        }
        let mut u = cs.clone();
        u[i] = cs[i].to_ascii_uppercase();
        out.push(u.iter().collect());
        if i + 1 < cs.len() {
            let mut t = cs.clone();
            t.swap(i, i + 1);
            out.push(t.iter().collect());
        }
    }
    for i in 0..=cs.len() {
        for a in alpha {
            let mut s = cs.clone();
            s.insert(i, a);
            out.push(s.iter().collect());
        }
    }
    out.push(kw.to_uppercase());
    out.push(kw.to_lowercase());
    let mut cap = cs.clone();
    if !cap.is_empty() {
        cap[0] = cap[0].to_ascii_uppercase();
    }
    out.push(cap.iter().collect());
    for (pre, post) in [(" ", ""), ("", " "), (" ", " "), ("\t", ""), ("", "\n"), ("\u{a0}", ""), ("", "\u{2003}"), ("", "\0")] {
        out.push(format!("{}{}{}", pre, kw, post));
    }
    out.push(format!("{}{}", kw, kw));
    out.retain(|s| s != kw);
    out
}

const TOKENS: &[&str] = &[
    "a", "b", "é", "日本", "0", "10", "=", "a=b", "k=v=w", "=x", "x=", "[", "]", "[x]", "[x]y", "x]y", "[x", "[]", "-b", "b", "!p", "!", "commit:", "commit:1",
    "Commit:1", "no", "not-needed", "yes", "backport", "vendor", "upstream", "other", "backport,", "Other", "<", ">", "@", "a@b", ",", "optional", "extra",
    "Git", "\u{1f600}", "a\u{301}",
    // letter case: a value that is not a keyword keeps its spelling (after seeded change C18-r5m2)
    "Ab", "https://Example.org/Pull/42", "NO", "Not-Needed", "D41D8CD98F00B204", "\u{130}x",
    // placeholders real files use where a keyword is expected (dpkg-genchanges writes `-`)
    "-", "--", "unknown", "none",
];
/// outside the property's domain (white space inside / empty): correspondence only
const NON_TOKENS: &[&str] = &[
    "", " ", "a b", " a", "a ", "\u{a0}", "\u{2003}x", "x\u{3000}", "\n", "a\nb", "\na", "a\n", "\t", " -b ", " -b x", " [x]", "a [x]", "backport, x", "other, commit:1",
    "x, y", ", ", "a\u{85}b", "\r", "a -b b [c]",
];

fn ints(rng: &mut Rng, n: usize) -> Vec<String> {
    let mut v: Vec<String> = ["0", "1", "9", "10", "4294967296", "18446744073709551615", "18446744073709551616"].iter().map(|s| s.to_string()).collect();
    for _ in 0..n {
        let bits = 1 + rng.below(64);
        let x = if bits == 64 { rng.next() } else { rng.next() & ((1u64 << bits) - 1) };
        v.push(x.to_string());
    }
    v
}

const INT_TEXTS: &[&str] = &[
    "0", "1", "9", "10", "007", "+5", "+0", "-5", "-0", "+", "-", "", "++5", "+-5", "5+", "1_000", "１２", "٣", "0x10", "1e3", "1.0", " 5", "4294967296",
    "18446744073709551615", "18446744073709551616", "+18446744073709551615", "018446744073709551615", "18446744073709551625", "184467440737095516150",
    "99999999999999999999999999", "0000000000000000000000000000001", "a", "5a",
];

pub fn generate_c18(tier: &str, seed: u64, out: &mut Out) {
    let thorough = tier == "thorough";
    let mut rng = Rng::new(seed);

    // ---- keyword enumerations: exhaustively, from the translator's table AND the harness's own list
    let all_kw: Vec<String> = tables().iter().flat_map(|t| t.parse.iter().map(|r| r.0.clone())).collect();
    for t in tables() {
        let op_parse = format!("codec.{}.parse", t.name);
        let op_print = format!("codec.{}.print", t.name);
        for v in &t.variants {
            out.req(&op_print, &[v.clone()]);
        }
        for (v, _) in &t.print {
            out.req(&op_print, &[v.clone()]);
        }
        if let Some(r) = real_enum(&t.name) {
            for (v, printed, _) in &r.variants {
                out.req(&op_print, &[v.clone()]);
                out.req(&op_parse, &[es(printed)]);
            }
        }
        out.req(&op_print, &["NoSuchVariant".into()]);
        let mut kws: Vec<String> = t.parse.iter().map(|r| r.0.clone()).collect();
        kws.extend(t.print.iter().map(|r| r.1.clone()));
        kws.sort();
        kws.dedup();
        for kw in &kws {
            out.req(&op_parse, &[es(kw)]);
            for m in near_misses(kw) {
                out.req(&op_parse, &[es(&m)]);
            }
        }
        // keywords of the other types, variant names, the empty string, tokens
        for kw in &all_kw {
            out.req(&op_parse, &[es(kw)]);
        }
        for v in &t.variants {
            out.req(&op_parse, &[es(v)]);
        }
        for s in TOKENS.iter().chain(NON_TOKENS.iter()) {
            out.req(&op_parse, &[es(s)]);
        }
    }
    // harness-side types that the table does not list would show up as bad-op on the model side
    for r in real_enums() {
        for (v, _, _) in &r.variants {
            out.req(&format!("codec.{}.print", r.name), &[v.clone()]);
        }
    }

    // ---- records
    let toks: Vec<&str> = TOKENS.to_vec();
    let small: Vec<&str> = vec!["a", "é", "0", "=", "[x]", "x]y", "-b", "日本", "a b", "", "\u{a0}"];
    let sizes = ints(&mut rng, if thorough { 200 } else { 24 });
    let seps = [" ", "  ", "\t", "\n", "\u{a0}", "\u{2003}", " \t "];
    let prios = ["Required", "Important", "Standard", "Optional", "Extra"];
    let prio_texts = ["required", "important", "standard", "optional", "extra", "Optional", "optional ", "", "low", "x"];

    for ty in ["Md5Checksum", "Sha1Checksum", "Sha256Checksum", "Sha512Checksum"] {
        let op_parse = format!("codec.{}.parse", ty);
        let op_print = format!("codec.{}.print", ty);
        for h in &small {
            for n in &sizes {
                for f in &small {
                    out.req(&op_print, &[es(h), n.clone(), es(f)]);
                }
            }
        }
        for t in &toks {
            out.req(&op_print, &[es(t), "7".into(), es("f")]);
            out.req(&op_print, &[es("h"), "7".into(), es(t)]);
        }
        for it in INT_TEXTS {
            for sep in &seps {
                out.req(&op_parse, &[es(&format!("h{}{}{}f", sep, it, sep))]);
            }
            out.req(&op_parse, &[es(&format!("h {} f extra", it))]);
            out.req(&op_parse, &[es(&format!(" h {} f ", it))]);
        }
        for l in lists_upto(&["a", "5", "+5", "é", "x=y"], 4) {
            out.req(&op_parse, &[es(&l.join(" "))]);
        }
        // canonical lines (text-side clause): tokens joined by single spaces around a canonical size
        for h in &toks {
            for n in ["0", "7", "10", "18446744073709551615"] {
                for f in ["f", "é", "[x]", "a=b"] {
                    out.req(&op_parse, &[es(&format!("{} {} {}", h, n, f))]);
                }
            }
        }
    }

    // changes File
    for m in &small {
        for n in sizes.iter().take(9) {
            for p in &prios {
                for f in ["f", "é", "x y", ""] {
                    out.req("codec.File.print", &[es(m), n.clone(), es("sec"), p.to_string(), es(f)]);
                    out.req("codec.File.print", &[es("m"), n.clone(), es(m), p.to_string(), es(f)]);
                }
            }
        }
    }
    out.req("codec.File.print", &[es("m"), "1".into(), es("s"), "Bogus".into(), es("f")]);
    for it in INT_TEXTS {
        for p in &prio_texts {
            out.req("codec.File.parse", &[es(&format!("m {} sec {} f", it, p))]);
        }
    }
    for l in lists_upto(&["a", "5", "optional", "extra", "é"], 5) {
        out.req("codec.File.parse", &[es(&l.join(" "))]);
    }
    // every token of the pool (placeholders such as `-`, other types' keywords, case variants) in
    // the priority column of an otherwise well-formed line: accepted only for the five keywords
    for p in TOKENS.iter() {
        out.req("codec.File.parse", &[es(&format!("d41d8cd9 10 utils {} a_1.0.dsc", p))]);
        out.req("codec.File.parse", &[es(&format!("d41d8cd9 10 - {} a_1.0.dsc", p))]);
        out.req("codec.PackageListEntry.parse", &[es(&format!("pkg deb utils {}", p))]);
        out.req("codec.PackageListEntry.parse", &[es(&format!("pkg deb utils {} arch=any", p))]);
    }
    for m in &toks {
        for p in ["required", "important", "standard", "optional", "extra"] {
            out.req("codec.File.parse", &[es(&format!("{} 10 sec {} {}", m, p, m))]);
            out.req("codec.File.parse", &[es(&format!("m 0 {} {} f", m, p))]);
        }
    }

    // PackageListEntry
    let kpool = ["k", "a", "a!", "é", "k=", "=", "a b", ""];
    let vpool = ["v", "1", "x=y", "=", "é", "", "a b"];
    for p in ["pkg", "é", "a b", ""] {
        for pr in &prios {
            for ks in lists_upto(&kpool, 2) {
                for vs in lists_upto(&vpool, 2) {
                    if ks.len() == vs.len() {
                        out.req("codec.PackageListEntry.print", &[es(p), es("deb"), es("sec"), pr.to_string(), elist(&ks), elist(&vs)]);
                    }
                }
            }
        }
    }
    for n in [3usize, 5, 8] {
        // many extras: the printed order of a HashMap
        let ks: Vec<String> = (0..n).map(|i| format!("k{}", i)).collect();
        let vs: Vec<String> = (0..n).map(|i| format!("v{}", i)).collect();
        out.req("codec.PackageListEntry.print", &[es("p"), es("deb"), es("s"), "Optional".into(), elist(&ks), elist(&vs)]);
        let text = format!("p deb s optional {}", ks.iter().zip(vs.iter()).map(|(k, v)| format!("{}={}", k, v)).collect::<Vec<_>>().join(" "));
        out.req("codec.PackageListEntry.parse", &[es(&text)]);
    }
    out.req("codec.PackageListEntry.print", &[es("p"), es("deb"), es("s"), "Bogus".into(), "".into(), "".into()]);
    let extras_texts = ["", "k=v", "k=v a=b", "k=v k=w", "k", "k=", "=v", "=", "k=v=w", "k==v", "a!=1 a=2", "é=日本", "k=v\u{a0}a=b", "k=v  a=b", "b=1 a=2 c=3"];
    for p in &prio_texts {
        for e in &extras_texts {
            out.req("codec.PackageListEntry.parse", &[es(&format!("pkg deb sec {} {}", p, e))]);
            out.req("codec.PackageListEntry.parse", &[es(&format!("pkg\tdeb  sec {}\n{}", p, e))]);
        }
    }
    for l in lists_upto(&["a", "optional", "k=v", "é"], 5) {
        out.req("codec.PackageListEntry.parse", &[es(&l.join(" "))]);
    }
    // canonical lines: extras in strictly increasing key order (and near misses of that order)
    for t in &toks {
        for ex in ["", " a=1", " a=1 b=2", " =0 a=1 a!=2 b= é=x", " k=v=w", " b=2 a=1", " a=1 a=2", " A=1 a=2 é=3 日本=4"] {
            out.req("codec.PackageListEntry.parse", &[es(&format!("{} deb {} optional{}", t, t, ex))]);
        }
    }

    // BuildProfile
    for t in TOKENS.iter().chain(NON_TOKENS.iter()).chain(["!!x", "!", "! x", "nocheck", "!nocheck"].iter()) {
        out.req("codec.BuildProfile.parse", &[es(t)]);
        out.req("codec.BuildProfile.print", &["Enabled".into(), es(t)]);
        out.req("codec.BuildProfile.print", &["Disabled".into(), es(t)]);
    }

    // ParsedVcs / Vcs: every combination of branch and subpath over the token pool
    let urls: Vec<&str> = vec!["https://e.org/r", "a", "é", "-b", "[x]", "x]", "[", "a b", "a -b c", "a [s]", "", " a"];
    let mut opts: Vec<Option<&str>> = vec![None];
    opts.extend(toks.iter().map(|t| Some(*t)));
    opts.extend([Some(""), Some("a b"), Some(" [q]"), Some("x [q]"), Some("x -b y"), Some(" ")].iter().cloned());
    for u in &urls {
        for b in &opts {
            for p in &opts {
                let a = [es(u), eopt(*b), eopt(*p)];
                out.req("codec.ParsedVcs.print", &a);
                out.req("codec.Vcs.print", &["Git".to_string(), a[0].clone(), a[1].clone(), a[2].clone()]);
                // Vcs::subpath / Vcs::to_branch_url on the same values (Git without a branch: the
                // call panics — observable `PANIC` on both sides)
                out.req("vcs.branchurl", &["v".to_string(), "Git".to_string(), a[0].clone(), a[1].clone(), a[2].clone()]);
            }
        }
        for p in &opts {
            out.req("codec.Vcs.print", &["Bzr".to_string(), es(u), eopt(*p)]);
            out.req("codec.Vcs.print", &["Cvs".to_string(), es(u), eopt(*p)]);
            out.req("vcs.branchurl", &["v".to_string(), "Bzr".to_string(), es(u), eopt(*p)]);
            out.req("vcs.branchurl", &["v".to_string(), "Cvs".to_string(), es(u), eopt(*p)]);
        }
        out.req("codec.Vcs.print", &["Hg".to_string(), es(u)]);
        out.req("codec.Vcs.print", &["Svn".to_string(), es(u)]);
        out.req("vcs.branchurl", &["v".to_string(), "Hg".to_string(), es(u)]);
        out.req("vcs.branchurl", &["v".to_string(), "Svn".to_string(), es(u)]);
    }
    let frag = ["a", " -b ", "-b", " [", "]", "[", " ", "x", " [x]", "[y]", " -b", "\u{a0}", "é", "\n"];
    let vcs_texts = strings_upto(&frag, if thorough { 5 } else { 4 });
    let names = ["Git", "Bzr", "Hg", "Svn", "Cvs", "git", "GIT", "Darcs", "", "Git "];
    for (i, t) in vcs_texts.iter().enumerate() {
        out.req("codec.ParsedVcs.parse", &[es(t)]);
        let n = names[i % names.len()];
        out.req("codec.Vcs.parse", &[es(n), es(t)]);
    }
    for n in &names {
        for t in ["https://e.org/r", "u -b br [sub]", "u [sub]", "u -b br", ":pserver:x mod", "root mod ule", ""] {
            out.req("codec.Vcs.parse", &[es(n), es(t)]);
            out.req("vcs.branchurl", &["f".to_string(), es(n), es(t)]);
        }
    }
    // subpath() / to_branch_url() of what from_field returns, over the fragment strings
    for (i, t) in vcs_texts.iter().enumerate() {
        if thorough || i % 7 == 0 {
            out.req("vcs.branchurl", &["f".to_string(), es(names[i % 5]), es(t)]);
        }
    }

    // Identity
    let idn = ["Joe Example", "", "J", " J", "J ", "a<b", "é", "x@y", "\u{a0}J"];
    let ide = ["joe@example.com", "", "a", " a@b", "a@b ", "a>b", "a<b@c", "é@é", "a@b>"];
    for n in &idn {
        for e in &ide {
            out.req("codec.Identity.print", &[es(n), es(e)]);
        }
    }
    for t in strings_upto(&["J", " ", "<", ">", "@", "e", "\u{a0}"], if thorough { 6 } else { 5 }) {
        out.req("codec.Identity.parse", &[es(&t)]);
    }

    // DEP-3
    let cats = ["none", "Backport", "Vendor", "Upstream", "Other", "Bogus"];
    for t in TOKENS.iter().chain(NON_TOKENS.iter()) {
        for ty in ["Origin", "AppliedUpstream"] {
            out.req(&format!("codec.{}.parse", ty), &[es(t)]);
            out.req(&format!("codec.{}.parse", ty), &[es(&format!("commit:{}", t))]);
            out.req(&format!("codec.{}.print", ty), &["Commit".into(), es(t)]);
            out.req(&format!("codec.{}.print", ty), &["Other".into(), es(t)]);
        }
        out.req("codec.Forwarded.parse", &[es(t)]);
        out.req("codec.Forwarded.print", &["Yes".into(), es(t)]);
        for c in &cats {
            out.req("codec.OriginField.print", &[c.to_string(), "Commit".into(), es(t)]);
            out.req("codec.OriginField.print", &[c.to_string(), "Other".into(), es(t)]);
        }
    }
    let ofrag = ["backport", "vendor", "upstream", "other", "Other", ", ", ",", " ", "commit:", "x", "é", "commit:1"];
    for t in strings_upto(&ofrag, if thorough { 5 } else { 4 }) {
        out.req("codec.OriginField.parse", &[es(&t)]);
    }
    for kw in ["no", "not-needed"] {
        for m in near_misses(kw) {
            out.req("codec.Forwarded.parse", &[es(&m)]);
        }
    }
    for k in ["No", "NotNeeded", "Bogus"] {
        out.req("codec.Forwarded.print", &[k.to_string()]);
    }

    // License / Signature
    let lnames = ["GPL-2+", "MIT", "GPL-2+ with OpenSSL exception", "", "a\nb", "\n", " ", "é"];
    let ltexts = ["text", "", "line1\nline2", "\n", "\nx", " .\n x", "é\n"];
    for n in &lnames {
        out.req("codec.License.print", &["Name".into(), es(n)]);
        out.req("codec.Signature.print", &["KeyPath".into(), es(n)]);
        for t in &ltexts {
            out.req("codec.License.print", &["Named".into(), es(n), es(t)]);
        }
    }
    for t in &ltexts {
        out.req("codec.License.print", &["Text".into(), es(t)]);
        out.req("codec.Signature.print", &["KeyBlock".into(), es(t)]);
    }
    for t in strings_upto(&["a", "\n", " ", "é", "/k.gpg", "-----BEGIN PGP PUBLIC KEY BLOCK-----"], if thorough { 5 } else { 4 }) {
        out.req("codec.License.parse", &[es(&t)]);
        out.req("codec.Signature.parse", &[es(&t)]);
    }

    // ---- seeded random records over the pools
    let n = if thorough { 200_000 } else { 20_000 };
    let pool: Vec<&str> = TOKENS.iter().chain(NON_TOKENS.iter()).cloned().collect();
    for _ in 0..n {
        let pick = |rng: &mut Rng| -> String {
            if rng.chance(85) {
                rng.pick(TOKENS).to_string()
            } else {
                rng.pick(&pool).to_string()
            }
        };
        match rng.below(8) {
            0 => {
                let ty = *rng.pick(&["Md5Checksum", "Sha1Checksum", "Sha256Checksum", "Sha512Checksum"]);
                let bits = 1 + rng.below(64);
                let x = rng.next() >> (64 - bits);
                out.req(&format!("codec.{}.print", ty), &[es(&pick(&mut rng)), x.to_string(), es(&pick(&mut rng))]);
            }
            1 => {
                let bits = 1 + rng.below(64);
                let x = rng.next() >> (64 - bits);
                out.req(
                    "codec.File.print",
                    &[es(&pick(&mut rng)), x.to_string(), es(&pick(&mut rng)), rng.pick(&prios).to_string(), es(&pick(&mut rng))],
                );
            }
            2 => {
                let k = rng.below(4);
                let ks: Vec<String> = (0..k).map(|_| pick(&mut rng)).collect();
                let vs: Vec<String> = (0..k).map(|_| pick(&mut rng)).collect();
                out.req(
                    "codec.PackageListEntry.print",
                    &[es(&pick(&mut rng)), es(&pick(&mut rng)), es(&pick(&mut rng)), rng.pick(&prios).to_string(), elist(&ks), elist(&vs)],
                );
            }
            3 => {
                // a text assembled from tokens with random separators, parsed by every record reader
                let k = rng.below(7);
                let mut t = String::new();
                for i in 0..k {
                    if i > 0 || rng.chance(10) {
                        t.push_str(*rng.pick(&seps));
                    }
                    match rng.below(5) {
                        0 => t.push_str(*rng.pick(INT_TEXTS)),
                        1 => t.push_str(*rng.pick(&prio_texts)),
                        _ => t.push_str(&pick(&mut rng)),
                    }
                }
                let ty = *rng.pick(&["Md5Checksum", "Sha1Checksum", "Sha256Checksum", "Sha512Checksum", "File", "PackageListEntry"]);
                out.req(&format!("codec.{}.parse", ty), &[es(&t)]);
            }
            4 => {
                let b = if rng.chance(60) { Some(pick(&mut rng)) } else { None };
                let p = if rng.chance(60) { Some(pick(&mut rng)) } else { None };
                out.req("codec.ParsedVcs.print", &[es(&pick(&mut rng)), eopt(b.as_deref()), eopt(p.as_deref())]);
            }
            5 => {
                let k = 1 + rng.below(7);
                let mut t = String::new();
                for _ in 0..k {
                    if rng.chance(50) {
                        t.push_str(*rng.pick(&frag));
                    } else {
                        t.push_str(&pick(&mut rng));
                    }
                }
                out.req("codec.ParsedVcs.parse", &[es(&t)]);
                out.req("codec.Vcs.parse", &[es(*rng.pick(&names)), es(&t)]);
            }
            6 => {
                let k = 1 + rng.below(5);
                let mut t = String::new();
                for _ in 0..k {
                    if rng.chance(60) {
                        t.push_str(*rng.pick(&ofrag));
                    } else {
                        t.push_str(&pick(&mut rng));
                    }
                }
                out.req("codec.OriginField.parse", &[es(&t)]);
                out.req("codec.Forwarded.parse", &[es(&t)]);
            }
            _ => {
                let c = rng.pick(&cats).to_string();
                let k = if rng.chance(50) { "Commit" } else { "Other" };
                out.req("codec.OriginField.print", &[c, k.to_string(), es(&pick(&mut rng))]);
            }
        }
    }
}
