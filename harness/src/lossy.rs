//! lossy deb822 reader/printer/edits: C06 (agreement with the lossless reader), C08 (print/reparse,
//! list edits)
use crate::deb::{enc_items, gen_texts};
use crate::docspec::{self};
use crate::util::*;
use crate::Resp;
use deb822_lossless::lossy;
use deb822_lossless::Deb822;
use std::str::FromStr;

pub fn enc_lossy(d: &lossy::Deb822) -> String {
    d.iter()
        .map(|p| enc_items(&p.iter().map(|(k, v)| (k.to_string(), v.to_string())).collect::<Vec<_>>()))
        .collect::<Vec<_>>()
        .join(";")
}

fn err_name(e: &lossy::Error) -> &'static str {
    match e {
        lossy::Error::UnexpectedToken(_, _) => "UnexpectedToken",
        lossy::Error::UnexpectedEof => "UnexpectedEof",
        lossy::Error::Io(_) => "Io",
        lossy::Error::ExpectedEof => "ExpectedEof",
    }
}

fn show_lossy(r: &Result<lossy::Deb822, lossy::Error>) -> String {
    match r {
        Ok(d) => format!("ok {}", enc_lossy(d)),
        Err(e) => format!("err:{}", err_name(e)),
    }
}

type Content = Vec<Vec<(String, String)>>;

fn lossy_content(d: &lossy::Deb822) -> Content {
    d.iter().map(|p| p.iter().map(|(k, v)| (k.to_string(), v.to_string())).collect()).collect()
}

fn strict_content(s: &str) -> (String, Option<Content>) {
    match Deb822::from_str(s) {
        Err(_) => ("err".to_string(), None),
        Ok(d) => {
            let c: Content = d.paragraphs().map(|p| p.items().collect()).collect();
            (
                format!("ok {}", c.iter().map(|p| enc_items(p)).collect::<Vec<_>>().join(";")),
                Some(c),
            )
        }
    }
}

/// non-blank value lines
fn nb(v: &str) -> Vec<&str> {
    v.split('\n').filter(|l| !l.is_empty()).collect()
}

fn nb_eq(a: &Content, b: &Content) -> Option<String> {
    if a.len() != b.len() {
        return Some(format!("paragraph count {} vs {}", a.len(), b.len()));
    }
    for (pa, pb) in a.iter().zip(b) {
        if pa.iter().map(|f| &f.0).collect::<Vec<_>>() != pb.iter().map(|f| &f.0).collect::<Vec<_>>() {
            return Some("field names differ".to_string());
        }
        for (fa, fb) in pa.iter().zip(pb) {
            if nb(&fa.1) != nb(&fb.1) {
                return Some(format!("non-blank value lines of {:?} differ: {:?} vs {:?}", fa.0, fa.1, fb.1));
            }
        }
    }
    None
}

/// text-level predicate of C06_accept_iff: some line (a line ends at '\n' and at '\r') starts
/// with a run of name characters (first: ASCII graphic except '-', ':', '#'; then ASCII graphic
/// except ':') immediately followed by a space or a tab
pub fn blank_after_key(text: &str) -> bool {
    text.split(|c| c == '\n' || c == '\r').any(|line| {
        let mut cs = line.chars();
        match cs.next() {
            Some(c) if c.is_ascii_graphic() && c != '-' && c != ':' && c != '#' => {}
            _ => return false,
        }
        for c in cs {
            if c == ' ' || c == '\t' {
                return true;
            }
            if !c.is_ascii_graphic() || c == ':' {
                return false;
            }
        }
        false
    })
}

/// C06_normal: `lossy` and `strict` have the same paragraphs and names, and each lossless value is
/// the lossy value split at '\n', empty pieces removed, joined with '\n'
fn normal_form(lossy: &Content, strict: &Content) -> Option<String> {
    if lossy.len() != strict.len() {
        return Some(format!("paragraph count {} (lossy) vs {} (lossless)", lossy.len(), strict.len()));
    }
    for (i, (pl, ps)) in lossy.iter().zip(strict).enumerate() {
        if pl.iter().map(|f| &f.0).collect::<Vec<_>>() != ps.iter().map(|f| &f.0).collect::<Vec<_>>() {
            return Some(format!("field names of paragraph {} differ", i));
        }
        for (fl, fs) in pl.iter().zip(ps) {
            let want = nb(&fl.1).join("\n");
            if fs.1 != want {
                return Some(format!("lossless value of {:?} is {:?}, lossy value without empty lines is {:?}", fl.0, fs.1, want));
            }
        }
    }
    None
}

pub fn dec_para(f: &str) -> Option<Vec<(String, String)>> {
    if f.is_empty() {
        return Some(vec![]);
    }
    f.split(',')
        .map(|kv| {
            let (k, v) = kv.split_once(':')?;
            Some((ds(k)?, ds(v)?))
        })
        .collect()
}

pub fn dec_doc(f: &str) -> Option<Content> {
    if f == "-" {
        return Some(vec![]);
    }
    f.split(';').map(dec_para).collect()
}

pub fn enc_doc(d: &Content) -> String {
    if d.is_empty() {
        "-".to_string()
    } else {
        d.iter().map(|p| enc_items(p)).collect::<Vec<_>>().join(";")
    }
}

/// the domain of C08: valid names; value = non-empty lines without leading whitespace (an empty
/// value or an empty first line allowed); no CR; continuation lines not starting with '#'
/// (an indented '#' line is deliberately a comment for both readers, cf. C03/C04)
pub fn canon_value(v: &str) -> bool {
    if v.is_empty() {
        return true;
    }
    if v.contains('\r') || v.ends_with('\n') {
        return false;
    }
    let lines: Vec<&str> = v.split('\n').collect();
    for (i, l) in lines.iter().enumerate() {
        if l.is_empty() {
            if i == 0 && lines.len() > 1 {
                continue;
            }
            return false;
        }
        let c = l.chars().next().unwrap();
        if c == ' ' || c == '\t' {
            return false;
        }
        if i > 0 && c == '#' {
            return false;
        }
    }
    true
}

pub fn canon_doc(d: &Content) -> bool {
    d.iter().all(|p| !p.is_empty() && p.iter().all(|(k, v)| docspec::valid_key(k) && canon_value(v)))
}

pub fn handle(op: &str, a: &[&str]) -> Option<Resp> {
    match (op, a) {
        ("deb.lossy", [t]) => {
            let s = ds(t)?;
            Some(Resp::ok(show_lossy(&lossy::Deb822::from_str(&s))))
        }
        ("deb.lossypara", [t]) => {
            let s = ds(t)?;
            let r = lossy::Paragraph::from_str(&s);
            Some(Resp::ok(match &r {
                Ok(p) => format!(
                    "ok {}",
                    enc_items(&p.iter().map(|(k, v)| (k.to_string(), v.to_string())).collect::<Vec<_>>())
                ),
                Err(e) => format!("err:{}", err_name(e)),
            }))
        }
        ("deb.both", [t]) => {
            let s = ds(t)?;
            let l = lossy::Deb822::from_str(&s);
            let (sv, sc) = strict_content(&s);
            let mut fail = None;
            // containment (C06_lossy_imp_strict): what the lossy reader accepts, the lossless
            // reader accepts
            if l.is_ok() && sc.is_none() {
                fail = Some("accepted by the lossy reader but rejected by the lossless reader".to_string());
            }
            // acceptance iff (C06_accept_iff): a text of the lossless reader is rejected by the
            // lossy reader exactly when it has a blank between a field name and its colon
            if fail.is_none() && sc.is_some() {
                let bak = blank_after_key(&s);
                if l.is_err() != bak {
                    fail = Some(format!(
                        "lossless accepts, lossy {} but blank between a name and its colon = {}",
                        if l.is_ok() { "accepts" } else { "rejects" },
                        bak
                    ));
                }
            }
            if let (Ok(ld), Some(sc)) = (&l, &sc) {
                // normal form (C06_normal): same paragraphs, same names in order, and the lossless
                // value is the lossy value without its empty lines
                if fail.is_none() {
                    fail = normal_form(&lossy_content(ld), sc).map(|w| format!("normal form: {}", w));
                }
                if fail.is_none() {
                    fail = nb_eq(&lossy_content(ld), sc).map(|w| format!("readers disagree: {}", w));
                }
            }
            // lookup by name (after seeded change C06-r8m1): in either reader `get(name)` is the
            // value of the first field of its own listing with EXACTLY that name (names that differ
            // in letter case are different fields), so both readers answer a by-name question alike
            if let (true, Ok(ld), Ok(sd)) = (fail.is_none() && s.len() <= 65_536, &l, Deb822::from_str(&s)) {
                for (pi, (lp, sp)) in ld.iter().zip(sd.paragraphs()).enumerate() {
                    let litems: Vec<(String, String)> = lp.iter().map(|(k, v)| (k.to_string(), v.to_string())).collect();
                    let sitems: Vec<(String, String)> = sp.items().collect();
                    let mut names: Vec<String> = vec![];
                    for (k, _) in litems.iter().chain(sitems.iter()) {
                        for n in [k.clone(), k.to_ascii_lowercase(), k.to_ascii_uppercase()] {
                            if !names.contains(&n) {
                                names.push(n);
                            }
                        }
                    }
                    for n in names.iter().take(24) {
                        let lw = litems.iter().find(|f| &f.0 == n).map(|f| f.1.clone());
                        let sw = sitems.iter().find(|f| &f.0 == n).map(|f| f.1.clone());
                        let lg = lp.get(n).map(|v| v.to_string());
                        let sg = sp.get(n);
                        if lg != lw {
                            fail = Some(format!("paragraph {}: lossy get({:?}) = {:?}, its field listing says {:?}", pi, n, lg, lw));
                        } else if sg != sw {
                            fail = Some(format!("paragraph {}: lossless get({:?}) = {:?}, its field listing says {:?}", pi, n, sg, sw));
                        } else if sp.contains_key(n) != sw.is_some() {
                            fail = Some(format!("paragraph {}: lossless contains_key({:?}) = {}, its field listing says {}", pi, n, !sw.is_some(), sw.is_some()));
                        }
                        if fail.is_some() {
                            break;
                        }
                    }
                    if fail.is_some() {
                        break;
                    }
                }
            }
            // the lossy reader's other front end: `from_reader` over the same bytes, whole and
            // through short reads (1 and 3 bytes per call: a multi-byte character then lies across
            // two read() calls), reads what `from_str` reads (after seeded changes C06-r6m1 / C08-r6m1)
            if fail.is_none() {
                let want = show_lossy(&l);
                let whole = lossy::Deb822::from_reader(s.as_bytes());
                if show_lossy(&whole) != want {
                    fail = Some(format!("lossy from_reader differs from from_str: {} vs {}", show_lossy(&whole), want).chars().take(400).collect());
                }
                // a fault in the stream: interrupted once (retried, same answer) / hard error (an error)
                if fail.is_none() && s.len() <= 4096 {
                    let b = s.as_bytes();
                    for at in [0usize, b.len() / 2, b.len()] {
                        let r = lossy::Deb822::from_reader(crate::deb::Faulty { data: b, at, hard: false, pos: 0, fired: false });
                        if show_lossy(&r) != want {
                            fail = Some(format!("lossy from_reader over a reader interrupted once at byte {} differs from from_str", at));
                            break;
                        }
                        if at < b.len() && lossy::Deb822::from_reader(crate::deb::Faulty { data: b, at, hard: true, pos: 0, fired: false }).is_ok() {
                            fail = Some(format!("lossy from_reader returns a document although the reader failed at byte {}", at));
                            break;
                        }
                    }
                }
                if fail.is_none() && !s.is_ascii() {
                    for step in [1usize, 3] {
                        let r = lossy::Deb822::from_reader(crate::deb::Dribble { data: s.as_bytes(), step });
                        if show_lossy(&r) != want {
                            fail = Some(format!("lossy from_reader over a reader returning {} byte(s) per call differs from from_str", step));
                            break;
                        }
                    }
                }
            }
            Some(Resp::with(format!("L:{} S:{}", show_lossy(&l), sv), fail))
        }
        ("deb.docl", [ls, fnl]) => {
            // joint acceptance on well-formed documents (C06 clause 2)
            let ls = docspec::dec_lines(ls)?;
            let text = docspec::render(&ls, *fnl == "1");
            let l = lossy::Deb822::from_str(&text);
            let (sv, sc) = strict_content(&text);
            let mut fail = None;
            if docspec::wf(&ls) {
                match (&l, &sc) {
                    (Ok(ld), Some(sc)) => {
                        fail = nb_eq(&lossy_content(ld), sc).map(|w| format!("readers disagree: {}", w));
                        if fail.is_none() {
                            fail = nb_eq(&lossy_content(ld), &docspec::content(&ls))
                                .map(|w| format!("lossy content differs from the document: {}", w));
                        }
                    }
                    (Err(_), _) => fail = Some("well-formed document rejected by the lossy reader".to_string()),
                    (_, None) => fail = Some("well-formed document rejected by the lossless reader".to_string()),
                }
            }
            Some(Resp::with(format!("{} L:{} S:{}", es(&text), show_lossy(&l), sv), fail))
        }
        ("deb.lprint", [d]) => {
            let d = dec_doc(d)?;
            // build the lossy document from its paragraphs through the public API
            let paras: Vec<lossy::Paragraph> = d.iter().map(|p| p.clone().into_iter().collect()).collect();
            // lossy::Deb822 can only be built by parsing; print paragraph-wise exactly as its
            // Display does (paragraphs separated by one empty line) and ALSO through a parsed
            // document when the text re-reads, so both Display impls are exercised
            let mut text = String::new();
            for (i, p) in paras.iter().enumerate() {
                if i > 0 {
                    text.push('\n');
                }
                text.push_str(&p.to_string());
            }
            let l = lossy::Deb822::from_str(&text);
            let (sv, sc) = strict_content(&text);
            let mut fail = None;
            if canon_doc(&d) {
                match &l {
                    Ok(ld) => {
                        if lossy_content(ld) != d {
                            fail = Some(format!("lossy reader does not return the printed value: {:?}", lossy_content(ld)));
                        } else if ld.to_string() != text {
                            fail = Some("Deb822 Display is not paragraphs separated by one blank line".to_string());
                        }
                    }
                    Err(_) => fail = Some("printed text rejected by the lossy reader".to_string()),
                }
                if fail.is_none() {
                    match &sc {
                        Some(sc) => fail = nb_eq(sc, &d).map(|w| format!("lossless content differs: {}", w)),
                        None => fail = Some("printed text rejected by the lossless reader".to_string()),
                    }
                }
                // the reader's other front end reads the printed text the same way: whole, and
                // through short reads when the text has multi-byte characters
                if fail.is_none() {
                    let want = show_lossy(&l);
                    if show_lossy(&lossy::Deb822::from_reader(text.as_bytes())) != want {
                        fail = Some("lossy from_reader does not read the printed text as from_str does".to_string());
                    } else if !text.is_ascii() {
                        for step in [1usize, 3] {
                            if show_lossy(&lossy::Deb822::from_reader(crate::deb::Dribble { data: text.as_bytes(), step })) != want {
                                fail = Some(format!("lossy from_reader over a reader returning {} byte(s) per call does not read the printed text as from_str does", step));
                                break;
                            }
                        }
                    }
                }
            }
            Some(Resp::with(format!("{} L:{} S:{} canon={}", es(&text), show_lossy(&l), sv, ebool(canon_doc(&d))), fail))
        }
        ("deb.lhist", [p, ops]) => {
            let start = dec_para(p)?;
            let mut para: lossy::Paragraph = start.clone().into_iter().collect();
            let mut model: Vec<(String, String)> = start;
            let mut outs = vec![];
            let mut fail = None;
            let ops: Vec<&str> = if ops.is_empty() { vec![] } else { ops.split(',').collect() };
            for op in ops {
                let f: Vec<&str> = op.split('.').collect();
                let ret = match f.as_slice() {
                    ["g", k] => {
                        let k = ds(k)?;
                        let r = para.get(&k).map(|s| s.to_string());
                        let m = model.iter().find(|f| f.0 == k).map(|f| f.1.clone());
                        if r != m {
                            fail = Some(format!("get({:?}) is not the first field of that name", k));
                        }
                        eopt(r.as_deref())
                    }
                    ["s", k, v] => {
                        let (k, v) = (ds(k)?, ds(v)?);
                        para.set(&k, &v);
                        match model.iter_mut().find(|f| f.0 == k) {
                            Some(f) => f.1 = v,
                            None => model.push((k, v)),
                        }
                        "-".to_string()
                    }
                    ["i", k, v] => {
                        let (k, v) = (ds(k)?, ds(v)?);
                        para.insert(&k, &v);
                        model.push((k, v));
                        "-".to_string()
                    }
                    ["r", k] => {
                        let k = ds(k)?;
                        para.remove(&k);
                        model.retain(|f| f.0 != k);
                        "-".to_string()
                    }
                    _ => return None,
                };
                let now: Vec<(String, String)> = para.iter().map(|(k, v)| (k.to_string(), v.to_string())).collect();
                if now != model && fail.is_none() {
                    fail = Some(format!("after {}: {:?} but the list model says {:?}", op, now, model));
                }
                if para.len() != model.len() && fail.is_none() {
                    fail = Some("len() differs".to_string());
                }
                outs.push(format!("{}={}/{}", ret, enc_items(&now), para.len()));
            }
            Some(Resp::with(outs.join(" "), fail))
        }
        _ => None,
    }
}

const NAMES: [&str; 5] = ["A", "Source", "X-Y", "~k", "A"];
const LVALS: [&str; 18] = [
    "", "b", "b ", "é 😀", "x: y", "a # b", "#c", ":d", "l1\nl2", "\nl2", "l1\nl2 \nl3", "\nx: y\n:z",
    "l1\n.\nl3", "1.0-1", "\u{a0}x", "a\u{b}b\n\u{3000}c", "\u{feff}y", "z\u{2028}w\n\u{c}v",
];
const BADVALS: [&str; 8] = ["a\n", "\n", " a", "a\n b", "a\n\nb", "a\r", "a\n#b", "a\rb"];

fn random_content(rng: &mut Rng, bad: bool) -> Content {
    let np = rng.below(4);
    let mut d = vec![];
    for _ in 0..np {
        let nf = 1 + rng.below(3);
        let mut p = vec![];
        for _ in 0..nf {
            let v = if bad && rng.chance(30) { *rng.pick(&BADVALS) } else { *rng.pick(&LVALS) };
            p.push((rng.pick(&NAMES).to_string(), v.to_string()));
        }
        d.push(p);
    }
    d
}

pub fn generate_c08(tier: &str, seed: u64, out: &mut Out) {
    let thorough = tier == "thorough";
    let mut rng = Rng::new(seed);
    // exhaustive: one or two paragraphs of one or two fields over the value pool
    for v in LVALS.iter().chain(BADVALS.iter()) {
        out.req("deb.lprint", &[enc_doc(&vec![vec![("A".to_string(), v.to_string())]])]);
        for w in LVALS.iter() {
            out.req("deb.lprint", &[enc_doc(&vec![vec![("A".to_string(), v.to_string()), ("B".to_string(), w.to_string())]])]);
            out.req("deb.lprint", &[enc_doc(&vec![vec![("A".to_string(), v.to_string())], vec![("A".to_string(), w.to_string())]])]);
        }
    }
    out.req("deb.lprint", &["-".to_string()]);
    // values larger than a reader's block with multi-byte characters across the block boundaries
    for ch in ["é", "€", "😀"] {
        let mut lines: Vec<String> = vec![];
        let mut n = 0;
        while n < 20_000 {
            lines.push(ch.repeat(60));
            n += 60 * ch.len() + 2;
        }
        out.req("deb.lprint", &[enc_doc(&vec![vec![("A".to_string(), lines.join("\n"))], vec![("B".to_string(), ch.to_string())]])]);
    }
    let n = if thorough { 1_500_000 } else { 20_000 };
    for i in 0..n {
        let d = random_content(&mut rng, i % 4 == 0);
        out.req("deb.lprint", &[enc_doc(&d)]);
    }
    // all edit histories up to length 3 (quick) / 4 (thorough) over a small operand pool
    let keys = ["A", "B"];
    let vals = ["x", "l1\nl2"];
    let mut opsyms: Vec<String> = vec![];
    for k in keys {
        opsyms.push(format!("g.{}", es(k)));
        opsyms.push(format!("r.{}", es(k)));
        for v in vals {
            opsyms.push(format!("s.{}.{}", es(k), es(v)));
            opsyms.push(format!("i.{}.{}", es(k), es(v)));
        }
    }
    let starts: Vec<Vec<(String, String)>> = vec![
        vec![],
        vec![("A".into(), "1".into())],
        vec![("A".into(), "1".into()), ("B".into(), "2".into()), ("A".into(), "3".into())],
        vec![("C".into(), "0".into()), ("B".into(), "2".into()), ("B".into(), "4".into())],
        // names that differ from the operands only in letter case are different fields
        vec![("a".into(), "1".into())],
        vec![("a".into(), "1".into()), ("B".into(), "2".into()), ("b".into(), "3".into())],
    ];
    let maxlen = if thorough { 4 } else { 3 };
    for h in lists_upto(&opsyms, maxlen) {
        if h.is_empty() {
            continue;
        }
        for st in &starts {
            out.req("deb.lhist", &[enc_items(st), h.join(",")]);
        }
    }
}

const LNAMES: [&str; 6] = ["A", "B", "Source", "X-Y", "A", "b"];
const LWORDS: [&str; 6] = ["v", "1.0-1", "x: y", "a b", "#n", "é"];

/// a lenient document: 1-3 paragraphs of 1-3 fields from the line kinds field (`K: v`, `K:v`,
/// `K:`, `K:\tv `), spaced-colon field (`K : v`, `K\t:v`, lossless reader only), continuation,
/// white-space-only continuation, indented comment, top-level comment, blank line; final newline
/// present or absent
pub fn lenient_doc(rng: &mut Rng) -> String {
    let mut lines: Vec<String> = vec![];
    let lead = rng.below(10);
    if lead == 0 {
        lines.push(String::new());
    } else if lead == 1 {
        lines.push("#c".to_string());
    }
    let np = 1 + rng.below(3);
    for p in 0..np {
        if p > 0 {
            lines.push(String::new());
            if rng.chance(15) {
                lines.push(String::new());
            }
            if rng.chance(15) {
                lines.push("#c".to_string());
            }
        }
        let nf = 1 + rng.below(3);
        for _ in 0..nf {
            let k = *rng.pick(&LNAMES);
            let v = *rng.pick(&LWORDS);
            let first = if rng.chance(12) {
                match rng.below(4) {
                    0 => format!("{} : {}", k, v),
                    1 => format!("{}\t:{}", k, v),
                    2 => format!("{} :", k),
                    _ => format!("{} \t : {}", k, v),
                }
            } else {
                match rng.below(5) {
                    0 | 1 => format!("{}: {}", k, v),
                    2 => format!("{}:{}", k, v),
                    3 => format!("{}:", k),
                    _ => format!("{}:\t{} ", k, v),
                }
            };
            lines.push(first);
            let extra = rng.below(4);
            for _ in 0..extra {
                let l = match rng.below(12) {
                    0..=4 => format!(" {}", rng.pick(&LWORDS)),
                    5 => format!("\t{} ", rng.pick(&LWORDS)),
                    6 => " ".to_string(),
                    7 => (*rng.pick(&["\t", "  "])).to_string(),
                    8 => " #c".to_string(),
                    9 => "  # c".to_string(),
                    10 => "#c".to_string(),
                    _ => " .".to_string(),
                };
                lines.push(l);
            }
        }
    }
    let mut t = lines.join("\n");
    if rng.chance(75) {
        t.push('\n');
    }
    t
}

pub fn generate_c06(tier: &str, seed: u64, out: &mut Out) {
    for t in gen_texts(tier, seed) {
        out.req("deb.both", &[es(&t)]);
    }
    for t in crate::deb::block_boundary_docs() {
        out.req("deb.both", &[es(&t)]);
    }
    // names that differ only in letter case are different fields, in both readers
    for t in ["Foo: first\nfoo: second\n", "foo: 1\nFOO: 2\nFoo: 3\n\nA: x\na: y\n", "Package: a\npackage: b\nPACKAGE: c", "a: 1\nA:\n 2\n"] {
        out.req("deb.both", &[es(t)]);
    }
    let thorough = tier == "thorough";
    // lenient documents (what either reader tolerates beyond the well-formed documents of
    // `deb.docl`), each also with "\r\n" and with "\r" for every "\n": no expectation of their
    // own, model = code and the clauses of `deb.both`
    let mut lrng = Rng::new(seed ^ 0xC06_1E);
    let nl = if thorough { 200_000 } else { 1_500 };
    for _ in 0..nl {
        let t = lenient_doc(&mut lrng);
        out.req("deb.both", &[es(&t)]);
        out.req("deb.both", &[es(&t.replace('\n', "\r\n"))]);
        out.req("deb.both", &[es(&t.replace('\n', "\r"))]);
    }
    let mut rng = Rng::new(seed ^ 0xC06);
    let n = if thorough { 1_500_000 } else { 20_000 };
    for _ in 0..n {
        let ls = docspec::random_lines(&mut rng, true);
        let fnl = if rng.chance(75) { "1" } else { "0" };
        out.req("deb.docl", &[docspec::enc_lines(&ls), fnl.to_string()]);
    }
}
