//! C15: typed accessors of the lossless views — what a setter writes, its getter reads; nothing else moves.
//!
//! ops
//!   acc.setget <view> <accessor> <doc> <idx> <value>   real setter then real getter on paragraph <idx> of <doc>
//!   acc.get    <view> <getter> <doc> <idx> [<want>]    real getter on parsed text (<want>: documented reading of a
//!                                                      well-formed list field, checked by the oracle)
//!   acc.seq    <view> <doc> <idx> <acc=value;…>        several setters on one paragraph, then every getter
//!   acc.row    <view> <method>                         translator row (harness/gen/accessors.json) against the real method
//!   acc.ctl.find <doc> | acc.ctl.add <doc> <source|binary> <name>      Control::{source,binaries,add_source,add_binary}
//!   acc.cpr.find <doc> | acc.cpr.fix <doc>                             Copyright::{header,iter_files,iter_licenses}, Header::fix
//!
//! values on the wire: `none` | `x<hex>` (a string, or a typed value by its to_string()) | `l<x..,x..>` list
//! | `b0`/`b1` | `L.N.x..` / `L.NT.x...x..` / `L.T.x..` | `O.<Category|->.<Commit|Other>.x..`; a getter
//! that panics reports `PANIC`.
//!
//! The oracle (worker side, on the real code): the getter returns the value just set; the field name(s)
//! the translator extracted hold exactly one field afterwards (none after clearing); every other field,
//! every comment line and every other paragraph is unchanged and in place; the printed text re-parses to
//! the same fields.
use crate::deb::enc_items;
use crate::util::*;
use crate::Resp;
use chrono::{DateTime, FixedOffset, NaiveDate};
use deb822_lossless::Deb822;
use debian_control::fields::{Md5Checksum, MultiArch, Priority, Sha1Checksum, Sha256Checksum, Sha512Checksum, Urgency};
use debian_control::lossless::relations::Relations;
use debian_control::lossless::{apt, buildinfo, changes, control};
use debian_copyright::lossless::Copyright;
use debian_copyright::License;
use debversion::Version;
use dep3::lossless::PatchHeader;
use dep3::{AppliedUpstream, Forwarded, Origin, OriginCategory};
use rowan::ast::AstNode;
use std::collections::HashMap;
use std::panic::{catch_unwind, AssertUnwindSafe};
use std::str::FromStr;
use std::sync::OnceLock;
use url::Url;

// ------------------------------------------------------------------ translator table (JSON)

const ACC_JSON: &str = include_str!("../gen/accessors.json");

#[derive(Debug, Clone)]
enum J {
    Null,
    Bool(bool),
    Num,
    Str(String),
    Arr(Vec<J>),
    Obj(Vec<(String, J)>),
}

struct JP<'a> {
    b: &'a [u8],
    i: usize,
}
impl<'a> JP<'a> {
    fn ws(&mut self) {
        while self.i < self.b.len() && (self.b[self.i] as char).is_ascii_whitespace() {
            self.i += 1;
        }
    }
    fn val(&mut self) -> Result<J, String> {
        self.ws();
        match self.b.get(self.i) {
            Some(b'{') => {
                self.i += 1;
                let mut o = vec![];
                loop {
                    self.ws();
                    if self.b.get(self.i) == Some(&b'}') {
                        self.i += 1;
                        break;
                    }
                    let k = match self.val()? {
                        J::Str(s) => s,
                        _ => return Err("object key".into()),
                    };
                    self.ws();
                    if self.b.get(self.i) != Some(&b':') {
                        return Err("expected :".into());
                    }
                    self.i += 1;
                    let v = self.val()?;
                    o.push((k, v));
                    self.ws();
                    if self.b.get(self.i) == Some(&b',') {
                        self.i += 1;
                    }
                }
                Ok(J::Obj(o))
            }
            Some(b'[') => {
                self.i += 1;
                let mut a = vec![];
                loop {
                    self.ws();
                    if self.b.get(self.i) == Some(&b']') {
                        self.i += 1;
                        break;
                    }
                    a.push(self.val()?);
                    self.ws();
                    if self.b.get(self.i) == Some(&b',') {
                        self.i += 1;
                    }
                }
                Ok(J::Arr(a))
            }
            Some(b'"') => {
                self.i += 1;
                let mut units: Vec<u16> = vec![];
                loop {
                    let c = *self.b.get(self.i).ok_or("eof in string")?;
                    self.i += 1;
                    match c {
                        b'"' => break,
                        b'\\' => {
                            let e = *self.b.get(self.i).ok_or("eof in escape")?;
                            self.i += 1;
                            let ch = match e {
                                b'n' => '\n',
                                b't' => '\t',
                                b'r' => '\r',
                                b'b' => '\u{8}',
                                b'f' => '\u{c}',
                                b'/' => '/',
                                b'\\' => '\\',
                                b'"' => '"',
                                b'u' => {
                                    let h = std::str::from_utf8(&self.b[self.i..self.i + 4]).map_err(|e| e.to_string())?;
                                    self.i += 4;
                                    units.push(u16::from_str_radix(h, 16).map_err(|e| e.to_string())?);
                                    continue;
                                }
                                _ => return Err("bad escape".into()),
                            };
                            let mut buf = [0u16; 2];
                            units.extend_from_slice(ch.encode_utf16(&mut buf));
                        }
                        _ => units.push(c as u16), // ensure_ascii output
                    }
                }
                String::from_utf16(&units).map(J::Str).map_err(|e| e.to_string())
            }
            Some(b'n') => {
                self.i += 4;
                Ok(J::Null)
            }
            Some(b't') => {
                self.i += 4;
                Ok(J::Bool(true))
            }
            Some(b'f') => {
                self.i += 5;
                Ok(J::Bool(false))
            }
            Some(_) => {
                while self.i < self.b.len() && b"+-0123456789.eE".contains(&self.b[self.i]) {
                    self.i += 1;
                }
                Ok(J::Num)
            }
            None => Err("eof".into()),
        }
    }
}
impl J {
    fn get(&self, k: &str) -> &J {
        if let J::Obj(o) = self {
            for (kk, v) in o {
                if kk == k {
                    return v;
                }
            }
        }
        &J::Null
    }
    fn str(&self) -> String {
        if let J::Str(s) = self {
            s.clone()
        } else {
            String::new()
        }
    }
    fn boolean(&self) -> bool {
        matches!(self, J::Bool(true))
    }
    fn arr(&self) -> &[J] {
        if let J::Arr(a) = self {
            a
        } else {
            &[]
        }
    }
}

#[derive(Debug, Clone)]
pub struct Row {
    pub view: String,
    pub method: String,
    pub kind: String,
    pub op: String,
    pub clear_op: String,
    pub names: Vec<String>,
    pub tag: String,
    pub sep: String,
    pub trim: bool,
    /// element type of a list shape / value type of a typed shape ("str" for plain strings)
    pub ty: String,
    pub strict: bool,
    pub absent: String,
    pub optional: bool,
    /// setter: the name written when none of `names` is present
    pub dflt: String,
}

fn rows() -> &'static Vec<Row> {
    static T: OnceLock<Vec<Row>> = OnceLock::new();
    T.get_or_init(|| {
        let j = JP { b: ACC_JSON.as_bytes(), i: 0 }.val().expect("harness/gen/accessors.json");
        j.get("rows")
            .arr()
            .iter()
            .map(|r| {
                let sh = r.get("shape");
                let tag = sh.get("tag").str();
                let ty = if tag == "list" { sh.get("elem").str() } else { sh.get("ty").str() };
                Row {
                    view: r.get("view").str(),
                    method: r.get("method").str(),
                    kind: r.get("kind").str(),
                    op: r.get("op").str(),
                    clear_op: r.get("clear_op").str(),
                    names: r.get("names").arr().iter().map(|n| n.str()).collect(),
                    tag,
                    sep: sh.get("sep").str(),
                    trim: sh.get("trim").boolean(),
                    ty,
                    strict: r.get("strict").boolean(),
                    absent: r.get("absent").str(),
                    optional: r.get("optional").boolean(),
                    dflt: r.get("default").str(),
                }
            })
            .collect()
    })
}

fn row(view: &str, method: &str) -> Option<&'static Row> {
    rows().iter().find(|r| r.view == view && r.method == method)
}

/// the argument the `custom!` lines pass for the field-name parameter of a method (mirrored by
/// `harnessArg` in lean/Deb822Verif/Driver/Typed.lean)
fn harness_arg(view: &str, method: &str) -> Option<&'static str> {
    match (view, method) {
        ("apt.Package", "tags") | ("apt.Package", "set_tags") => Some("Tag"),
        ("dep3.PatchHeader", "set_vendor_bug") => Some("Debian"),
        _ => None,
    }
}

/// instantiate a name template `pre{param}post`
fn inst_name(template: &str, arg: Option<&str>) -> String {
    match (template.find('{'), template.find('}'), arg) {
        (Some(a), Some(b), Some(arg)) if a < b => format!("{}{}{}", &template[..a], arg, &template[b + 1..]),
        _ => template.to_string(),
    }
}

fn show_row(r: &Row) -> String {
    let shape = match r.tag.as_str() {
        "typed" => format!("typed:{}", r.ty),
        "list" => format!("list:{}:{}:{}", r.sep, ebool(r.trim), r.ty),
        "filterParaWithout" => format!("filterParaWithout:{}", r.ty),
        "filterParaWithoutTail" => format!("filterParaWithoutTail:{}", r.ty),
        t => t.to_string(),
    };
    format!(
        "{} {} {} [{}] {} {} {} {} {}",
        r.kind,
        r.op,
        r.clear_op,
        elist(&r.names),
        shape,
        ebool(r.strict),
        r.absent,
        ebool(r.optional),
        es(&r.dflt)
    )
}

// ------------------------------------------------------------------ values on the wire

trait Wire: Sized {
    fn dec(s: &str) -> Option<Self>;
    fn enc(&self) -> String;
    /// edit the value in place where the type is a live tree (Relations): used to check that a value
    /// a getter returned earlier does not alias what a later getter call returns
    fn poke(&mut self) {}
}

thread_local! {
    static ALIAS_FAIL: std::cell::RefCell<Option<String>> = const { std::cell::RefCell::new(None) };
}

/// a getter is a function of the raw field: call it, edit the returned value in place, call it
/// again — the second reading must be the first one (after seeded change C15-r6m1: a cache that
/// hands out the same mutable tree for the same field text)
fn get_twice<T: Wire>(mut f: impl FnMut() -> T) -> String {
    let mut x = f();
    let e1 = x.enc();
    x.poke();
    let e2 = f().enc();
    if e1 != e2 {
        ALIAS_FAIL.with(|a| {
            *a.borrow_mut() = Some(format!("getter result changed after a value it returned earlier was edited in place: {} then {}", e1, e2))
        });
    }
    e1
}

/// an element of a list value / a value carried by its text form
trait Elem: Sized {
    fn from_text(s: &str) -> Option<Self>;
    fn to_text(&self) -> String;
}

impl Elem for String {
    fn from_text(s: &str) -> Option<Self> {
        Some(s.to_string())
    }
    fn to_text(&self) -> String {
        self.clone()
    }
}

macro_rules! elem_display {
    ($($t:ty),*) => {$(
        impl Elem for $t {
            fn from_text(s: &str) -> Option<Self> { <$t as FromStr>::from_str(s).ok() }
            fn to_text(&self) -> String { self.to_string() }
        }
    )*};
}
elem_display!(Priority, MultiArch, Urgency, Version, Url, Relations, Forwarded, AppliedUpstream, usize,
    Md5Checksum, Sha1Checksum, Sha256Checksum, Sha512Checksum, changes::File);

impl Elem for DateTime<FixedOffset> {
    fn from_text(s: &str) -> Option<Self> {
        DateTime::parse_from_rfc2822(s).ok()
    }
    fn to_text(&self) -> String {
        self.to_rfc2822()
    }
}
impl Elem for NaiveDate {
    fn from_text(s: &str) -> Option<Self> {
        NaiveDate::parse_from_str(s, "%Y-%m-%d").ok()
    }
    fn to_text(&self) -> String {
        self.format("%Y-%m-%d").to_string()
    }
}

macro_rules! wire_elem {
    ($($t:ty),*) => {$(
        impl Wire for $t {
            fn dec(s: &str) -> Option<Self> { <$t as Elem>::from_text(&ds(s)?) }
            fn enc(&self) -> String { es(&self.to_text()) }
        }
    )*};
}
wire_elem!(String, Priority, MultiArch, Urgency, Version, Url, Forwarded, AppliedUpstream, usize,
    DateTime<FixedOffset>, NaiveDate);

impl Wire for Relations {
    fn dec(s: &str) -> Option<Self> {
        <Relations as Elem>::from_text(&ds(s)?)
    }
    fn enc(&self) -> String {
        es(&self.to_text())
    }
    fn poke(&mut self) {
        if let Ok(e) = "zz-poked (= 9)".parse::<debian_control::lossless::relations::Entry>() {
            self.push(e);
        }
    }
}

impl<T: Elem> Wire for Vec<T> {
    fn dec(s: &str) -> Option<Self> {
        let body = s.strip_prefix('l')?;
        dlist(body)?.iter().map(|t| T::from_text(t)).collect()
    }
    fn enc(&self) -> String {
        format!("l{}", elist(&self.iter().map(|t| t.to_text()).collect::<Vec<_>>()))
    }
}

impl<T: Wire> Wire for Option<T> {
    fn poke(&mut self) {
        if let Some(v) = self {
            v.poke();
        }
    }
    fn dec(s: &str) -> Option<Self> {
        if s == "none" {
            Some(None)
        } else {
            T::dec(s).map(Some)
        }
    }
    fn enc(&self) -> String {
        match self {
            None => "none".to_string(),
            Some(v) => v.enc(),
        }
    }
}

impl Wire for bool {
    fn dec(s: &str) -> Option<Self> {
        match s {
            "b0" => Some(false),
            "b1" => Some(true),
            _ => None,
        }
    }
    fn enc(&self) -> String {
        if *self { "b1" } else { "b0" }.to_string()
    }
}

impl Wire for License {
    fn dec(s: &str) -> Option<Self> {
        let f: Vec<&str> = s.split('.').collect();
        match f.as_slice() {
            ["L", "N", n] => Some(License::Name(ds(n)?)),
            ["L", "T", t] => Some(License::Text(ds(t)?)),
            ["L", "NT", n, t] => Some(License::Named(ds(n)?, ds(t)?)),
            _ => None,
        }
    }
    fn enc(&self) -> String {
        match self {
            License::Name(n) => format!("L.N.{}", es(n)),
            License::Text(t) => format!("L.T.{}", es(t)),
            License::Named(n, t) => format!("L.NT.{}.{}", es(n), es(t)),
        }
    }
}

impl Wire for (Option<OriginCategory>, Origin) {
    fn dec(s: &str) -> Option<Self> {
        let f: Vec<&str> = s.split('.').collect();
        match f.as_slice() {
            ["O", c, k, t] => {
                let cat = match *c {
                    "-" => None,
                    "Backport" => Some(OriginCategory::Backport),
                    "Vendor" => Some(OriginCategory::Vendor),
                    "Upstream" => Some(OriginCategory::Upstream),
                    "Other" => Some(OriginCategory::Other),
                    _ => return None,
                };
                let o = match *k {
                    "Commit" => Origin::Commit(ds(t)?),
                    "Other" => Origin::Other(ds(t)?),
                    _ => return None,
                };
                Some((cat, o))
            }
            _ => None,
        }
    }
    fn enc(&self) -> String {
        let c = match &self.0 {
            None => "-".to_string(),
            Some(c) => format!("{:?}", c),
        };
        match &self.1 {
            Origin::Commit(t) => format!("O.{}.Commit.{}", c, es(t)),
            Origin::Other(t) => format!("O.{}.Other.{}", c, es(t)),
        }
    }
}

/// environment: list of `KEY=value`, sorted
impl Wire for HashMap<String, String> {
    fn dec(s: &str) -> Option<Self> {
        let body = s.strip_prefix('l')?;
        let mut m = HashMap::new();
        for kv in dlist(body)? {
            let (k, v) = kv.split_once('=')?;
            m.insert(k.replace('\u{2261}', "="), v.to_string());
        }
        Some(m)
    }
    fn enc(&self) -> String {
        // a '=' inside a KEY is written as U+2261 so that {"B": "x=y"} and {"B=x": "y"} differ on the wire
        let mut l: Vec<String> = self.iter().map(|(k, v)| format!("{}={}", k.replace('=', "\u{2261}"), v)).collect();
        l.sort();
        format!("l{}", elist(&l))
    }
}

// ------------------------------------------------------------------ hosts and views

enum Host {
    Doc(Deb822),
    Cpr(Copyright),
    Dep3(PatchHeader),
    Chg(changes::Changes),
}

fn host_for(view: &str, text: &str) -> Option<Host> {
    if view.starts_with("copyright.") {
        Copyright::from_str(text).ok().map(Host::Cpr)
    } else if view == "dep3.PatchHeader" {
        PatchHeader::from_str(text).ok().map(Host::Dep3)
    } else if view == "changes.Changes" {
        changes::Changes::read(text.as_bytes()).ok().map(Host::Chg)
    } else {
        Deb822::from_str(text).ok().map(Host::Doc)
    }
}

fn host_text(h: &Host) -> Option<String> {
    match h {
        Host::Doc(d) => Some(d.to_string()),
        Host::Cpr(c) => Some(c.to_string()),
        Host::Dep3(p) => Some(p.as_deb822().syntax().ancestors().last().unwrap().text().to_string()),
        Host::Chg(_) => None,
    }
}

type Items = Vec<(String, String)>;

fn parse_items(text: &str) -> Option<Vec<Items>> {
    Deb822::from_str(text).ok().map(|d| d.paragraphs().map(|p| p.items().collect()).collect())
}

/// items of the target paragraph through the live handle (where the view gives one)
fn live_items(h: &Host, idx: usize) -> Option<Items> {
    match h {
        Host::Doc(d) => d.paragraphs().nth(idx).map(|p| p.items().collect()),
        Host::Dep3(p) if idx == 0 => Some(p.as_deb822().items().collect()),
        _ => None,
    }
}

/// position of paragraph `idx` among the paragraphs satisfying `pred`
fn nth_among(c: &Copyright, idx: usize, pred: fn(&Items) -> bool) -> Option<usize> {
    let paras = parse_items(&c.to_string())?;
    if !pred(paras.get(idx)?) {
        return None;
    }
    Some(paras[..idx].iter().filter(|p| pred(p)).count())
}

fn has(p: &Items, k: &str) -> bool {
    p.iter().any(|f| f.0 == k)
}
fn is_files(p: &Items) -> bool {
    has(p, "Files")
}
fn is_license(p: &Items) -> bool {
    !has(p, "Files") && has(p, "License")
}

macro_rules! doc_view {
    ($h:expr, $i:expr, $v:ident, $ctor:expr, $body:expr) => {
        match $h {
            Host::Doc(d) => {
                #[allow(unused_mut)]
                let mut $v = $ctor(d.paragraphs().nth($i)?);
                Some($body)
            }
            _ => None,
        }
    };
}

macro_rules! with_view {
    (control_Source, $h:expr, $i:expr, $v:ident, $body:expr) => { doc_view!($h, $i, $v, control::Source::from, $body) };
    (control_Binary, $h:expr, $i:expr, $v:ident, $body:expr) => { doc_view!($h, $i, $v, control::Binary::from, $body) };
    (apt_Source, $h:expr, $i:expr, $v:ident, $body:expr) => { doc_view!($h, $i, $v, apt::Source::from, $body) };
    (apt_Package, $h:expr, $i:expr, $v:ident, $body:expr) => { doc_view!($h, $i, $v, apt::Package::new, $body) };
    (apt_Release, $h:expr, $i:expr, $v:ident, $body:expr) => { doc_view!($h, $i, $v, apt::Release::new, $body) };
    (buildinfo_Buildinfo, $h:expr, $i:expr, $v:ident, $body:expr) => { doc_view!($h, $i, $v, buildinfo::Buildinfo::from, $body) };
    (changes_Changes, $h:expr, $i:expr, $v:ident, $body:expr) => {
        match $h {
            Host::Chg(x) if $i == 0 => {
                let $v = x;
                Some($body)
            }
            _ => None,
        }
    };
    (dep3_PatchHeader, $h:expr, $i:expr, $v:ident, $body:expr) => {
        match $h {
            Host::Dep3(x) if $i == 0 => {
                let $v = x;
                Some($body)
            }
            _ => None,
        }
    };
    (copyright_Header, $h:expr, $i:expr, $v:ident, $body:expr) => {
        match $h {
            Host::Cpr(c) if $i == 0 => {
                #[allow(unused_mut)]
                let mut $v = c.header()?;
                Some($body)
            }
            _ => None,
        }
    };
    (copyright_FilesParagraph, $h:expr, $i:expr, $v:ident, $body:expr) => {
        match $h {
            Host::Cpr(c) => {
                let j = nth_among(c, $i, is_files)?;
                #[allow(unused_mut)]
                let mut $v = c.iter_files().nth(j)?;
                Some($body)
            }
            _ => None,
        }
    };
    (copyright_LicenseParagraph, $h:expr, $i:expr, $v:ident, $body:expr) => {
        match $h {
            Host::Cpr(c) => {
                let j = nth_among(c, $i, is_license)?;
                #[allow(unused_mut)]
                let mut $v = c.iter_licenses().nth(j)?;
                Some($body)
            }
            _ => None,
        }
    };
}

macro_rules! pass {
    (val, $v:ident, $set:ident, $x:ident) => { $v.$set($x) };
    (str, $v:ident, $set:ident, $x:ident) => { $v.$set(&$x) };
    (optstr, $v:ident, $set:ident, $x:ident) => { $v.$set($x.as_deref()) };
    (refv, $v:ident, $set:ident, $x:ident) => { $v.$set(&$x) };
    (optref, $v:ident, $set:ident, $x:ident) => { $v.$set($x.as_ref()) };
    (slice, $v:ident, $set:ident, $x:ident) => {{
        let r: Vec<&str> = $x.iter().map(|s| s.as_str()).collect();
        $v.$set(&r)
    }};
    (origin, $v:ident, $set:ident, $x:ident) => { $v.$set($x.0, $x.1) };
}

type GetFn = fn(&mut Host, usize) -> Option<String>;
type SetFn = fn(&mut Host, usize, &str) -> Option<()>;
type CanonFn = fn(&str) -> Option<String>;

pub struct Acc {
    view: &'static str,
    getter: Option<&'static str>,
    setter: Option<&'static str>,
    get: Option<GetFn>,
    set: Option<SetFn>,
    /// decode + encode of a wire value of the accessor's type
    canon: Option<CanonFn>,
    /// Rust type of the value (text), for the value generators
    wire: &'static str,
    /// field names, for accessors whose table row is opaque (parametric names)
    names: &'static [&'static str],
}

impl Acc {
    /// the name requests address the accessor by: the getter, or the setter when there is none
    fn name(&self) -> &'static str {
        self.getter.or(self.setter).unwrap()
    }
}

macro_rules! acc {
    ($vid:ident, $view:literal, $get:ident, $set:ident, $ty:ty, $mode:ident) => {
        Acc {
            view: $view,
            getter: Some(stringify!($get)),
            setter: Some(stringify!($set)),
            get: Some(|h, i| with_view!($vid, h, i, v, get_twice(|| v.$get()))),
            set: Some(|h, i, val| {
                let x = <$ty as Wire>::dec(val)?;
                with_view!($vid, h, i, v, { pass!($mode, v, $set, x); })
            }),
            canon: Some(|val| Some(<$ty as Wire>::dec(val)?.enc())),
            wire: stringify!($ty),
            names: &[],
        }
    };
}

macro_rules! getter {
    ($vid:ident, $view:literal, $get:ident) => {
        Acc {
            view: $view,
            getter: Some(stringify!($get)),
            setter: None,
            get: Some(|h, i| with_view!($vid, h, i, v, get_twice(|| v.$get()))),
            set: None,
            canon: None,
            wire: "",
            names: &[],
        }
    };
}

/// hand-written closures for the accessors with extra arguments / iterator results
macro_rules! custom {
    ($vid:ident, $view:literal, $get:expr, $set:expr, $getf:expr, $setf:expr, $ty:ty, $names:expr) => {
        Acc {
            view: $view,
            getter: $get,
            setter: $set,
            get: Some(|h, i| with_view!($vid, h, i, v, ($getf)(std::borrow::Borrow::borrow(&v)))),
            set: $setf,
            canon: Some(|val| Some(<$ty as Wire>::dec(val)?.enc())),
            wire: stringify!($ty),
            names: $names,
        }
    };
}

fn vcs_text(v: Option<debian_control::vcs::Vcs>) -> String {
    v.map(|x| {
        let (n, val) = x.to_field();
        format!("{} {}", n, val)
    })
    .enc()
}

fn registry() -> &'static Vec<Acc> {
    static R: OnceLock<Vec<Acc>> = OnceLock::new();
    R.get_or_init(|| {
        vec![
    acc!(control_Source, "control.Source", name, set_name, String, str),
    acc!(control_Source, "control.Source", section, set_section, Option<String>, optstr),
    acc!(control_Source, "control.Source", priority, set_priority, Option<Priority>, val),
    acc!(control_Source, "control.Source", maintainer, set_maintainer, String, str),
    acc!(control_Source, "control.Source", build_depends, set_build_depends, Relations, refv),
    getter!(control_Source, "control.Source", build_depends_indep),
    getter!(control_Source, "control.Source", build_depends_arch),
    getter!(control_Source, "control.Source", build_conflicts),
    getter!(control_Source, "control.Source", build_conflicts_indep),
    getter!(control_Source, "control.Source", build_conflicts_arch),
    acc!(control_Source, "control.Source", standards_version, set_standards_version, String, str),
    acc!(control_Source, "control.Source", homepage, set_homepage, Url, refv),
    acc!(control_Source, "control.Source", vcs_git, set_vcs_git, String, str),
    acc!(control_Source, "control.Source", vcs_svn, set_vcs_svn, String, str),
    acc!(control_Source, "control.Source", vcs_bzr, set_vcs_bzr, String, str),
    acc!(control_Source, "control.Source", vcs_arch, set_vcs_arch, String, str),
    acc!(control_Source, "control.Source", vcs_svk, set_vcs_svk, String, str),
    acc!(control_Source, "control.Source", vcs_darcs, set_vcs_darcs, String, str),
    acc!(control_Source, "control.Source", vcs_mtn, set_vcs_mtn, String, str),
    acc!(control_Source, "control.Source", vcs_cvs, set_vcs_cvs, String, str),
    acc!(control_Source, "control.Source", vcs_hg, set_vcs_hg, String, str),
    acc!(control_Source, "control.Source", vcs_browser, set_vcs_browser, Option<String>, optstr),
    acc!(control_Source, "control.Source", uploaders, set_uploaders, Vec<String>, slice),
    acc!(control_Source, "control.Source", architecture, set_architecture, Option<String>, optstr),
    acc!(control_Source, "control.Source", rules_requires_root, set_rules_requires_root, bool, val),
    acc!(control_Source, "control.Source", testsuite, set_testsuite, String, str),
    acc!(control_Binary, "control.Binary", name, set_name, String, str),
    acc!(control_Binary, "control.Binary", section, set_section, Option<String>, optstr),
    acc!(control_Binary, "control.Binary", priority, set_priority, Option<Priority>, val),
    acc!(control_Binary, "control.Binary", architecture, set_architecture, Option<String>, optstr),
    acc!(control_Binary, "control.Binary", depends, set_depends, Option<Relations>, optref),
    acc!(control_Binary, "control.Binary", recommends, set_recommends, Option<Relations>, optref),
    acc!(control_Binary, "control.Binary", suggests, set_suggests, Option<Relations>, optref),
    acc!(control_Binary, "control.Binary", enhances, set_enhances, Option<Relations>, optref),
    acc!(control_Binary, "control.Binary", pre_depends, set_pre_depends, Option<Relations>, optref),
    acc!(control_Binary, "control.Binary", breaks, set_breaks, Option<Relations>, optref),
    acc!(control_Binary, "control.Binary", conflicts, set_conflicts, Option<Relations>, optref),
    acc!(control_Binary, "control.Binary", replaces, set_replaces, Option<Relations>, optref),
    acc!(control_Binary, "control.Binary", provides, set_provides, Option<Relations>, optref),
    acc!(control_Binary, "control.Binary", built_using, set_built_using, Option<Relations>, optref),
    acc!(control_Binary, "control.Binary", multi_arch, set_multi_arch, Option<MultiArch>, val),
    acc!(control_Binary, "control.Binary", essential, set_essential, bool, val),
    acc!(control_Binary, "control.Binary", description, set_description, Option<String>, optstr),
    acc!(control_Binary, "control.Binary", homepage, set_homepage, Url, refv),
    acc!(apt_Source, "apt.Source", package, set_package, String, str),
    acc!(apt_Source, "apt.Source", version, set_version, Version, val),
    acc!(apt_Source, "apt.Source", maintainer, set_maintainer, String, str),
    acc!(apt_Source, "apt.Source", uploaders, set_uploaders, Vec<String>, val),
    acc!(apt_Source, "apt.Source", standards_version, set_standards_version, String, str),
    acc!(apt_Source, "apt.Source", format, set_format, String, str),
    acc!(apt_Source, "apt.Source", vcs_browser, set_vcs_browser, String, str),
    acc!(apt_Source, "apt.Source", vcs_git, set_vcs_git, String, str),
    acc!(apt_Source, "apt.Source", vcs_svn, set_vcs_svn, String, str),
    acc!(apt_Source, "apt.Source", vcs_hg, set_vcs_hg, String, str),
    acc!(apt_Source, "apt.Source", vcs_bzr, set_vcs_bzr, String, str),
    acc!(apt_Source, "apt.Source", vcs_arch, set_vcs_arch, String, str),
    acc!(apt_Source, "apt.Source", vcs_svk, set_vcs_svk, String, str),
    acc!(apt_Source, "apt.Source", vcs_darcs, set_vcs_darcs, String, str),
    acc!(apt_Source, "apt.Source", vcs_mtn, set_vcs_mtn, String, str),
    acc!(apt_Source, "apt.Source", vcs_cvs, set_vcs_cvs, String, str),
    acc!(apt_Source, "apt.Source", build_depends, set_build_depends, Relations, val),
    acc!(apt_Source, "apt.Source", build_depends_indep, set_build_depends_indep, Relations, val),
    acc!(apt_Source, "apt.Source", build_depends_arch, set_build_depends_arch, Relations, val),
    acc!(apt_Source, "apt.Source", build_conflicts, set_build_conflicts, Relations, val),
    acc!(apt_Source, "apt.Source", build_conflicts_indep, set_build_conflicts_indep, Relations, val),
    acc!(apt_Source, "apt.Source", build_conflicts_arch, set_build_conflicts_arch, Relations, val),
    acc!(apt_Source, "apt.Source", binary, set_binary, Relations, val),
    acc!(apt_Source, "apt.Source", homepage, set_homepage, String, str),
    acc!(apt_Source, "apt.Source", section, set_section, String, str),
    acc!(apt_Source, "apt.Source", priority, set_priority, Priority, val),
    acc!(apt_Source, "apt.Source", architecture, set_architecture, String, str),
    acc!(apt_Source, "apt.Source", directory, set_directory, String, str),
    acc!(apt_Source, "apt.Source", testsuite, set_testsuite, String, str),
    acc!(apt_Source, "apt.Source", files, set_files, Vec<Md5Checksum>, val),
    acc!(apt_Source, "apt.Source", checksums_sha1, set_checksums_sha1, Vec<Sha1Checksum>, val),
    acc!(apt_Source, "apt.Source", checksums_sha256, set_checksums_sha256, Vec<Sha256Checksum>, val),
    acc!(apt_Source, "apt.Source", checksums_sha512, set_checksums_sha512, Vec<Sha512Checksum>, val),
    acc!(apt_Package, "apt.Package", name, set_name, String, str),
    acc!(apt_Package, "apt.Package", version, set_version, Version, val),
    acc!(apt_Package, "apt.Package", installed_size, set_installed_size, usize, val),
    acc!(apt_Package, "apt.Package", maintainer, set_maintainer, String, str),
    acc!(apt_Package, "apt.Package", architecture, set_architecture, String, str),
    acc!(apt_Package, "apt.Package", depends, set_depends, Relations, val),
    acc!(apt_Package, "apt.Package", recommends, set_recommends, Relations, val),
    acc!(apt_Package, "apt.Package", suggests, set_suggests, Relations, val),
    acc!(apt_Package, "apt.Package", enhances, set_enhances, Relations, val),
    acc!(apt_Package, "apt.Package", pre_depends, set_pre_depends, Relations, val),
    acc!(apt_Package, "apt.Package", breaks, set_breaks, Relations, val),
    acc!(apt_Package, "apt.Package", conflicts, set_conflicts, Relations, val),
    acc!(apt_Package, "apt.Package", replaces, set_replaces, Relations, val),
    acc!(apt_Package, "apt.Package", provides, set_provides, Relations, val),
    acc!(apt_Package, "apt.Package", section, set_section, String, str),
    acc!(apt_Package, "apt.Package", priority, set_priority, Priority, val),
    acc!(apt_Package, "apt.Package", description, set_description, String, str),
    acc!(apt_Package, "apt.Package", homepage, set_homepage, Url, refv),
    acc!(apt_Package, "apt.Package", source, set_source, String, str),
    acc!(apt_Package, "apt.Package", description_md5, set_description_md5, String, str),
    acc!(apt_Package, "apt.Package", filename, set_filename, String, str),
    acc!(apt_Package, "apt.Package", size, set_size, usize, val),
    acc!(apt_Package, "apt.Package", md5sum, set_md5sum, String, str),
    acc!(apt_Package, "apt.Package", sha256, set_sha256, String, str),
    acc!(apt_Package, "apt.Package", multi_arch, set_multi_arch, MultiArch, val),
    acc!(apt_Release, "apt.Release", origin, set_origin, String, str),
    acc!(apt_Release, "apt.Release", label, set_label, String, str),
    acc!(apt_Release, "apt.Release", suite, set_suite, String, str),
    acc!(apt_Release, "apt.Release", codename, set_codename, String, str),
    acc!(apt_Release, "apt.Release", changelogs, set_changelogs, Vec<String>, val),
    acc!(apt_Release, "apt.Release", date, set_date, DateTime<FixedOffset>, val),
    acc!(apt_Release, "apt.Release", valid_until, set_valid_until, DateTime<FixedOffset>, val),
    acc!(apt_Release, "apt.Release", acquire_by_hash, set_acquire_by_hash, bool, val),
    acc!(apt_Release, "apt.Release", no_support_for_architecture_all, set_no_support_for_architecture_all, bool, val),
    acc!(apt_Release, "apt.Release", architectures, set_architectures, Vec<String>, val),
    acc!(apt_Release, "apt.Release", components, set_components, Vec<String>, val),
    acc!(apt_Release, "apt.Release", description, set_description, String, str),
    acc!(apt_Release, "apt.Release", checksums_md5, set_checksums_md5, Vec<Md5Checksum>, val),
    acc!(apt_Release, "apt.Release", checksums_sha1, set_checksums_sha1, Vec<Sha1Checksum>, val),
    acc!(apt_Release, "apt.Release", checksums_sha256, set_checksums_sha256, Vec<Sha256Checksum>, val),
    acc!(apt_Release, "apt.Release", checksums_sha512, set_checksums_sha512, Vec<Sha512Checksum>, val),
    acc!(changes_Changes, "changes.Changes", format, set_format, String, str),
    getter!(changes_Changes, "changes.Changes", source),
    getter!(changes_Changes, "changes.Changes", binary),
    getter!(changes_Changes, "changes.Changes", architecture),
    getter!(changes_Changes, "changes.Changes", version),
    getter!(changes_Changes, "changes.Changes", distribution),
    getter!(changes_Changes, "changes.Changes", urgency),
    getter!(changes_Changes, "changes.Changes", maintainer),
    getter!(changes_Changes, "changes.Changes", changed_by),
    getter!(changes_Changes, "changes.Changes", description),
    getter!(changes_Changes, "changes.Changes", checksums_sha1),
    getter!(changes_Changes, "changes.Changes", checksums_sha256),
    getter!(changes_Changes, "changes.Changes", files),
    acc!(buildinfo_Buildinfo, "buildinfo.Buildinfo", source, set_source, String, str),
    acc!(buildinfo_Buildinfo, "buildinfo.Buildinfo", binaries, set_binaries, Vec<String>, val),
    acc!(buildinfo_Buildinfo, "buildinfo.Buildinfo", version, set_version, Version, val),
    acc!(buildinfo_Buildinfo, "buildinfo.Buildinfo", build_architecture, set_build_architecture, String, str),
    acc!(buildinfo_Buildinfo, "buildinfo.Buildinfo", architecture, set_architecture, String, str),
    acc!(buildinfo_Buildinfo, "buildinfo.Buildinfo", checksums_sha256, set_checksums_sha256, Vec<Sha256Checksum>, val),
    acc!(buildinfo_Buildinfo, "buildinfo.Buildinfo", checksums_sha1, set_checksums_sha1, Vec<Sha1Checksum>, val),
    acc!(buildinfo_Buildinfo, "buildinfo.Buildinfo", checksums_md5, set_checksums_md5, Vec<Md5Checksum>, val),
    acc!(buildinfo_Buildinfo, "buildinfo.Buildinfo", build_origin, set_build_origin, String, str),
    acc!(buildinfo_Buildinfo, "buildinfo.Buildinfo", build_date, set_build_date, String, str),
    acc!(buildinfo_Buildinfo, "buildinfo.Buildinfo", build_tainted_by, set_build_tainted_by, Vec<String>, val),
    acc!(buildinfo_Buildinfo, "buildinfo.Buildinfo", format, set_format, String, str),
    acc!(buildinfo_Buildinfo, "buildinfo.Buildinfo", build_path, set_build_path, String, str),
    acc!(buildinfo_Buildinfo, "buildinfo.Buildinfo", environment, set_environment, HashMap<String, String>, val),
    acc!(buildinfo_Buildinfo, "buildinfo.Buildinfo", installed_build_depends, set_installed_build_depends, Relations, val),
    getter!(copyright_Header, "copyright.Header", format_string),
    acc!(copyright_Header, "copyright.Header", upstream_name, set_upstream_name, String, str),
    acc!(copyright_Header, "copyright.Header", upstream_contact, set_upstream_contact, String, str),
    acc!(copyright_Header, "copyright.Header", source, set_source, String, str),
    acc!(copyright_Header, "copyright.Header", files_excluded, set_files_excluded, Vec<String>, slice),
    getter!(copyright_FilesParagraph, "copyright.FilesParagraph", files),
    acc!(copyright_FilesParagraph, "copyright.FilesParagraph", copyright, set_copyright, Vec<String>, slice),
    acc!(copyright_FilesParagraph, "copyright.FilesParagraph", comment, set_comment, String, str),
    acc!(copyright_FilesParagraph, "copyright.FilesParagraph", license, set_license, License, refv),
    getter!(copyright_LicenseParagraph, "copyright.LicenseParagraph", comment),
    getter!(copyright_LicenseParagraph, "copyright.LicenseParagraph", name),
    getter!(copyright_LicenseParagraph, "copyright.LicenseParagraph", text),
    acc!(dep3_PatchHeader, "dep3.PatchHeader", origin, set_origin, (Option<OriginCategory>, Origin), origin),
    acc!(dep3_PatchHeader, "dep3.PatchHeader", forwarded, set_forwarded, Forwarded, val),
    acc!(dep3_PatchHeader, "dep3.PatchHeader", author, set_author, String, str),
    getter!(dep3_PatchHeader, "dep3.PatchHeader", reviewed_by),
    acc!(dep3_PatchHeader, "dep3.PatchHeader", last_update, set_last_update, NaiveDate, val),
    acc!(dep3_PatchHeader, "dep3.PatchHeader", applied_upstream, set_applied_upstream, AppliedUpstream, val),
    acc!(dep3_PatchHeader, "dep3.PatchHeader", description, set_description, String, str),
    acc!(dep3_PatchHeader, "dep3.PatchHeader", long_description, set_long_description, String, str),

            // ---- accessors with extra arguments / iterator results (opaque table rows)
            custom!(control_Source, "control.Source", Some("vcs"), None, |v: &control::Source| vcs_text(v.vcs()), None, String, &[]),
            custom!(apt_Package, "apt.Package", Some("tags"), Some("set_tags"),
                |v: &apt::Package| v.tags("Tag").enc(),
                Some(|h, i, val| { let x = <Vec<String> as Wire>::dec(val)?; with_view!(apt_Package, h, i, v, { v.set_tags("Tag", x); }) }),
                Vec<String>, &["Tag"]),
            custom!(dep3_PatchHeader, "dep3.PatchHeader", None, Some("set_upstream_bug"),
                |v: &PatchHeader| v.bugs().find(|(k, _)| k.is_none()).map(|x| x.1).enc(),
                Some(|h, i, val| { let x = <String as Wire>::dec(val)?; with_view!(dep3_PatchHeader, h, i, v, { v.set_upstream_bug(&x); }) }),
                String, &[]),
            custom!(dep3_PatchHeader, "dep3.PatchHeader", None, Some("set_vendor_bug"),
                |v: &PatchHeader| v.vendor_bugs("Debian").next().enc(),
                Some(|h, i, val| { let x = <String as Wire>::dec(val)?; with_view!(dep3_PatchHeader, h, i, v, { v.set_vendor_bug("Debian", &x); }) }),
                String, &["Bug-Debian"]),
            custom!(dep3_PatchHeader, "dep3.PatchHeader", Some("bugs"), None,
                |v: &PatchHeader| v.bugs().map(|(k, u)| format!("{}={}", k.unwrap_or_default(), u)).collect::<Vec<String>>().enc(),
                None, String, &[]),
        ]
    })
}

fn find_acc(view: &str, name: &str) -> Option<&'static Acc> {
    registry().iter().find(|a| a.view == view && a.name() == name)
}

/// the table row of the writing side (names, clearing) and of the reading side
fn rows_of(a: &Acc) -> (Option<&'static Row>, Option<&'static Row>) {
    (a.getter.and_then(|g| row(a.view, g)), a.setter.and_then(|s| row(a.view, s)))
}

fn names_of(a: &Acc) -> Vec<String> {
    if !a.names.is_empty() {
        return a.names.iter().map(|s| s.to_string()).collect();
    }
    let (g, s) = rows_of(a);
    s.or(g).map(|r| r.names.clone()).unwrap_or_default()
}

fn call_get(a: &Acc, host: &mut Host, idx: usize) -> Option<String> {
    let f = a.get?;
    match catch_unwind(AssertUnwindSafe(|| f(host, idx))) {
        Ok(r) => r,
        Err(_) => Some("PANIC".to_string()),
    }
}

fn comment_lines(text: &str) -> Vec<&str> {
    text.split('\n').filter(|l| l.starts_with('#')).collect()
}

/// is this wire value the clearing argument of the setter
fn is_clearing(s: Option<&Row>, value: &str) -> bool {
    match s {
        Some(r) => (r.optional && value == "none") || (r.tag == "flagYesOrRemove" && value == "b0"),
        None => false,
    }
}

/// frame + single-field + re-parse oracle after setters were applied to paragraph `idx`;
/// `written`: (names of the accessor, cleared?) per accessor that was set
fn frame_oracle(before_text: &str, after_text: &str, idx: usize, live: Option<&Items>, written: &[(Vec<String>, bool)], single_call: bool) -> Option<String> {
    let before = parse_items(before_text)?;
    let after = match parse_items(after_text) {
        Some(a) => a,
        None => return Some(format!("printed text does not re-parse: {:?}", after_text)),
    };
    if let Some(l) = live {
        if after.get(idx) != Some(l) {
            return Some(format!("re-parse of the printed text reads {:?}, the live paragraph {:?}", after.get(idx), l));
        }
    }
    if before.len() != after.len() {
        return Some(format!("{} paragraphs before, {} after", before.len(), after.len()));
    }
    for (i, (b, a)) in before.iter().zip(after.iter()).enumerate() {
        if i != idx && a != b {
            return Some(format!("paragraph {} changed: {:?} -> {:?}", i, b, a));
        }
    }
    let (b, a) = (&before[idx], &after[idx]);
    let all: Vec<&String> = written.iter().flat_map(|w| w.0.iter()).collect();
    let rest = |p: &Items| -> Items { p.iter().filter(|f| !all.contains(&&f.0)).cloned().collect() };
    if rest(b) != rest(a) {
        return Some(format!("other fields changed: {:?} -> {:?}", rest(b), rest(a)));
    }
    for (names, cleared) in written {
        let cb = b.iter().filter(|f| names.contains(&f.0)).count();
        let ca = a.iter().filter(|f| names.contains(&f.0)).count();
        if *cleared {
            if ca != 0 {
                return Some(format!("{} field(s) named {:?} left after clearing", ca, names));
            }
            continue;
        }
        if ca != cb.max(1) {
            return Some(format!("{} field(s) named {:?} before, {} after (expected {})", cb, names, ca, cb.max(1)));
        }
        // one call: an existing field keeps its place, a new one goes last (a sequence may clear and re-add)
        let pos = |p: &Items| p.iter().position(|f| names.contains(&f.0));
        if cb > 0 && single_call && pos(a) != pos(b) {
            return Some(format!("field {:?} moved from position {:?} to {:?}", names, pos(b), pos(a)));
        }
        if cb == 0 && single_call && pos(a) != Some(a.len() - 1) {
            return Some(format!("new field {:?} not appended last", names));
        }
    }
    if comment_lines(before_text) != comment_lines(after_text) {
        return Some("comment lines changed".to_string());
    }
    None
}

// ------------------------------------------------------------------ raw samples for the row cross-check

fn typed_sample(ty: &str) -> &'static str {
    match ty {
        "Priority" => "optional",
        "MultiArch" => "same",
        "Urgency" => "low",
        "Relations" => "foo (>= 1.0), bar",
        "Version" => "1.0-1",
        "Url" => "https://example.com/",
        "usize" => "42",
        "Forwarded" => "not-needed",
        "AppliedUpstream" => "commit:abc",
        "File" => "d41d8cd9 12 utils optional a_1.0.dsc",
        t if t.ends_with("Checksum") => "d41d8cd9 12 a_1.0.dsc",
        _ => "v",
    }
}

/// a field text the getter of this row reads as a present value
fn raw_sample(r: &Row) -> String {
    match r.tag.as_str() {
        "typed" => typed_sample(&r.ty).to_string(),
        "list" => {
            if r.ty == "str" {
                "a".to_string()
            } else {
                typed_sample(&r.ty).to_string()
            }
        }
        "flagYes" | "flagYesNo" => "yes".to_string(),
        "rfc2822" => "Tue, 1 Jul 2003 10:52:37 +0200".to_string(),
        "dateYmd" => "2024-02-29".to_string(),
        "envMap" => "A=1".to_string(),
        "licenseText" => "MIT\ntext".to_string(),
        "firstLine" | "restLines" => "synopsis\nlong text\nmore".to_string(),
        _ => "v".to_string(),
    }
}

/// a small document hosting the view, its paragraph index, and the text after which fields are added
fn skeleton(view: &str, fields: &str) -> (String, usize) {
    match view {
        "copyright.Header" => (format!("Format: x\n{}", fields), 0),
        "copyright.FilesParagraph" => (format!("Format: x\n\nFiles: *\n{}", fields), 1),
        "copyright.LicenseParagraph" => (format!("Format: x\n\nLicense: MIT\n{}", fields), 1),
        _ => (format!("Zz: 0\n{}", fields), 0),
    }
}

/// wire values of the accessor's type for the row cross-check and the generators
fn samples(a: &Acc, s: Option<&Row>) -> Vec<String> {
    let sep = s.map(|r| r.sep.as_str()).unwrap_or("");
    let w = a.wire.replace(' ', "");
    let (opt, base) = match w.strip_prefix("Option<").and_then(|x| x.strip_suffix('>')) {
        Some(b) => (true, b.to_string()),
        None => (false, w.clone()),
    };
    let x = |t: &str| es(t);
    let l = |v: &[&str]| format!("l{}", elist(v));
    let mut out: Vec<String> = match base.as_str() {
        "String" => {
            if s.map(|r| r.tag == "restLines").unwrap_or(false) {
                // long description: several lines, one line, and the empty text (keeps only the synopsis)
                vec![x("fix a bug"), x("line one\nline two"), x("")]
            } else if s.map(|r| r.tag == "composite").unwrap_or(false) || a.view == "dep3.PatchHeader" {
                vec![x("fix a bug"), x("https://bugs.example/1")]
            } else {
                vec![x("foo"), x("a b (>= 1), c"), x("first line\nsecond line")]
            }
        }
        "bool" => vec!["b1".into(), "b0".into()],
        "usize" => vec![x("0"), x("1234"), x("18446744073709551615")],
        "Priority" => ["required", "important", "standard", "optional", "extra"].iter().map(|t| x(t)).collect(),
        "MultiArch" => ["same", "foreign", "no", "allowed"].iter().map(|t| x(t)).collect(),
        "Relations" => vec![x("foo"), x("foo (>= 1.0), bar | baz"), x("libc6 (>= 2.3) [amd64], x <!nocheck>")],
        "Version" => vec![x("1.0-1"), x("2:1.0~rc1-1ubuntu1")],
        "Url" => vec![x("https://example.com/"), x("https://example.com/a/b?c=d"), x("https://example.com/projects/foo/")],
        "Vec<String>" => match sep {
            "comma" | "" => vec![l(&["Jo Doe <jo@x.org>"]), l(&["Jo Doe <jo@x.org>", "Al B <al@y.org>"]), l(&["a", "b", "c"])],
            // written one per line but READ as a whitespace-separated list (Files-Excluded): the
            // elements are free of the getter's separator
            "nl" if a.getter == Some("files_excluded") => vec![l(&["debian/missing-sources"]), l(&["a", "c/*", "d"])],
            "nl" => vec![l(&["2019 John Doe"]), l(&["a b", "c/*", "d"])],
            _ => vec![l(&["amd64"]), l(&["amd64", "i386", "all"])],
        },
        "Vec<Md5Checksum>" | "Vec<Sha1Checksum>" | "Vec<Sha256Checksum>" | "Vec<Sha512Checksum>" => {
            vec![l(&["d41d8cd9 12 a_1.0.dsc"]), l(&["d41d8cd9 12 a_1.0.dsc", "0cc175b9 0 b.tar.gz"]), l(&[])]
        }
        "License" => vec![
            format!("L.N.{}", x("GPL-2+")),
            format!("L.NT.{}.{}", x("MIT"), x("Permission is hereby\ngranted")),
            format!("L.T.{}", x("Some text")),
            format!("L.T.{}", x("Some text\nmore of it")),
        ],
        "DateTime<FixedOffset>" => vec![x("Tue, 1 Jul 2003 10:52:37 +0200"), x("Sat, 29 Feb 2020 00:00:00 +0000")],
        "NaiveDate" => vec![x("2024-02-29"), x("1999-12-31")],
        "(Option<OriginCategory>,Origin)" => vec![
            format!("O.-.Other.{}", x("https://x.org/p")),
            format!("O.Upstream.Commit.{}", x("abc123")),
            format!("O.Backport.Other.{}", x("http://b.example/")),
        ],
        "Forwarded" => vec![x("no"), x("not-needed"), x("https://bugs.example/1")],
        "AppliedUpstream" => vec![x("commit:abc"), x("1.2.3")],
        "HashMap<String,String>" => vec![l(&["A=1"]), l(&["A=1", "B=x=y"])],
        _ => vec![],
    };
    // the empty list, where the getter is built on split_whitespace(): an empty field reads as []
    // (Props/C15More C15_codec_list_empty_ok).  Comma lists and the Copyright lines read [""] for
    // the empty field (C15_codec_list_empty): the empty list is outside the domain of those codecs
    // (a comma list has at least one element), the oracle "getter returns the value set" cannot
    // judge it, so it is not generated there.
    if base == "Vec<String>" && rows_of(a).0.map(|g| g.sep == "ws").unwrap_or(false) {
        out.push(l(&[]));
    }
    // keep only values the wire type accepts, in canonical form
    if let Some(c) = a.canon {
        out = out.iter().filter_map(|v| c(v)).collect();
    }
    if opt {
        out.push("none".to_string());
    }
    out
}

// ------------------------------------------------------------------ handlers

fn setget(a: &Acc, text: &str, idx: usize, value: &str) -> Option<Resp> {
    let mut host = match host_for(a.view, text) {
        Some(h) => h,
        None => return Some(Resp::ok("bad-doc".to_string())),
    };
    let (_, srow) = rows_of(a);
    let set = a.set?;
    let done = catch_unwind(AssertUnwindSafe(|| set(&mut host, idx, value)));
    match done {
        Err(_) => return Some(Resp::with("PANIC-SET".to_string(), Some("setter panicked".to_string()))),
        Ok(None) => return Some(Resp::ok("bad-args".to_string())),
        Ok(Some(())) => {}
    }
    let g = call_get(a, &mut host, idx).unwrap_or_else(|| "-".to_string());
    let after_text = host_text(&host);
    let live = live_items(&host, idx);
    let obs = format!(
        "{} {} {}",
        g,
        after_text.as_deref().map(es).unwrap_or_else(|| "~".to_string()),
        match (&live, &after_text) {
            (Some(l), _) => enc_items(l),
            (None, Some(t)) => parse_items(t).and_then(|p| p.get(idx).map(|p| enc_items(p))).unwrap_or_else(|| "?".to_string()),
            (None, None) => "~".to_string(),
        }
    );
    let mut fail = None;
    let want = a.canon.and_then(|c| c(value)).unwrap_or_else(|| value.to_string());
    if a.get.is_some() && g != want {
        fail = Some(format!("getter returns {} after setting {}", g, want));
    }
    if fail.is_none() {
        if let Some(t) = &after_text {
            fail = frame_oracle(text, t, idx, live.as_ref(), &[(names_of(a), is_clearing(srow, value))], true);
        }
    }
    Some(Resp::with(obs, fail))
}

pub fn handle(op: &str, a: &[&str]) -> Option<Resp> {
    ALIAS_FAIL.with(|x| *x.borrow_mut() = None);
    let mut r = handle_inner(op, a)?;
    if r.fail.is_none() {
        r.fail = ALIAS_FAIL.with(|x| x.borrow_mut().take());
    }
    Some(r)
}

fn handle_inner(op: &str, a: &[&str]) -> Option<Resp> {
    match (op, a) {
        ("acc.setget", [view, name, doc, idx, value]) => {
            let acc = find_acc(view, name)?;
            setget(acc, &ds(doc)?, idx.parse().ok()?, value)
        }
        ("acc.get", [view, name, doc, idx, ..]) if a.len() <= 5 => {
            let want = a.get(4).copied();
            let acc = find_acc(view, name)?;
            let text = ds(doc)?;
            let mut host = match host_for(view, &text) {
                Some(h) => h,
                None => return Some(Resp::ok("bad-doc".to_string())),
            };
            let g = match call_get(acc, &mut host, idx.parse().ok()?) {
                Some(g) => g,
                None => return Some(Resp::ok("bad-args".to_string())),
            };
            let mut fail = if g == "PANIC" { Some("getter panicked on parsed text".to_string()) } else { None };
            if *view == "control.Source" && *name == "vcs" && fail.is_none() {
                // independent reading: the first Vcs-<X> field other than Vcs-Browser, through Vcs::from_field(X, value)
                let want = parse_items(&text).and_then(|p| p.into_iter().next()).and_then(|p| {
                    p.into_iter().find(|f| f.0.starts_with("Vcs-") && f.0 != "Vcs-Browser")
                        .and_then(|f| debian_control::vcs::Vcs::from_field(&f.0["Vcs-".len()..], &f.1).ok())
                });
                let want = vcs_text(want);
                if g != want {
                    fail = Some(format!("vcs() = {}, the Vcs-* field reads {}", g, want));
                }
            }
            if *view == "apt.Release" && *name == "no_support_for_architecture_all" && fail.is_none() {
                // documented reading (Debian repository format): the field's one defined value is
                // `Packages`; a Release file that carries it has no support for Architecture: all
                let has = parse_items(&text).and_then(|p| p.into_iter().next()).map(|p| p.iter().any(|f| f.0 == "No-Support-for-Architecture-all" && f.1 == "Packages")).unwrap_or(false);
                if has && g != "b1" {
                    fail = Some("No-Support-for-Architecture-all: Packages is read as false".to_string());
                }
            }
            if let (Some(w), None) = (want, &fail) {
                if g != w {
                    fail = Some(format!("getter reads {}, the documented reading of the list is {}", g, w));
                }
            }
            // the reading must not disturb the text
            let fail = fail.or_else(|| match host_text(&host) {
                Some(t) if t != text => Some("getter changed the document".to_string()),
                _ => None,
            });
            Some(Resp::with(g, fail))
        }
        ("acc.seq", [view, doc, idx, steps]) => {
            let text = ds(doc)?;
            let idx: usize = idx.parse().ok()?;
            let mut host = match host_for(view, &text) {
                Some(h) => h,
                None => return Some(Resp::ok("bad-doc".to_string())),
            };
            let mut last: Vec<(&'static Acc, String)> = vec![];
            for st in steps.split(';') {
                let (name, value) = st.split_once('=')?;
                let acc = find_acc(view, name)?;
                let set = acc.set?;
                match catch_unwind(AssertUnwindSafe(|| set(&mut host, idx, value))) {
                    Err(_) => return Some(Resp::with("PANIC-SET".to_string(), Some("setter panicked".to_string()))),
                    Ok(None) => return Some(Resp::ok("bad-args".to_string())),
                    Ok(Some(())) => {}
                }
                last.retain(|(a, _)| a.name() != acc.name());
                last.push((acc, value.to_string()));
            }
            let mut gs = vec![];
            let mut fail = None;
            let mut written = vec![];
            for (acc, value) in &last {
                let g = call_get(acc, &mut host, idx).unwrap_or_else(|| "-".to_string());
                let want = acc.canon.and_then(|c| c(value)).unwrap_or_else(|| value.clone());
                if acc.get.is_some() && g != want && fail.is_none() {
                    fail = Some(format!("{} returns {} after the sequence, last set to {}", acc.name(), g, want));
                }
                gs.push(g);
                written.push((names_of(acc), is_clearing(rows_of(acc).1, value)));
            }
            let after_text = host_text(&host);
            if fail.is_none() {
                if let Some(t) = &after_text {
                    fail = frame_oracle(&text, t, idx, live_items(&host, idx).as_ref(), &written, false);
                }
            }
            Some(Resp::with(format!("{} {}", gs.join("|"), after_text.as_deref().map(es).unwrap_or_else(|| "~".to_string())), fail))
        }
        ("acc.row", [view, method]) => {
            let r = match row(view, method) {
                Some(r) => r,
                None => return Some(Resp::with("norow".to_string(), Some("harness line without a table row".to_string()))),
            };
            let obs = show_row(r);
            let para_level = matches!(r.tag.as_str(), "findPara" | "filterPara" | "filterParaTail" | "addPara" | "derived") || r.kind == "other"
                || r.op == "paragraphs";
            if para_level {
                return Some(Resp::ok(obs));
            }
            let acc = registry().iter().find(|a| a.view == *view && (a.getter == Some(method) || a.setter == Some(method)));
            let acc = match acc {
                Some(a) => a,
                None => return Some(Resp::with(obs, Some("table row without a harness line".to_string()))),
            };
            if r.tag == "opaque" || r.names.is_empty() {
                return Some(Resp::ok(obs));
            }
            let arg = harness_arg(view, method);
            let templ = r.names.iter().any(|n| n.contains('{'));
            if templ && arg.is_none() {
                return Some(Resp::with(obs, Some("name template without a harness argument".to_string())));
            }
            let inst = Row { names: r.names.iter().map(|n| inst_name(n, arg)).collect(), dflt: inst_name(&r.dflt, arg), ..r.clone() };
            let r = &inst;
            let mut fail = None;
            if r.kind == "set" {
                // the real setter on a paragraph without the field: exactly the extracted name appears
                let (doc, idx) = skeleton(view, "");
                let before = parse_items(&doc)?;
                if let (Some(mut host), Some(set)) = (host_for(view, &doc), acc.set) {
                    let (_, srow) = rows_of(acc);
                    let vals = samples(acc, srow);
                    let v = vals.iter().find(|v| !is_clearing(srow, v));
                    if let Some(v) = v {
                        let ok = catch_unwind(AssertUnwindSafe(|| set(&mut host, idx, v)));
                        if !matches!(ok, Ok(Some(()))) {
                            fail = Some(format!("setter failed on sample {}", v));
                        } else if let Some(t) = host_text(&host) {
                            let after = parse_items(&t).unwrap_or_default();
                            let new: Vec<String> = after
                                .get(idx)
                                .map(|p| p.iter().map(|f| f.0.clone()).filter(|n| !before[idx].iter().any(|f| &f.0 == n)).collect())
                                .unwrap_or_default();
                            // on a paragraph without any of its names the setter writes its default name
                            let ok = if r.tag == "composite" { new.len() == 1 && r.names.contains(&new[0]) } else { new == vec![r.dflt.clone()] };
                            if !ok {
                                fail = Some(format!("setter wrote field(s) {:?}, the table says {:?}", new, r.dflt));
                            }
                        }
                    } else {
                        fail = Some("no sample value for the setter".to_string());
                    }
                }
            } else if r.kind == "get" && view != &"changes.Changes" {
                // the real getter sees each extracted name, and nothing without it
                let (doc0, idx) = skeleton(view, "");
                let g0 = host_for(view, &doc0).and_then(|mut h| call_get(acc, &mut h, idx));
                for (ni, n) in r.names.iter().enumerate() {
                    if ni > 0 && (doc0.contains(&format!("\n{}:", r.names[0])) || doc0.starts_with(&format!("{}:", r.names[0]))) {
                        continue; // the primary name sits in the skeleton and wins over the alternate
                    }
                    if doc0.contains(&format!("\n{}:", n)) || doc0.starts_with(&format!("{}:", n)) {
                        continue; // the skeleton itself carries the field (Files, License, Format)
                    }
                    let raw = raw_sample(r).replace('\n', "\n ");
                    let (doc1, _) = skeleton(view, &format!("{}: {}\n", n, raw));
                    let g1 = host_for(view, &doc1).and_then(|mut h| call_get(acc, &mut h, idx));
                    if g1 == g0 || g1.is_none() || g1.as_deref() == Some("PANIC") {
                        fail = Some(format!("getter does not read field {:?}: {:?} with it, {:?} without", n, g1, g0));
                    }
                }
            }
            Some(Resp::with(obs, fail))
        }
        ("acc.ctl.find", [doc]) => {
            let text = ds(doc)?;
            let c = match control::Control::from_str(&text) {
                Ok(c) => c,
                Err(_) => return Some(Resp::ok("bad-doc".to_string())),
            };
            let src = c.source().map(|s| s.as_deb822().to_string());
            let bins: Vec<String> = c.binaries().map(|b| b.as_deb822().to_string()).collect();
            // independent reading: first paragraph with a Source field; every paragraph with a Package field
            let d = Deb822::from_str(&text).ok()?;
            let want_src = d.paragraphs().find(|p| p.items().any(|f| f.0 == "Source")).map(|p| p.to_string());
            let want_bins: Vec<String> = d.paragraphs().filter(|p| p.items().any(|f| f.0 == "Package")).map(|p| p.to_string()).collect();
            let fail = if src != want_src {
                Some(format!("source() = {:?}, expected {:?}", src, want_src))
            } else if bins != want_bins {
                Some(format!("binaries() = {:?}, expected {:?}", bins, want_bins))
            } else {
                None
            };
            Some(Resp::with(format!("{} {}", eopt(src.as_deref()), elist(&bins)), fail))
        }
        ("acc.ctl.add", [doc, kind, name]) => {
            let text = ds(doc)?;
            let name = ds(name)?;
            let mut c = match control::Control::from_str(&text) {
                Ok(c) => c,
                Err(_) => return Some(Resp::ok("bad-doc".to_string())),
            };
            let before = parse_items(&text)?;
            let (key, got, para) = match *kind {
                "source" => {
                    let s = c.add_source(&name);
                    ("Source", s.name(), s.as_deb822().to_string())
                }
                "binary" => {
                    let b = c.add_binary(&name);
                    ("Package", b.name(), b.as_deb822().to_string())
                }
                _ => return None,
            };
            let after_text = c.to_string();
            let mut want = before.clone();
            want.push(vec![(key.to_string(), name.clone())]);
            let fail = if got.as_deref() != Some(name.as_str()) {
                Some(format!("the returned paragraph is named {:?}, not {:?}", got, name))
            } else {
                match parse_items(&after_text) {
                    None => Some(format!("printed text does not re-parse: {:?}", after_text)),
                    Some(a) if a != want => Some(format!("paragraphs after: {:?}, expected {:?}", a, want)),
                    _ if comment_lines(&text) != comment_lines(&after_text) => Some("comment lines changed".to_string()),
                    _ => None,
                }
            };
            Some(Resp::with(format!("{} {} {}", eopt(got.as_deref()), es(&para), es(&after_text)), fail))
        }
        ("acc.cpr.find", [doc]) => {
            let text = ds(doc)?;
            let c = match Copyright::from_str(&text) {
                Ok(c) => c,
                Err(_) => return Some(Resp::ok("bad-doc".to_string())),
            };
            let paras = parse_items(&text)?;
            let header = c.header().map(|h| h.as_deb822().to_string());
            let nfiles = c.iter_files().count();
            let nlic = c.iter_licenses().count();
            let names: Vec<String> = c.iter_licenses().map(|l| l.name().unwrap_or_default()).collect();
            let files: Vec<String> = c.iter_files().map(|f| f.files().join(" ")).collect();
            let want_files: Vec<String> = paras
                .iter()
                .filter(|p| is_files(p))
                .map(|p| p.iter().find(|f| f.0 == "Files").unwrap().1.split_whitespace().collect::<Vec<_>>().join(" "))
                .collect();
            let want_names: Vec<String> = paras
                .iter()
                .filter(|p| is_license(p))
                .map(|p| p.iter().find(|f| f.0 == "License").unwrap().1.split('\n').next().unwrap().to_string())
                .collect();
            let d = Deb822::from_str(&text).ok()?;
            let want_header = d.paragraphs().next().map(|p| p.to_string());
            let fail = if header != want_header {
                Some("header() is not the first paragraph".to_string())
            } else if files != want_files {
                Some(format!("iter_files() = {:?}, expected {:?}", files, want_files))
            } else if names != want_names {
                Some(format!("iter_licenses() names = {:?}, expected {:?}", names, want_names))
            } else {
                None
            };
            Some(Resp::with(format!("{} {} {} [{}] [{}]", eopt(header.as_deref()), nfiles, nlic, elist(&files), elist(&names)), fail))
        }
        ("acc.cpr.fix", [doc]) => {
            let text = ds(doc)?;
            let c = match Copyright::from_str(&text) {
                Ok(c) => c,
                Err(_) => return Some(Resp::ok("bad-doc".to_string())),
            };
            let before = parse_items(&text)?;
            let mut h = c.header()?;
            h.fix();
            let once = c.to_string();
            let fmt = h.format_string();
            h.fix();
            let twice = c.to_string();
            let after = parse_items(&once);
            let keep = |p: &Items| -> Items { p.iter().filter(|f| f.0 != "Format" && f.0 != "Format-Specification").cloned().collect() };
            // a legal header has ONE format field, under its current name (DEP-5) or its pre-1.0 name
            // Format-Specification.  Both names together, or one of them twice, is not a legal file:
            // there fix() leaves two Format fields / a Format-Specification behind (Props/C15More
            // C15_fix_both, an observation, not a finding) and only the frame clauses are judged.
            let legal = before.first().map(|p| p.iter().filter(|f| f.0 == "Format" || f.0 == "Format-Specification").count() == 1).unwrap_or(false);
            let fail = match after {
                None => Some("printed text does not re-parse".to_string()),
                Some(a) => {
                    if a.len() != before.len() || a[1..] != before[1..] {
                        Some("another paragraph changed".to_string())
                    } else if keep(&a[0]) != keep(&before[0]) {
                        Some("other header fields changed".to_string())
                    } else if comment_lines(&text) != comment_lines(&once) {
                        Some("comment lines changed".to_string())
                    } else if fmt.as_deref().map(|f| !f.ends_with('/') || f.starts_with("http:")).unwrap_or(true) {
                        Some(format!("format string after fix: {:?}", fmt))
                    } else if !legal {
                        None
                    } else if has(&a[0], "Format-Specification") {
                        Some("Format-Specification left behind".to_string())
                    } else if a[0].iter().filter(|f| f.0 == "Format").count() != 1 {
                        Some("not exactly one Format field".to_string())
                    } else if once != twice {
                        Some("fix is not idempotent".to_string())
                    } else {
                        None
                    }
                }
            };
            Some(Resp::with(format!("{} {}", eopt(fmt.as_deref()), es(&once)), fail))
        }
        _ => None,
    }
}

// ------------------------------------------------------------------ generator

fn field_text(name: &str, raw: &str) -> String {
    format!("{}: {}\n", name, raw.replace('\n', "\n "))
}

/// prior states of the paragraph around field `n` holding `old`: (document, paragraph index)
fn states(view: &str, n: &str, old: &str, old2: &str) -> Vec<(String, usize)> {
    let fld = field_text(n, old);
    let fld2 = field_text(n, old2);
    let mut bodies: Vec<String> = vec![
        "Aaa: 1\n".to_string(),                                               // absent
        fld.clone(),                                                          // the only field
        format!("Aaa: 1\n{}Zzz: 2\n", fld),                                   // other fields before and after
        format!("Aaa: 1\n# before\n{}# after\nZzz: 2\n", fld),                // comments around it
        format!("{}Aaa: 1\n{}", fld, fld2),                                   // present twice
        "Aaa: 1\n# c\nZzz: 2".to_string(),                                    // absent, no final newline
        "Aaa: 1\nZzz: 2\n# vim: set ft=debcontrol :".to_string(),             // absent; the last line is an unterminated comment
        format!("Aaa: 1\n{}:{}\nZzz: 2", n, old.replace('\n', "\n\t")),       // tight layout, no final newline
        format!("Aaa: 1\n# about the last field\n# (two lines)\n{}", fld),      // the LAST field, comment lines directly above it (after seeded change C15-r8m1)
    ];
    let single = view == "dep3.PatchHeader" || view == "changes.Changes";
    let mut out: Vec<(String, usize)> = vec![];
    if view.starts_with("copyright.") {
        for b in bodies.drain(..) {
            out.push(skeleton(view, &b));
        }
        // a following paragraph that must not move
        let (d, i) = skeleton(view, &format!("Aaa: 1\n{}\nFiles: debian/*\nCopyright: x\nLicense: MIT\n", fld));
        out.push((d, i));
    } else {
        for b in bodies.drain(..) {
            out.push((b, 0));
        }
        if !single {
            out.push((format!("Xx: 0\n\nAaa: 1\n{}Zzz: 2\n\n# tail\nYy: 9\n", fld), 1));
            out.push((format!("Aaa: 1\n# c\n{}\n# next\nYy: 9\n", fld), 0));
        }
    }
    out
}

/// the documented reading of a well-formed list field (Debian policy: comma lists with optional white
/// space around the commas, white-space separated lists with any run of white space including a folded
/// line, line lists one element per line), as a wire value; None where the text is not well-formed
fn documented_list(r: &Row, raw: &str) -> Option<String> {
    if r.tag != "list" || r.ty != "str" {
        return None;
    }
    let l: Vec<String> = match r.sep.as_str() {
        "comma" => raw.split(',').map(|s| s.trim().to_string()).collect(),
        "space" | "ws" => raw.split_whitespace().map(|s| s.to_string()).collect(),
        "nl" => raw.split('\n').map(|s| s.to_string()).collect(),
        _ => return None,
    };
    if l.is_empty() || l.iter().any(|e| e.is_empty()) {
        return None;
    }
    Some(l.enc())
}

fn raw_texts(r: &Row) -> Vec<String> {
    let ty = typed_sample(&r.ty).to_string();
    let v: Vec<String> = match r.tag.as_str() {
        "str" => vec!["v".into(), "a b, c".into(), "x\ny".into()],
        "typed" => {
            let mut l = vec![ty.clone(), "bogus (".into(), "A B C".into(), ty.to_uppercase(), "+7".into()];
            if r.ty == "Priority" || r.ty == "MultiArch" || r.ty == "Urgency" {
                l.extend(["required", "extra", "foreign", "allowed", "no", "medium", "CRITICAL", "emergency"].iter().map(|s| s.to_string()));
            }
            l
        }
        "list" => {
            if r.ty != "str" {
                vec![ty.clone(), format!("{}\n{}", ty, ty), "x".into(), "abc notanumber f".into(), format!("{} extra", ty),
                     format!("{}\r", ty)]
            } else {
                match r.sep.as_str() {
                    "comma" => vec!["a, b".into(), "a,b , c ".into(), "a".into(), ",".into(), "a,\nb".into(), "Jo <j@x>, Al <a@y>".into()],
                    "nl" => vec!["a\nb".into(), "a".into(), "a b\nc".into()],
                    _ => vec!["a b".into(), "a  b".into(), "a".into(), "a\nb".into(), "a \tb".into(), "a b ".into()],
                }
            }
        }
        "flagYes" | "flagYesNo" => vec!["yes".into(), "no".into(), "YES".into(), "Yes".into(), "maybe".into(), "binary-targets".into()],
        "license" | "licenseName" | "licenseText" => vec!["GPL-2+".into(), "MIT\ntext\nmore".into(), "\ntext only".into()],
        "firstLine" | "restLines" => vec!["short".into(), "short\nlong\nmore".into()],
        "originField" => vec!["upstream, commit:abc".into(), "https://x.org".into(), "vendor".into(), "other, x, y".into(),
                              "commit:abc".into(), "Upstream, x".into()],
        "rfc2822" => vec!["Tue, 1 Jul 2003 10:52:37 +0200".into(), "garbage".into()],
        "dateYmd" => vec!["2024-02-29".into(), "2024-13-01".into(), "x".into()],
        "envMap" => vec!["A=1\nB=2".into(), "novalue".into(), "A=b=c".into()],
        _ => vec!["v".into()],
    };
    v
}

pub fn generate_c15(tier: &str, seed: u64, out: &mut Out) {
    let thorough = tier == "thorough";
    let mut rng = Rng::new(seed ^ 0xC15);
    // 1. translator rows against the real methods
    for r in rows() {
        out.req("acc.row", &[r.view.clone(), r.method.clone()]);
    }
    for a in registry() {
        for m in [a.getter, a.setter].into_iter().flatten() {
            if row(a.view, m).is_none() {
                out.req("acc.row", &[a.view.to_string(), m.to_string()]);
            }
        }
    }
    // 2. set then get, every accessor with a setter x prior states x values
    for a in registry() {
        if a.set.is_none() {
            continue;
        }
        let (g, s) = rows_of(a);
        let names = names_of(a);
        let n = match names.first() {
            Some(n) => n.clone(),
            None => continue,
        };
        let shape_row = g.or(s);
        let old = shape_row.map(raw_sample).unwrap_or_else(|| "v".to_string());
        let vals = samples(a, s);
        let sts = states(a.view, &n, &old, &old);
        for (si, (doc, idx)) in sts.iter().enumerate() {
            for (vi, v) in vals.iter().enumerate() {
                if !thorough && vi >= 3 && v != "none" && !(si == 2 || si == 0) {
                    continue;
                }
                // clearing the only field leaves an empty paragraph, which has no text form (C04's concern)
                if si == 1 && is_clearing(s, v) && !a.view.starts_with("copyright.") {
                    continue;
                }
                out.req("acc.setget", &[a.view.to_string(), a.name().to_string(), es(doc), idx.to_string(), v.clone()]);
            }
        }
        // alternate names (Author / From, Description / Subject): the field under its other name
        for alt in names.iter().skip(1) {
            for (doc, idx) in states(a.view, alt, &old, &old).iter().take(5) {
                for v in vals.iter().take(2) {
                    out.req("acc.setget", &[a.view.to_string(), a.name().to_string(), es(doc), idx.to_string(), v.clone()]);
                }
            }
            // both names present, either order
            for doc in [format!("{}{}", field_text(&n, &old), field_text(alt, "other")), format!("{}{}", field_text(alt, "other"), field_text(&n, &old))] {
                for v in vals.iter().take(2) {
                    out.req("acc.setget", &[a.view.to_string(), a.name().to_string(), es(&doc), "0".to_string(), v.clone()]);
                }
            }
        }
    }
    // 3. getters on raw field text
    for a in registry() {
        let g = match a.getter.and_then(|g| row(a.view, g)) {
            Some(g) => g,
            None => continue,
        };
        if g.names.is_empty() {
            continue;
        }
        let gnames: Vec<String> = g.names.iter().map(|n| inst_name(n, harness_arg(a.view, &g.method))).collect();
        for raw in raw_texts(g) {
            for n in &gnames {
                let (skel, _) = skeleton(a.view, "");
                let doc_idx = if skel.contains(&format!("\n{}:", n)) || skel.starts_with(&format!("{}:", n)) {
                    // the skeleton's own field is the one under test: replace its value
                    let mut lines: Vec<String> = skel.split('\n').map(|l| l.to_string()).collect();
                    let mut idx = 0;
                    for (k, l) in lines.clone().iter().enumerate() {
                        if l.starts_with(&format!("{}:", n)) {
                            lines[k] = field_text(n, &raw).trim_end_matches('\n').to_string();
                            idx = if lines[..k].iter().any(|x| x.is_empty()) { 1 } else { 0 };
                        }
                    }
                    (lines.join("\n"), idx)
                } else {
                    skeleton(a.view, &format!("Aaa: 1\n{}Zzz: 2\n", field_text(n, &raw)))
                };
                let mut args = vec![a.view.to_string(), a.name().to_string(), es(&doc_idx.0), doc_idx.1.to_string()];
                if let Some(w) = documented_list(g, &raw) {
                    args.push(w);
                }
                out.req("acc.get", &args);
            }
            if gnames.len() == 2 {
                let both = format!("{}{}", field_text(&gnames[1], "alt value"), field_text(&gnames[0], &raw));
                let (doc, idx) = skeleton(a.view, &both);
                out.req("acc.get", &[a.view.to_string(), a.name().to_string(), es(&doc), idx.to_string()]);
            }
        }
        // absent
        let (doc, idx) = skeleton(a.view, "Aaa: 1\n");
        out.req("acc.get", &[a.view.to_string(), a.name().to_string(), es(&doc), idx.to_string()]);
    }
    // scanning getters: Source::vcs, PatchHeader::bugs; Package::tags with its argument
    for doc in [
        "Source: a\nVcs-Git: https://example.com/a.git\n",
        "Source: a\nVcs-Browser: https://example.com/a\nVcs-Git: https://example.com/a.git -b main [sub]\n",
        "Source: a\nVcs-Svn: svn://example.com/a\n",
        "Source: a\nVcs-Bzr: lp:a\n",
        "Source: a\nVcs-Hg: https://hg.example.com/a\n",
        "Source: a\nVcs-Cvs: :pserver:x mod\n",
        "Source: a\nVcs-Browser: https://example.com/a\n",
        "Source: a\n",
    ] {
        out.req("acc.get", &["control.Source".to_string(), "vcs".to_string(), es(doc), "0".to_string()]);
    }
    for doc in ["Bug: https://u/1\nBug-Debian: https://d/2\nBug-Ubuntu: https://l/3\n", "Description: x\n"] {
        out.req("acc.get", &["dep3.PatchHeader".to_string(), "bugs".to_string(), es(doc), "0".to_string()]);
    }
    for doc in ["Package: a\nTag: x::y, z\n", "Package: a\n"] {
        out.req("acc.get", &["apt.Package".to_string(), "tags".to_string(), es(doc), "0".to_string()]);
    }
    // 4. sequences of 2-4 setters on one paragraph
    let mut views: Vec<&'static str> = vec![];
    for a in registry() {
        if a.set.is_some() && !views.contains(&a.view) {
            views.push(a.view);
        }
    }
    for view in views {
        let accs: Vec<&Acc> = registry().iter().filter(|a| a.view == view && a.set.is_some()).collect();
        if accs.len() < 2 {
            continue;
        }
        let n = if thorough { 400 } else { 60 };
        for _ in 0..n {
            let len = 2 + rng.below(3);
            let mut steps = vec![];
            let mut present = String::new();
            for _ in 0..len {
                let a = accs[rng.below(accs.len())];
                let vals = samples(a, rows_of(a).1);
                if vals.is_empty() {
                    continue;
                }
                let v = rng.pick(&vals).clone();
                steps.push(format!("{}={}", a.name(), v));
                if rng.chance(30) && present.is_empty() {
                    if let Some(nm) = names_of(a).first() {
                        let old = rows_of(a).0.or(rows_of(a).1).map(raw_sample).unwrap_or_else(|| "v".to_string());
                        present = field_text(nm, &old);
                    }
                }
            }
            if steps.len() < 2 {
                continue;
            }
            let body = match rng.below(3) {
                0 => "Aaa: 1\n".to_string(),
                1 => format!("Aaa: 1\n# c\n{}Zzz: 2\n", present),
                _ => format!("{}Aaa: 1\n", present),
            };
            let (doc, idx) = skeleton(view, &body);
            out.req("acc.seq", &[view.to_string(), es(&doc), idx.to_string(), steps.join(";")]);
        }
    }
    // 5. Control::{source, binaries, add_source, add_binary}
    let ctl_docs = [
        "",
        "Source: a\n",
        "Source: a\nMaintainer: m\n\nPackage: b\nArchitecture: any\n\nPackage: c\n",
        "Package: b\n\nSource: a\n",
        "# head\nSource: a\n\n# mid\nPackage: b\n",
        "Package: b\n\nPackage: c\n",
        "Other: x\n\nSource: a\nPackage: both\n",
        "Source: a\n\nSource: second\n\nPackage: b",
        "Other: x\n",
    ];
    for d in ctl_docs {
        out.req("acc.ctl.find", &[es(d)]);
        for name in ["new", "lib-x1"] {
            out.req("acc.ctl.add", &[es(d), "source".to_string(), es(name)]);
            out.req("acc.ctl.add", &[es(d), "binary".to_string(), es(name)]);
        }
    }
    // 6. Copyright::{header, iter_files, iter_licenses}, Header::fix
    let cpr_docs = [
        "Format: x\n",
        "Format: x\nUpstream-Name: n\n\nFiles: *\nCopyright: me\nLicense: GPL-2+\n\nFiles: debian/* src/a\n b\nCopyright: you\nLicense: MIT\n text\n\nLicense: GPL-2+\n text\n more\n",
        "Format: x\n\nLicense: MIT\n\nFiles: *\nLicense: MIT\nCopyright: c\n",
        "Format: x\n\nComment: neither\n",
    ];
    for d in cpr_docs {
        out.req("acc.cpr.find", &[es(d)]);
    }
    for d in [
        "Format: http://www.debian.org/doc/packaging-manuals/copyright-format/1.0\nSource: s\n",
        "Format: https://www.debian.org/doc/packaging-manuals/copyright-format/1.0/\n",
        "Format: http://example.com/other\n# c\nSource: s\n\nFiles: *\nCopyright: c\nLicense: MIT\n",
        // the rename branch of fix(): reachable through Copyright::from_str only together with a
        // Format field (the text must start with `Format:`) — not a legal DEP-5 header
        "Format: http://a/b\nFormat-Specification: http://c/d\nSource: s\n",
        "Format: x\nFormat-Specification: a\nFormat-Specification: b\n",
        "Format: x\nSource: s\nFormat-Specification: a\n\nFiles: *\nCopyright: c\nLicense: MIT\n",
        "Format: a\n# c\nFormat-Specification: b\n",
        "Format: x\nFormat: y\n",
        // the old name alone: rejected by from_str (NotMachineReadable), answer bad-doc
        "Format-Specification: http://c/d\nSource: s\n",
    ] {
        out.req("acc.cpr.fix", &[es(d)]);
    }
}
