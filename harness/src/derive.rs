//! C16: derived struct <-> paragraph conversions (deb822-derive) round-trip and update only own fields.
//!
//! ops (struct ids as in harness/gen/structs.json; back-end `lossy` | `lossless`):
//!   derive.from   <id> <backend> <K> <V> <E>
//!       build the paragraph [(k_i, v_i)], `from_paragraph` -> value x;
//!       -> `ok [K'] [V'] x<text>` = `to_paragraph(x)` items in the same back-end and its printed text
//!          (lossy: `Display`, lossless: the tree's text) | `err x<message>`
//!   derive.update <id> <backend> <K> <V> <E> <PK> <PV> <PT>
//!       x as above; prior paragraph [(pk_i, pv_i)] (lossless: parsed from the text PT, which renders
//!       the same entries with comment lines in between); `x.update_paragraph(&mut prior)`
//!       -> `ok [K'] [V'] x<text>` = items and printed text of the updated paragraph | `src-err x<message>`
//!   E: per input entry `-` | `o<hex>` | `e<hex>`: for fields whose leaf codec is *external* to the
//!   Lean model (Relations, Url, Version, dates …) the generator supplies what the real leaf codec
//!   answers on that text (canonical re-serialisation or error text); the Lean model of the macro
//!   uses it as that field's `de`.  The worker ignores E.
//!
//! Worker-side oracle (the property, evaluated on the real derived code): round trip through the
//! paragraph in both back-ends, declaration order and omission of absent optionals, update reads
//! back / removes absent / leaves foreign entries (and, lossless, comment lines and the text of
//! untouched entries) alone, error strings name the field, both back-ends agree (values and the printed
//! text of `to_paragraph`).  The round-trip clause is evaluated on values inside the leaf codecs' domains
//! only (`text_in_domain`: a text whose value does not survive its own codec, e.g. `Sources: a\n\n`, is
//! answered and compared with the model but not held against the property).
use crate::util::*;
use crate::Resp;
use deb822_lossless::{FromDeb822, FromDeb822Paragraph, ToDeb822, ToDeb822Paragraph};
use debian_control::fields::{MultiArch, Priority};
use std::str::FromStr;
use std::sync::OnceLock;

pub type LP = deb822_lossless::lossy::Paragraph;
pub type LL = deb822_lossless::lossless::Paragraph;

// ------------------------------------------------------------------ synthetic struct family
// (translated by tools/translate.py structs exactly like the shipped structs)

fn syn_de_yesno(s: &str) -> Result<bool, String> {
    match s {
        "yes" => Ok(true),
        "no" => Ok(false),
        _ => Err(format!("invalid value for yesno: {}", s)),
    }
}
fn syn_ser_yesno(b: &bool) -> String {
    if *b {
        "yes".to_string()
    } else {
        "no".to_string()
    }
}
fn syn_de_words(s: &str) -> Result<Vec<String>, String> {
    Ok(s.split_whitespace().map(|w| w.to_string()).collect())
}
fn syn_ser_words(v: &[String]) -> String {
    v.join(" ")
}

/// every field mandatory: default key / renamed key, default codec / custom codec, scalar / list / enum
#[derive(FromDeb822, ToDeb822)]
pub struct SynMandatory {
    plain: String,
    #[deb822(field = "Renamed-Key")]
    renamed: String,
    number: u32,
    flag: bool,
    #[deb822(field = "Yes-No", serialize_with = syn_ser_yesno, deserialize_with = syn_de_yesno)]
    yesno: bool,
    #[deb822(field = "Words", serialize_with = syn_ser_words, deserialize_with = syn_de_words)]
    words: Vec<String>,
    #[deb822(field = "Priority")]
    prio: Priority,
}

/// the same shapes, every field optional
#[derive(FromDeb822, ToDeb822)]
pub struct SynOptional {
    plain: Option<String>,
    #[deb822(field = "Renamed-Key")]
    renamed: Option<String>,
    number: Option<u32>,
    flag: Option<bool>,
    #[deb822(field = "Yes-No", serialize_with = syn_ser_yesno, deserialize_with = syn_de_yesno)]
    yesno: Option<bool>,
    #[deb822(field = "Words", serialize_with = syn_ser_words, deserialize_with = syn_de_words)]
    words: Option<Vec<String>>,
    #[deb822(field = "Priority")]
    prio: Option<Priority>,
}

/// mandatory and optional fields interleaved; a default key that differs from any renamed key only by case
#[derive(FromDeb822, ToDeb822)]
pub struct SynMixed {
    #[deb822(field = "Name")]
    name: String,
    name_lower: Option<String>,
    #[deb822(field = "Size")]
    size: Option<usize>,
    #[deb822(field = "Multi-Arch")]
    multi_arch: Option<MultiArch>,
    #[deb822(field = "Words", serialize_with = syn_ser_words, deserialize_with = syn_de_words)]
    words: Vec<String>,
    tail: String,
}

/// a single optional field; and the empty struct
#[derive(FromDeb822, ToDeb822)]
pub struct SynOne {
    #[deb822(field = "Only")]
    only: Option<String>,
}
#[derive(FromDeb822, ToDeb822)]
pub struct SynEmpty {}

/// the macro's front end (`is_option`, `extract_field_attributes`, `Ident::to_string`): raw identifiers
/// (the default key keeps the `r#` prefix), `Option` written with a path and with a leading `::`,
/// several `#[deb822(..)]` attributes on one field (a later item overrides an earlier one, the others
/// are merged), `field` given twice inside one attribute
#[derive(FromDeb822, ToDeb822)]
pub struct SynFront {
    r#type: String,
    r#match: Option<String>,
    path_opt: std::option::Option<u32>,
    abs_opt: ::std::option::Option<String>,
    #[deb822(field = "First")]
    #[deb822(field = "Second", serialize_with = syn_ser_yesno)]
    #[deb822(deserialize_with = syn_de_yesno)]
    merged: bool,
    #[deb822(field = "Twice-A", field = "Twice-B")]
    twice: Option<String>,
}

// ------------------------------------------------------------------ dynamic access to the derived code

trait Val {
    fn to_lp(&self) -> LP;
    fn to_ll(&self) -> LL;
    fn upd_lp(&self, p: &mut LP);
    fn upd_ll(&self, p: &mut LL);
}
impl<T: ToDeb822Paragraph<LP> + ToDeb822Paragraph<LL>> Val for T {
    fn to_lp(&self) -> LP {
        self.to_paragraph()
    }
    fn to_ll(&self) -> LL {
        self.to_paragraph()
    }
    fn upd_lp(&self, p: &mut LP) {
        self.update_paragraph(p)
    }
    fn upd_ll(&self, p: &mut LL) {
        self.update_paragraph(p)
    }
}

struct Ops {
    id: &'static str,
    from_lp: fn(&LP) -> Result<Box<dyn Val>, String>,
    from_ll: fn(&LL) -> Result<Box<dyn Val>, String>,
}

fn from_lp<T: FromDeb822Paragraph<LP> + Val + 'static>(p: &LP) -> Result<Box<dyn Val>, String> {
    T::from_paragraph(p).map(|v| Box::new(v) as Box<dyn Val>)
}
fn from_ll<T: FromDeb822Paragraph<LL> + Val + 'static>(p: &LL) -> Result<Box<dyn Val>, String> {
    T::from_paragraph(p).map(|v| Box::new(v) as Box<dyn Val>)
}

macro_rules! ops {
    ($id:literal, $ty:ty) => {
        Ops { id: $id, from_lp: from_lp::<$ty>, from_ll: from_ll::<$ty> }
    };
}

fn all_ops() -> &'static Vec<Ops> {
    static T: OnceLock<Vec<Ops>> = OnceLock::new();
    T.get_or_init(|| {
        vec![
            ops!("aptsources.Repository", apt_sources::Repository),
            ops!("apt.Release", debian_control::lossy::apt::Release),
            ops!("apt.Source", debian_control::lossy::apt::Source),
            ops!("apt.Package", debian_control::lossy::apt::Package),
            ops!("buildinfo.Buildinfo", debian_control::lossy::buildinfo::Buildinfo),
            ops!("control.Source", debian_control::lossy::Source),
            ops!("control.Binary", debian_control::lossy::Binary),
            ops!("ftpmaster.Removal", debian_control::lossy::ftpmaster::Removal),
            ops!("debiancopyright.Header", debian_copyright::lossy::Header),
            ops!("debiancopyright.LicenseParagraph", debian_copyright::lossy::LicenseParagraph),
            ops!("debiancopyright.FilesParagraph", debian_copyright::lossy::FilesParagraph),
            ops!("dep3.PatchHeader", dep3::lossy::PatchHeader),
            ops!("derive.SynMandatory", SynMandatory),
            ops!("derive.SynOptional", SynOptional),
            ops!("derive.SynMixed", SynMixed),
            ops!("derive.SynOne", SynOne),
            ops!("derive.SynEmpty", SynEmpty),
            ops!("derive.SynFront", SynFront),
        ]
    })
}

// ------------------------------------------------------------------ translator table (structs.json)

const STRUCTS_JSON: &str = include_str!("../gen/structs.json");

pub struct FieldRow {
    pub ident: String,
    pub key: String,
    pub optional: bool,
    pub ser: String,
    pub de: String,
    pub ty: String,
}
pub struct StructRow {
    pub id: String,
    pub from: bool,
    pub to: bool,
    pub fields: Vec<FieldRow>,
}

fn struct_rows() -> &'static Vec<StructRow> {
    static T: OnceLock<Vec<StructRow>> = OnceLock::new();
    T.get_or_init(|| {
        let j = crate::codec::parse_json(STRUCTS_JSON).expect("harness/gen/structs.json");
        j.get("structs")
            .arr()
            .iter()
            .map(|s| StructRow {
                id: s.get("id").str().unwrap(),
                from: s.get("from").boolean(),
                to: s.get("to").boolean(),
                fields: s
                    .get("fields")
                    .arr()
                    .iter()
                    .map(|f| FieldRow {
                        ident: f.get("ident").str().unwrap(),
                        key: f.get("key").str().unwrap(),
                        optional: f.get("optional").boolean(),
                        ser: f.get("serialize_with").str().unwrap(),
                        de: f.get("deserialize_with").str().unwrap(),
                        ty: f.get("type").str().unwrap(),
                    })
                    .collect(),
            })
            .collect()
    })
}
pub fn struct_row(id: &str) -> Option<&'static StructRow> {
    struct_rows().iter().find(|s| s.id == id)
}

// ------------------------------------------------------------------ leaf codecs external to the Lean model

/// what the real leaf codec of a field answers on a text: canonical re-serialisation | error text.
/// `None`: the codec is modelled in Lean (Model/Derive.lean `registry`), nothing is supplied.
fn external(ser: &str, de: &str, ty: &str, t: &str) -> Option<Result<String, String>> {
    use debian_control::lossy::Relations;
    Some(match (ser, de, ty) {
        ("", "", "Relations") => Relations::from_str(t).map(|r| r.to_string()),
        ("", "", "url::Url") => url::Url::from_str(t).map(|u| u.to_string()).map_err(|e| e.to_string()),
        ("", "", "debversion::Version") | ("buildinfo.serialize_version", "buildinfo.deserialize_version", "debversion::Version") => {
            debversion::Version::from_str(t).map(|v| v.to_string()).map_err(|e| e.to_string())
        }
        ("dep3.serialize_date", "dep3.deserialize_date", "chrono::NaiveDate") => chrono::NaiveDate::parse_from_str(t, "%Y-%m-%d")
            .map(|d| d.format("%Y-%m-%d").to_string())
            .map_err(|e| e.to_string()),
        ("aptsources.serialize_uris", "aptsources.deserialize_uris", "Vec<Url>") => t
            .split_whitespace()
            .map(url::Url::from_str)
            .collect::<Result<Vec<_>, _>>()
            .map(|v| v.iter().map(|u| u.as_str()).collect::<Vec<_>>().join(" "))
            .map_err(|e| e.to_string()),
        _ => return None,
    })
}

/// the external-codec answer for the field of struct `id` that reads key `k` (None: no such field,
/// or its codec is modelled in Lean)
pub fn external_for_key(id: &str, k: &str, t: &str) -> Option<Result<String, String>> {
    let row = struct_row(id)?;
    let f = row.fields.iter().find(|f| f.key == k)?;
    external(&f.ser, &f.de, &f.ty, t)
}

// ------------------------------------------------------------------ paragraphs

fn lp_of(ks: &[String], vs: &[String]) -> LP {
    LP { fields: ks.iter().zip(vs.iter()).map(|(k, v)| deb822_lossless::lossy::Field { name: k.clone(), value: v.clone() }).collect() }
}
fn ll_of(ks: &[String], vs: &[String]) -> LL {
    ks.iter().cloned().zip(vs.iter().cloned()).collect()
}
fn lp_items(p: &LP) -> Vec<(String, String)> {
    p.iter().map(|(k, v)| (k.to_string(), v.to_string())).collect()
}
fn ll_items(p: &LL) -> Vec<(String, String)> {
    p.items().collect()
}

/// (kept as a hook: no value needs normalising since serialize_types / serialize_env sort their output)
fn normalise(_id: &str, items: Vec<(String, String)>) -> Vec<(String, String)> {
    items
}

fn show_items(items: &[(String, String)]) -> String {
    format!(
        "[{}] [{}]",
        elist(&items.iter().map(|x| x.0.clone()).collect::<Vec<_>>()),
        elist(&items.iter().map(|x| x.1.clone()).collect::<Vec<_>>())
    )
}

// ------------------------------------------------------------------ oracle pieces

/// keys of the present fields, in declaration order, as the table says
fn expected_order(row: &StructRow, items: &[(String, String)]) -> Option<String> {
    let keys: Vec<&str> = items.iter().map(|x| x.0.as_str()).collect();
    let mut it = row.fields.iter();
    for k in &keys {
        loop {
            match it.next() {
                None => return Some(format!("to_paragraph key {:?} out of declaration order / not a field: {:?}", k, keys)),
                Some(f) if f.key == *k => break,
                Some(f) if f.optional => continue,
                Some(f) => return Some(format!("mandatory field {} missing from to_paragraph: {:?}", f.key, keys)),
            }
        }
    }
    for f in it {
        if !f.optional {
            return Some(format!("mandatory field {} missing from to_paragraph: {:?}", f.key, keys));
        }
    }
    None
}

/// round trip of a value through a paragraph, in both back-ends; `None` = fine
fn roundtrip_oracle(ops: &Ops, id: &str, x: &dyn Val, in_domain: bool) -> Option<String> {
    let a = normalise(id, lp_items(&x.to_lp()));
    let b = normalise(id, ll_items(&x.to_ll()));
    if a != b {
        return Some(format!("to_paragraph differs between back-ends: lossy {:?} lossless {:?}", a, b));
    }
    // the printed texts agree as well (C16_to_paragraph_text_agrees)
    let (ta, tb) = (x.to_lp().to_string(), x.to_ll().to_string());
    if ta != tb {
        return Some(format!("to_paragraph prints differently: lossy {:?} lossless {:?}", ta, tb));
    }
    if !in_domain {
        return None;
    }
    match (ops.from_lp)(&x.to_lp()) {
        Ok(x2) => {
            let a2 = normalise(id, lp_items(&x2.to_lp()));
            if a2 != a {
                return Some(format!("from_paragraph(to_paragraph(x)) != x (lossy): {:?} vs {:?}", a2, a));
            }
        }
        Err(e) => return Some(format!("from_paragraph(to_paragraph(x)) fails (lossy): {}", e)),
    }
    match (ops.from_ll)(&x.to_ll()) {
        Ok(x2) => {
            let a2 = normalise(id, lp_items(&x2.to_lp()));
            if a2 != a {
                return Some(format!("from_paragraph(to_paragraph(x)) != x (lossless): {:?} vs {:?}", a2, a));
            }
        }
        Err(e) => return Some(format!("from_paragraph(to_paragraph(x)) fails (lossless): {}", e)),
    }
    None
}

fn error_oracle(row: &StructRow, ks: &[String], msg: &str) -> Option<String> {
    // the error names a field of the struct; "missing field: K" only for an absent mandatory K
    if let Some(k) = msg.strip_prefix("missing field: ") {
        match row.fields.iter().find(|f| f.key == k) {
            Some(f) if !f.optional && !ks.iter().any(|x| x == k) => None,
            _ => Some(format!("error {:?} does not name an absent mandatory field", msg)),
        }
    } else if let Some(rest) = msg.strip_prefix("parsing field ") {
        if row.fields.iter().any(|f| rest.starts_with(&format!("{}: ", f.key)) && ks.iter().any(|x| *x == f.key)) {
            None
        } else {
            Some(format!("error {:?} does not name a present field of the struct", msg))
        }
    } else {
        Some(format!("error {:?} has neither of the two shapes", msg))
    }
}

fn own(row: &StructRow, k: &str) -> bool {
    row.fields.iter().any(|f| f.key == k)
}

// ------------------------------------------------------------------ directly constructed values
// (structs with public fields only: values that no text deserialises to, e.g. an empty Package-List)

#[derive(Debug, Clone, PartialEq)]
enum Tokv {
    None,
    S(String),
    B(bool),
    N(u64),
    L(Vec<String>),
    K(String),
    X(String),
}
fn tokv(t: &str) -> Option<Tokv> {
    if t == "none" {
        return Some(Tokv::None);
    }
    let (k, r) = t.split_once(':')?;
    Some(match k {
        "s" => Tokv::S(ds(r)?),
        "b" => Tokv::B(r == "1"),
        "n" => Tokv::N(r.parse().ok()?),
        "l" => Tokv::L(dlist(r)?),
        "k" => Tokv::K(r.to_string()),
        "x" => Tokv::X(ds(r)?),
        _ => return None,
    })
}
impl Tokv {
    fn s(&self) -> Option<String> {
        if let Tokv::S(s) = self {
            Some(s.clone())
        } else {
            None
        }
    }
    fn os(&self) -> Option<Option<String>> {
        match self {
            Tokv::None => Some(None),
            Tokv::S(s) => Some(Some(s.clone())),
            _ => None,
        }
    }
    fn b(&self) -> Option<bool> {
        if let Tokv::B(b) = self {
            Some(*b)
        } else {
            None
        }
    }
    fn ob(&self) -> Option<Option<bool>> {
        match self {
            Tokv::None => Some(None),
            Tokv::B(b) => Some(Some(*b)),
            _ => None,
        }
    }
    fn l(&self) -> Option<Vec<String>> {
        if let Tokv::L(l) = self {
            Some(l.clone())
        } else {
            None
        }
    }
    fn ol(&self) -> Option<Option<Vec<String>>> {
        match self {
            Tokv::None => Some(None),
            Tokv::L(l) => Some(Some(l.clone())),
            _ => None,
        }
    }
    fn ox<T: FromStr>(&self) -> Option<Option<T>> {
        match self {
            Tokv::None => Some(None),
            Tokv::X(s) => T::from_str(s).ok().map(Some),
            _ => None,
        }
    }
}

fn build_release(t: &[Tokv]) -> Option<debian_control::lossy::apt::Release> {
    Some(debian_control::lossy::apt::Release {
        codename: t[0].s()?,
        components: t[1].l()?,
        architectures: t[2].l()?,
        description: t[3].s()?,
        origin: t[4].s()?,
        label: t[5].s()?,
        suite: t[6].s()?,
        version: t[7].s()?,
        date: t[8].s()?,
        not_automatic: t[9].b()?,
        but_automatic_upgrades: t[10].b()?,
        acquire_by_hash: t[11].b()?,
    })
}
fn build_removal(t: &[Tokv]) -> Option<debian_control::lossy::ftpmaster::Removal> {
    Some(debian_control::lossy::ftpmaster::Removal {
        date: t[0].s()?,
        suite: t[1].os()?,
        ftpmaster: t[2].s()?,
        sources: t[3].ol()?,
        binaries: t[4].ol()?,
        reason: t[5].s()?,
        bug: match &t[6] {
            Tokv::None => None,
            Tokv::N(n) => Some(u32::try_from(*n).ok()?),
            _ => return None,
        },
    })
}
fn build_apt_source(t: &[Tokv]) -> Option<debian_control::lossy::apt::Source> {
    let prio = match &t[23] {
        Tokv::None => None,
        Tokv::K(k) => Some([Priority::Required, Priority::Important, Priority::Standard, Priority::Optional, Priority::Extra].into_iter().find(|p| format!("{:?}", p) == *k)?),
        _ => return None,
    };
    Some(debian_control::lossy::apt::Source {
        directory: t[0].s()?,
        description: t[1].os()?,
        version: t[2].ox::<debversion::Version>()??,
        package: t[3].s()?,
        binaries: t[4].ol()?,
        maintainer: t[5].os()?,
        build_depends: t[6].os()?,
        build_depends_indep: t[7].ox()?,
        build_conflicts: t[8].ox()?,
        build_conflicts_indep: t[9].ox()?,
        standards_version: t[10].os()?,
        homepage: t[11].os()?,
        autobuild: t[12].ob()?,
        testsuite: t[13].os()?,
        vcs_browser: t[14].os()?,
        vcs_git: t[15].os()?,
        vcs_bzr: t[16].os()?,
        vcs_hg: t[17].os()?,
        vcs_svn: t[18].os()?,
        vcs_darcs: t[19].os()?,
        vcs_cvs: t[20].os()?,
        vcs_arch: t[21].os()?,
        vcs_mtn: t[22].os()?,
        priority: prio,
        section: t[24].os()?,
        format: t[25].os()?,
        package_list: t[26].l()?,
    })
}

fn build_value(id: &str, toks: &[&str]) -> Option<Box<dyn Val>> {
    let t: Vec<Tokv> = toks.iter().map(|x| tokv(x)).collect::<Option<_>>()?;
    match id {
        "apt.Release" if t.len() == 12 => Some(Box::new(build_release(&t)?)),
        "ftpmaster.Removal" if t.len() == 7 => Some(Box::new(build_removal(&t)?)),
        "apt.Source" if t.len() == 27 => Some(Box::new(build_apt_source(&t)?)),
        _ => None,
    }
}

/// is the value that `y` (read back) holds equal to the one the tokens describe?  `y` is re-read
/// from its own lossy paragraph into the concrete type to use the type's own equality.
fn eq_values(id: &str, toks: &[&str], y: &dyn Val) -> Result<bool, String> {
    let t: Vec<Tokv> = toks.iter().map(|x| tokv(x)).collect::<Option<_>>().ok_or("tokens")?;
    let p = y.to_lp();
    match id {
        "apt.Release" => {
            let x = build_release(&t).ok_or("build")?;
            let y2 = debian_control::lossy::apt::Release::from_paragraph(&p)?;
            // `y` itself is not reachable as a concrete type; its paragraph re-reads to y2 and both
            // print the same, so compare x with y2 and make sure y2 prints as y does
            let same_print = lp_items(&ToDeb822Paragraph::<LP>::to_paragraph(&y2)) == lp_items(&p);
            Ok(x == y2 && same_print)
        }
        "ftpmaster.Removal" => {
            let x = build_removal(&t).ok_or("build")?;
            let y2 = debian_control::lossy::ftpmaster::Removal::from_paragraph(&p)?;
            let same_print = lp_items(&ToDeb822Paragraph::<LP>::to_paragraph(&y2)) == lp_items(&p);
            Ok(format!("{:?}", x) == format!("{:?}", y2) && same_print)
        }
        "apt.Source" => {
            let x = build_apt_source(&t).ok_or("build")?;
            let y2 = debian_control::lossy::apt::Source::from_paragraph(&p)?;
            let same_print = lp_items(&ToDeb822Paragraph::<LP>::to_paragraph(&y2)) == lp_items(&p);
            Ok(x == y2 && same_print)
        }
        _ => Err("no constructor".into()),
    }
}

/// the leaf domains (`canon` of the registry codecs in Model/DeriveCodecs.lean), per field
fn value_in_domain(row: &StructRow, toks: &[&str]) -> bool {
    row.fields.iter().zip(toks.iter()).all(|(f, t)| match tokv(t) {
        Some(Tokv::L(l)) => {
            if f.de.ends_with("deserialize_package_list") {
                // splitLinesCodec.canon: no element contains a newline; [""] prints like []
                l.iter().all(|w| !w.contains('\n')) && !(l.len() == 1 && l[0].is_empty())
            } else if f.de.ends_with("deserialize_list") {
                // LinesDom, exact (C16_lines_roundtrip_iff): [] or: no line feed inside, the last element
                // not empty, no element but the last ends in CR
                match l.split_last() {
                    None => true,
                    Some((last, init)) => !last.is_empty() && l.iter().all(|w| !w.contains('\n')) && init.iter().all(|w| !w.ends_with('\r')),
                }
            } else {
                l.iter().all(|w| !w.is_empty() && !w.chars().any(|c| c.is_whitespace()))
            }
        }
        Some(_) => true,
        None => false,
    })
}

/// is the value a leaf codec reads from text `t` inside the codec's round-trip domain?  Only two codec
/// pairs of the workspace read values they do not write back (Props/C16More, Part 3):
///   `lines()` / `join("\n")` (ftpmaster `Sources`, `Binaries`): `LinesDom` — the empty list, or the last
///       line is not empty and no line but the last ends in CR (`a\n\n` reads `["a", ""]`, written `a\n`);
///   the buildinfo environment (`lines()`, `K=V` sorted, `join("\n")`): no `K=V` piece ends in CR.
/// Every other deserialiser returns values its serialiser writes back.
fn text_in_domain(f: &FieldRow, t: &str) -> bool {
    if f.de.ends_with("deserialize_list") {
        // LinesDom of Props/C16More (no element of `lines()` contains a line feed)
        let l: Vec<&str> = t.lines().collect();
        match l.split_last() {
            None => true,
            Some((last, init)) => !last.is_empty() && init.iter().all(|w| !w.ends_with('\r')),
        }
    } else if f.de.ends_with("deserialize_env") {
        t.lines().all(|l| !l.ends_with('\r'))
    } else {
        true
    }
}

/// all present own fields of the paragraph (first occurrence of each key, as `get` reads) are in their
/// codecs' domains
fn para_in_domain(row: &StructRow, ks: &[String], vs: &[String]) -> bool {
    row.fields.iter().all(|f| match ks.iter().position(|k| *k == f.key) {
        Some(i) => text_in_domain(f, &vs[i]),
        None => true,
    })
}

/// the lines of a paragraph text that belong to a comment or to an entry of a foreign key, in order,
/// without their line terminators (the last line may be unterminated)
fn foreign_lines(row: &StructRow, text: &str) -> Vec<String> {
    let mut keep = vec![];
    let mut cur_own = false;
    for line in text.split_inclusive('\n') {
        let bare = line.strip_suffix('\n').unwrap_or(line);
        if line.starts_with('#') {
            keep.push(bare.to_string());
        } else if line.starts_with(' ') || line.starts_with('\t') {
            if !cur_own {
                keep.push(bare.to_string());
            }
        } else {
            let k = line.split(':').next().unwrap_or("");
            cur_own = own(row, k);
            if !cur_own {
                keep.push(bare.to_string());
            }
        }
    }
    keep
}

// ------------------------------------------------------------------ handlers

pub fn handle(op: &str, a: &[&str]) -> Option<Resp> {
    match (op, a) {
        ("derive.from", [id, backend, ks, vs, _e]) => {
            let ops = all_ops().iter().find(|o| o.id == *id)?;
            let row = struct_row(id)?;
            let (ks, vs) = (dlist(ks)?, dlist(vs)?);
            if ks.len() != vs.len() {
                return None;
            }
            let lossless = match *backend {
                "lossy" => false,
                "lossless" => true,
                _ => return None,
            };
            let r = if lossless { (ops.from_ll)(&ll_of(&ks, &vs)) } else { (ops.from_lp)(&lp_of(&ks, &vs)) };
            // both back-ends must agree on the outcome
            let other = if lossless { (ops.from_lp)(&lp_of(&ks, &vs)) } else { (ops.from_ll)(&ll_of(&ks, &vs)) };
            Some(match r {
                Ok(x) => {
                    let items = if lossless { ll_items(&x.to_ll()) } else { lp_items(&x.to_lp()) };
                    let items = normalise(id, items);
                    let text = if lossless { x.to_ll().to_string() } else { x.to_lp().to_string() };
                    let mut fail = roundtrip_oracle(ops, id, x.as_ref(), para_in_domain(row, &ks, &vs));
                    if fail.is_none() {
                        fail = expected_order(row, &items);
                    }
                    match other {
                        Ok(y) => {
                            if normalise(id, lp_items(&y.to_lp())) != normalise(id, lp_items(&x.to_lp())) && fail.is_none() {
                                fail = Some("lossy and lossless from_paragraph give different values".into());
                            }
                        }
                        Err(e) => fail = Some(format!("other back-end fails: {}", e)),
                    }
                    Resp::with(format!("ok {} {}", show_items(&items), es(&text)), fail)
                }
                Err(msg) => {
                    let mut fail = error_oracle(row, &ks, &msg);
                    match other {
                        Err(m2) if m2 == msg => {}
                        Err(m2) => fail = Some(format!("back-ends give different errors: {:?} vs {:?}", msg, m2)),
                        Ok(_) => fail = Some(format!("other back-end succeeds where this one fails: {}", msg)),
                    }
                    Resp::with(format!("err {}", es(&msg)), fail)
                }
            })
        }
        ("derive.update", [id, backend, ks, vs, _e, pks, pvs, pt]) => {
            let ops = all_ops().iter().find(|o| o.id == *id)?;
            let row = struct_row(id)?;
            let (ks, vs, pks, pvs) = (dlist(ks)?, dlist(vs)?, dlist(pks)?, dlist(pvs)?);
            if ks.len() != vs.len() || pks.len() != pvs.len() {
                return None;
            }
            let x = match (ops.from_lp)(&lp_of(&ks, &vs)) {
                Ok(x) => x,
                Err(m) => return Some(Resp::ok(format!("src-err {}", es(&m)))),
            };
            let want = normalise(id, lp_items(&x.to_lp()));
            let prior: Vec<(String, String)> = pks.iter().cloned().zip(pvs.iter().cloned()).collect();
            let in_domain = para_in_domain(row, &ks, &vs);
            let (after, after_text, text_check): (Vec<(String, String)>, String, Option<String>) = match *backend {
                "lossy" => {
                    let mut p = lp_of(&pks, &pvs);
                    x.upd_lp(&mut p);
                    // read back
                    let rb = (ops.from_lp)(&p);
                    let fail = match rb {
                        _ if !in_domain => None,
                        Ok(y) if normalise(id, lp_items(&y.to_lp())) == want => None,
                        Ok(y) => Some(format!("updated paragraph reads back as {:?}, expected {:?}", lp_items(&y.to_lp()), want)),
                        Err(e) => Some(format!("updated paragraph does not read back: {}", e)),
                    };
                    (lp_items(&p), p.to_string(), fail)
                }
                "lossless" => {
                    let mut p: LL = if *pt == "-" {
                        ll_of(&pks, &pvs)
                    } else {
                        let text = ds(pt)?;
                        match LL::from_str(&text) {
                            Ok(p) => p,
                            Err(_) if prior.is_empty() => LL::new(),
                            Err(e) => return Some(Resp::with("bad-prior".into(), Some(format!("prior text does not parse: {}", e)))),
                        }
                    };
                    if ll_items(&p) != prior {
                        return Some(Resp::with("bad-prior".into(), Some(format!("prior text reads as {:?}, request says {:?}", ll_items(&p), prior))));
                    }
                    let before_text = p.to_string();
                    x.upd_ll(&mut p);
                    let rb = (ops.from_ll)(&p);
                    let mut fail = match rb {
                        _ if !in_domain => None,
                        Ok(y) if normalise(id, lp_items(&y.to_lp())) == want => None,
                        Ok(y) => Some(format!("updated paragraph reads back as {:?}, expected {:?}", lp_items(&y.to_lp()), want)),
                        Err(e) => Some(format!("updated paragraph does not read back: {}", e)),
                    };
                    // formatting (C16_lossless_update_keeps_foreign_nodes / _foreign_text): the lines of the
                    // prior text that are comments or belong to an entry of a foreign key are, byte for byte
                    // and in the same order, the comment / foreign lines of the new text — nothing lost,
                    // nothing added, nothing re-indented; the only admissible difference is the terminator
                    // of a previously unterminated last line (lines are compared without terminators)
                    let after_text = p.to_string();
                    if fail.is_none() {
                        let (fb, fa) = (foreign_lines(row, &before_text), foreign_lines(row, &after_text));
                        if fb != fa {
                            fail = Some(format!("comment / foreign lines changed: {:?} -> {:?} (before {:?} after {:?})", fb, fa, before_text, after_text));
                        }
                        // and the result is still one paragraph that re-parses to the same items (only
                        // claimed when every value has a text form of its own: lines non-empty, trimmed)
                        if fail.is_none() && text_safe(&ll_items(&p)) {
                            match LL::from_str(&after_text) {
                                Ok(q) if ll_items(&q) == ll_items(&p) => {}
                                Ok(q) => fail = Some(format!("text of the updated paragraph {:?} re-parses as {:?}, in memory it is {:?}", after_text, ll_items(&q), ll_items(&p))),
                                Err(_) if ll_items(&p).is_empty() => {}
                                Err(e) => fail = Some(format!("text of the updated paragraph {:?} does not parse: {}", after_text, e)),
                            }
                        }
                    }
                    (ll_items(&p), after_text, fail)
                }
                _ => return None,
            };
            let mut fail = text_check;
            // frame: foreign entries untouched (same sequence); absent optional own fields gone
            let foreign_before: Vec<&(String, String)> = prior.iter().filter(|(k, _)| !own(row, k)).collect();
            let foreign_after: Vec<&(String, String)> = after.iter().filter(|(k, _)| !own(row, k)).collect();
            if foreign_before != foreign_after && fail.is_none() {
                fail = Some(format!("foreign entries changed: {:?} -> {:?}", foreign_before, foreign_after));
            }
            for f in &row.fields {
                let present = want.iter().any(|(k, _)| *k == f.key);
                if !present && after.iter().any(|(k, _)| *k == f.key) && fail.is_none() {
                    fail = Some(format!("absent optional field {} still in the paragraph", f.key));
                }
            }
            Some(Resp::with(format!("ok {} {}", show_items(&normalise(id, after)), es(&after_text)), fail))
        }
        ("derive.value", [id, backend, toks @ ..]) => {
            let ops = all_ops().iter().find(|o| o.id == *id)?;
            let row = struct_row(id)?;
            if toks.len() != row.fields.len() {
                return None;
            }
            let lossless = match *backend {
                "lossy" => false,
                "lossless" => true,
                _ => return None,
            };
            let x: Box<dyn Val> = build_value(id, toks)?;
            let items = if lossless { ll_items(&x.to_ll()) } else { lp_items(&x.to_lp()) };
            let back = if lossless { (ops.from_ll)(&x.to_ll()) } else { (ops.from_lp)(&x.to_lp()) };
            let rt = match back {
                Ok(y) => eq_values(id, toks, y.as_ref()),
                Err(e) => Err(e),
            };
            let rt_s = match &rt {
                Ok(true) => "rt:same".to_string(),
                Ok(false) => "rt:diff".to_string(),
                Err(e) => format!("rt:err {}", es(e)),
            };
            let mut fail = None;
            if value_in_domain(row, toks) && rt != Ok(true) {
                fail = Some(format!("from_paragraph(to_paragraph(x)) != x: {}", rt_s));
            }
            if fail.is_none() {
                fail = expected_order(row, &items);
            }
            Some(Resp::with(format!("ok {} {}", show_items(&normalise(id, items)), rt_s), fail))
        }
        _ => None,
    }
}

// ------------------------------------------------------------------ generators

/// texts for a leaf codec: first the ones it accepts (canonical first), then ones it rejects
pub fn pool(f: &FieldRow) -> (Vec<&'static str>, Vec<&'static str>) {
    let ty = f.ty.as_str();
    let de = f.de.as_str();
    if de.ends_with("yesno") || de.ends_with("to_bool") {
        return (vec!["yes", "no"], vec!["true", "Yes", "", "ja"]);
    }
    match ty {
        "bool" => (vec!["true", "false"], vec!["yes", "True", "", "1"]),
        "u32" => (vec!["0", "7", "4294967295", "+5", "007"], vec!["4294967296", "-1", "", "x", "1 "]),
        "usize" => (vec!["0", "12345", "18446744073709551615", "+5"], vec!["18446744073709551616", "-1", "", "1.5"]),
        "i32" => (vec!["0", "-7", "42"], vec!["x", ""]),
        "Priority" | "crate::fields::Priority" => (vec!["optional", "required", "extra"], vec!["Optional", "", "low"]),
        "crate::fields::MultiArch" => (vec!["same", "foreign", "no", "allowed"], vec!["Same", "yes", ""]),
        "YesNoForce" => (vec!["yes", "no", "force"], vec!["Force", "", "true"]),
        // lists mixing negated and plain terms, several lists, qualifiers: the typed value must carry
        // what the lossless reader shows (after seeded change C20-r7m1)
        "Relations" => (
            vec![
                "a", "a (>= 1.0), b | c", "libc6 (>= 2.17) [amd64]", "", "a,b", "a  ( >= 1 )",
                "a <!nocheck cross>", "a [!amd64 i386]", "a [amd64 !i386] <!x y> <z !w>", "a:any (<< 2) [!hurd-i386 linux-any] <!stage1 pkg.foo.full> | b",
            ],
            vec!["a (", "a (>= 1", "(", "a b"],
        ),
        "url::Url" => (vec!["https://example.org/", "https://example.org", "http://a.b/c?d=e#f", "HTTPS://EXAMPLE.ORG/x y"], vec!["not a url", "", "/relative"]),
        "Vec<Url>" => (vec!["https://example.org/", "https://a.org/ http://b.org/x", "", "https://example.org"], vec!["nope", "https://a.org/ nope"]),
        "debversion::Version" => (vec!["1.0-1", "1:2.3~rc1-4", "0", "1.0-1 "], vec!["", "a:1", "1 2"]),
        "chrono::NaiveDate" => (vec!["2024-01-31", "1999-12-01", "2024-1-5"], vec!["2024-13-01", "x", "", "2024-01-31 "]),
        "crate::vcs::ParsedVcs" => (vec!["https://e.org/r.git", "https://e.org/r.git -b main", "https://e.org/r.git -b main [sub]", "u [s]", " u ", ""], vec![]),
        "Forwarded" => (vec!["no", "not-needed", "https://bugs.example.org/1", "yes", ""], vec![]),
        "AppliedUpstream" => (vec!["commit:abc123", "1.2.3", "commit:", ""], vec![]),
        "(Option<OriginCategory>, Origin)" => (vec!["upstream, commit:abc", "vendor, https://e.org/p", "backport", "commit:abc", "https://e.org", "other, ", "Upstream, x", ""], vec![]),
        "License" => (vec!["GPL-2+", "GPL-2+\ntext line\n.\nmore", "\nonly text", "", "MIT\n"], vec![]),
        "Signature" => (vec!["/usr/share/keyrings/k.gpg", "\n-----BEGIN PGP PUBLIC KEY BLOCK-----\n.\nmQ==\n-----END PGP PUBLIC KEY BLOCK-----", "a\nb", ""], vec![]),
        "HashSet<RepositoryType>" => (vec!["deb", "deb deb-src", "deb-src\ndeb", "", "deb deb"], vec!["rpm", "deb rpm", "Deb"]),
        "HashMap<String, String>" => (vec!["A=1\n", "A=1", "A=1\nB=x=y\n", "", "A=1\nA=2", "B=1\nA=2\r", "A=1\r\nB=2"], vec!["novalue", "A=1\nB", "A=1\n\n"]),
        "PathBuf" => (vec!["/build/x-1.0", "rel/path", ""], vec![]),
        "Vec<String>" => {
            if de.ends_with("package_list") || de.ends_with("copyrights") {
                (vec!["a deb x optional", "l1\nl2", "", "a\n", "2020 A\n2021 B"], vec![])
            } else if de.ends_with("deserialize_list") {
                (vec!["a", "a\nb", "", "a\n", "a\n\nb", "a\r\nb", "foo_1.0-1 [amd64, i386]\nlibfoo1_1.0-1 [all]", "a b", "a\n\n", "\n", "a\r", "a\r\n\r\n", "\na"], vec![])
            } else {
                (vec!["a", "a b c", "", " a  b ", "a\nb", "main contrib", "x #y z", "RCS/*,v a,b"], vec![])
            }
        }
        _ => (vec!["value", "two words", "", "multi\nline", " lead", "é", "a: b", "#hash", "first\n\nthird", "a\nb\n\nc"], vec![]),
    }
}

fn ext_for(f: &FieldRow, t: &str) -> String {
    match external(&f.ser, &f.de, &f.ty, t) {
        None => "-".to_string(),
        Some(Ok(c)) => format!("o{}", hex(c.as_bytes())),
        Some(Err(e)) => format!("e{}", hex(e.as_bytes())),
    }
}

/// a paragraph as (keys, values, ext column): own fields get the ext result of the field that reads them
fn cols(row: &StructRow, entries: &[(String, String)]) -> [String; 3] {
    let ks: Vec<String> = entries.iter().map(|e| e.0.clone()).collect();
    let vs: Vec<String> = entries.iter().map(|e| e.1.clone()).collect();
    let ex: Vec<String> = entries
        .iter()
        .map(|(k, v)| match row.fields.iter().find(|f| f.key == *k) {
            Some(f) => ext_for(f, v),
            None => "-".to_string(),
        })
        .collect();
    [elist(&ks), elist(&vs), ex.join(",")]
}

/// lossless prior text in one of several layouts (all of them read back as the same entries):
///   0  canonical `K: v`, continuation lines indented by one blank, no comments
///   1  the same with a comment line before every second entry and a trailing comment
///   2  `K:v` — no blank after the colon; continuation lines indented by a tab
///   3  `K:\tv` — a tab after the colon; continuation lines indented by three blanks
///   4  `K:   v` — three blanks; continuation lines indented by tab + blank, then by two blanks, ...
///   5  canonical, a comment line directly before EVERY entry (so also between two duplicates of an
///      owned key and directly before an entry that the update removes) and a trailing comment
///      WITHOUT a final line feed
///   6  layout 4 with the comments of layout 5
fn render_prior(entries: &[(String, String)], style: u8) -> String {
    let mut t = String::new();
    let (sep, indents): (&str, &[&str]) = match style {
        2 => ("", &["\t"]),
        3 => ("\t", &["   "]),
        4 | 6 => ("   ", &["\t ", "  ", " \t", "    "]),
        _ => (" ", &[" "]),
    };
    for (i, (k, v)) in entries.iter().enumerate() {
        match style {
            1 if i % 2 == 1 => t.push_str("# a comment\n"),
            5 | 6 => t.push_str(&format!("# before {}\n", i)),
            _ => {}
        }
        let mut lines = v.split('\n');
        let first = lines.next().unwrap_or("");
        // an empty first line keeps nothing after the colon (blanks there would be the value's)
        t.push_str(&format!("{}:{}{}\n", k, if first.is_empty() { "" } else { sep }, first));
        for (j, l) in lines.enumerate() {
            t.push_str(&format!("{}{}\n", indents[j % indents.len()], l));
        }
    }
    if !entries.is_empty() {
        match style {
            1 => t.push_str("# trailing comment\n"),
            5 | 6 => t.push_str("#trailing, unterminated"),
            _ => {}
        }
    }
    t
}

/// can this prior paragraph be written as text that the lossless reader gives back unchanged?
fn text_safe(entries: &[(String, String)]) -> bool {
    entries.iter().all(|(k, v)| {
        !k.is_empty()
            && k.chars().all(|c| c.is_ascii_graphic() && c != ':')
            && !k.starts_with('-')
            && !k.starts_with('#')
            && v.split('\n').enumerate().all(|(i, l)| (l.trim() == l && !l.is_empty() && !(i > 0 && l.starts_with('#'))) || (i == 0 && l.is_empty() && !v.contains('\n')))
    })
}

pub fn generate_c16(tier: &str, seed: u64, out: &mut Out) {
    let thorough = tier == "thorough";
    let mut rng = Rng::new(seed);
    let foreign: Vec<(String, String)> = vec![
        ("X-Foreign".into(), "kept".into()),
        ("Another".into(), "one\ntwo".into()),
        ("x-lower".into(), "v".into()),
    ];
    for row in struct_rows() {
        if all_ops().iter().all(|o| o.id != row.id) {
            if row.id.starts_with("convert.") {
                continue; // test-local structs of src/convert.rs: translated, not reachable
            }
            // a struct the harness cannot drive: make it visible
            out.req("derive.from", &[row.id.clone(), "lossy".into(), "".into(), "".into(), "".into()]);
            continue;
        }
        if !(row.from && row.to) {
            continue;
        }
        let n = row.fields.len();
        let good: Vec<Vec<&str>> = row.fields.iter().map(|f| pool(f).0).collect();
        let bad: Vec<Vec<&str>> = row.fields.iter().map(|f| pool(f).1).collect();
        let full = |variant: usize| -> Vec<(String, String)> {
            row.fields.iter().enumerate().map(|(i, f)| (f.key.clone(), good[i][variant % good[i].len()].to_string())).collect()
        };
        let emit_from = |out: &mut Out, entries: &[(String, String)]| {
            let c = cols(row, entries);
            for b in ["lossy", "lossless"] {
                out.req("derive.from", &[row.id.clone(), b.to_string(), c[0].clone(), c[1].clone(), c[2].clone()]);
            }
        };
        let emit_update = |out: &mut Out, src: &[(String, String)], prior: &[(String, String)]| {
            let c = cols(row, src);
            let pk: Vec<String> = prior.iter().map(|e| e.0.clone()).collect();
            let pv: Vec<String> = prior.iter().map(|e| e.1.clone()).collect();
            out.req("derive.update", &[row.id.clone(), "lossy".into(), c[0].clone(), c[1].clone(), c[2].clone(), elist(&pk), elist(&pv), "-".into()]);
            out.req("derive.update", &[row.id.clone(), "lossless".into(), c[0].clone(), c[1].clone(), c[2].clone(), elist(&pk), elist(&pv), "-".into()]);
            if text_safe(prior) {
                for style in 0..=6u8 {
                    out.req(
                        "derive.update",
                        &[row.id.clone(), "lossless".into(), c[0].clone(), c[1].clone(), c[2].clone(), elist(&pk), elist(&pv), es(&render_prior(prior, style))],
                    );
                }
                // the same prior text without its final newline: a field appended by the update must
                // not be glued onto the unterminated last line
                let t = render_prior(prior, 0);
                if t.ends_with('\n') && !prior.is_empty() {
                    out.req(
                        "derive.update",
                        &[row.id.clone(), "lossless".into(), c[0].clone(), c[1].clone(), c[2].clone(), elist(&pk), elist(&pv), es(&t[..t.len() - 1])],
                    );
                }
            }
        };
        // 1 every field present, each variant of the pools
        let maxv = good.iter().map(|g| g.len()).max().unwrap_or(1).max(1);
        for v in 0..maxv {
            emit_from(out, &full(v));
        }
        // 2 one field at a time: each good text, each bad text, absent; the others canonical
        for i in 0..n {
            for t in good[i].iter().chain(bad[i].iter()) {
                let mut e = full(0);
                e[i].1 = t.to_string();
                emit_from(out, &e);
            }
            let mut e = full(0);
            e.remove(i);
            emit_from(out, &e);
        }
        // 3 only the mandatory fields; nothing at all; foreign fields only; wrong-case keys
        let mand: Vec<(String, String)> = full(0).into_iter().enumerate().filter(|(i, _)| !row.fields[*i].optional).map(|(_, e)| e).collect();
        emit_from(out, &mand);
        emit_from(out, &[]);
        emit_from(out, &foreign);
        let lower: Vec<(String, String)> = full(0).into_iter().map(|(k, v)| (k.to_lowercase(), v)).collect();
        emit_from(out, &lower);
        // 4 reversed order, duplicates (first one wins), foreign entries interleaved
        let mut rev = full(1);
        rev.reverse();
        emit_from(out, &rev);
        let mut dup = full(0);
        dup.extend(full(1));
        emit_from(out, &dup);
        let mut mixed = vec![foreign[0].clone()];
        for (i, e) in full(0).into_iter().enumerate() {
            mixed.push(e);
            if i % 3 == 0 {
                mixed.push(foreign[1 + i % 2].clone());
            }
        }
        emit_from(out, &mixed);
        // 5 updates: value from a source paragraph x prior paragraph contents
        let mut priors: Vec<Vec<(String, String)>> = vec![vec![], full(1), foreign.clone(), mixed.clone(), rev.clone(), dup.clone()];
        {
            // prior holding only the optional fields, and one with a foreign field between own ones
            let opt: Vec<(String, String)> = full(1).into_iter().enumerate().filter(|(i, _)| row.fields[*i].optional).map(|(_, e)| e).collect();
            priors.push(opt);
            let mut sand = vec![];
            for (i, e) in full(2).into_iter().enumerate() {
                if i == 1 {
                    sand.push(foreign[0].clone());
                }
                sand.push(e);
            }
            sand.push(foreign[2].clone());
            priors.push(sand);
        }
        {
            // priors whose fields differ from the struct's keys only in letter case: foreign fields
            // for both back-ends (field lookup is case-sensitive), kept untouched by an update
            priors.push(lower.clone());
            let upper: Vec<(String, String)> = full(1).into_iter().map(|(k, v)| (k.to_uppercase(), v)).collect();
            priors.push(upper.clone());
            let mut both = lower.clone();
            both.extend(full(1));
            priors.push(both);
        }
        let mut srcs: Vec<Vec<(String, String)>> = vec![full(0), full(1), mand.clone()];
        for i in 0..n {
            if row.fields[i].optional {
                let mut e = full(0);
                e.remove(i);
                srcs.push(e);
            }
        }
        for s in &srcs {
            for p in &priors {
                emit_update(out, s, p);
            }
        }
        // 6 seeded random paragraphs
        let rounds = if thorough { 3000 } else { 300 };
        for _ in 0..rounds {
            let mut e: Vec<(String, String)> = vec![];
            for (i, f) in row.fields.iter().enumerate() {
                if !f.optional || rng.chance(60) {
                    let t = if rng.chance(8) && !bad[i].is_empty() { *rng.pick(&bad[i]) } else { *rng.pick(&good[i]) };
                    if !(f.optional == false && rng.chance(3)) {
                        e.push((f.key.clone(), t.to_string()));
                    }
                }
                if rng.chance(10) {
                    e.push(rng.pick(&foreign).clone());
                }
            }
            if rng.chance(30) {
                let k = rng.below(e.len() + 1);
                let j = rng.below(e.len() + 1);
                if k < e.len() && j < e.len() {
                    e.swap(k, j);
                }
            }
            emit_from(out, &e);
            if rng.chance(50) {
                let p = rng.pick(&priors).clone();
                emit_update(out, &e, &p);
            }
        }
    }

    // ---- directly constructed values (public-field structs)
    let sx = |s: &str| format!("s:{}", es(s));
    let lx = |l: &[&str]| format!("l:{}", elist(l));
    // incl. the values of audit D3 (C16_lines_witnesses): [""], ["a",""], ["a\r","b"] do not survive the
    // `lines()` codec; ["","a"], ["a","","b"], ["a\r"] do (exact domain LinesDom)
    let lists: Vec<Vec<&str>> = vec![
        vec![], vec!["main"], vec!["main", "contrib"], vec!["a b"], vec![""], vec!["a", ""], vec!["l1\nl2"], vec!["a\r"],
        vec!["a\r", "b"], vec!["", "a"], vec!["a", "", "b"],
    ];
    for b in ["lossy", "lossless"] {
        for c in &lists {
            for a in &lists {
                let mut v = vec!["apt.Release".to_string(), b.to_string(), sx("sid"), lx(c), lx(a)];
                for s in ["d", "Debian", "Debian", "unstable", "x", "Sat, 01 Jan 2022"] {
                    v.push(sx(s));
                }
                v.extend(["b:1".to_string(), "b:0".to_string(), "b:1".to_string()]);
                out.req("derive.value", &v);
            }
        }
        // plain String fields: any string survives to_paragraph / from_paragraph on both back-ends,
        // white space at its ends, an empty string and line breaks included (nothing is trimmed)
        for odd in [" lead", "trail ", "\tx\t", "", "a\nb", "\nlead-lf", "  ", "\u{a0}nbsp\u{3000}"] {
            for pos in 0..6 {
                let mut v = vec!["apt.Release".to_string(), b.to_string(), sx("sid"), lx(&["main"]), lx(&["amd64"])];
                for (i, s) in ["d", "Debian", "Debian", "unstable", "x", "Sat, 01 Jan 2022"].iter().enumerate() {
                    v.push(sx(if i == pos { odd } else { s }));
                }
                v.extend(["b:1".to_string(), "b:0".to_string(), "b:1".to_string()]);
                out.req("derive.value", &v);
            }
            out.req(
                "derive.value",
                &["ftpmaster.Removal".to_string(), b.to_string(), sx(odd), "none".into(), sx(odd), "none".into(), "none".into(), sx(odd), "none".into()],
            );
        }
        let olists: Vec<Option<Vec<&str>>> = std::iter::once(None).chain(lists.iter().cloned().map(Some)).collect();
        for so in &olists {
            for bi in &olists {
                for bug in ["none", "n:0", "n:4294967295"] {
                    let ol = |o: &Option<Vec<&str>>| match o {
                        None => "none".to_string(),
                        Some(l) => lx(l),
                    };
                    out.req(
                        "derive.value",
                        &["ftpmaster.Removal".to_string(), b.to_string(), sx("2024-01-01"), "none".into(), sx("Joe"), ol(so), ol(bi), sx("ROM"), bug.to_string()],
                    );
                }
            }
        }
        for pl in &lists {
            for bins in &olists {
                let mut v = vec!["apt.Source".to_string(), b.to_string(), sx("pool/main/x"), "none".into(), format!("x:{}", es("1.0-1")), sx("x")];
                v.push(match bins {
                    None => "none".to_string(),
                    Some(l) => lx(l),
                });
                v.push(sx("M <m@e.org>"));
                v.push("none".into());
                v.push(format!("x:{}", es("a (>= 1), b")));
                v.push("none".into());
                v.push("none".into());
                v.push(sx("4.6.2"));
                v.push("none".into());
                v.push("b:1".into());
                for _ in 13..23 {
                    v.push("none".into());
                }
                v.push("k:Optional".into());
                v.push(sx("utils"));
                v.push("none".into());
                v.push(lx(pl));
                out.req("derive.value", &v);
            }
        }
    }
}
