//! C12: dependency satisfaction — lossless `Relations::satisfied_by` / `Entry::satisfied_by`,
//! lossy `Relations::satisfied_by` / `Relation::satisfied_by`, the three `VersionLookup` forms,
//! and `debversion::Version::cmp`.
//!
//! ops
//!   ver.cmp <a> <b>                       -> `<parse a> <parse b> <lt|eq|gt|PANIC|->`
//!   rel.sat <field text> <lossy> <assign> -> `strict=<ok|err> L:<mcp> Y:<mcp|err> same=<1|0|P|->`
//!       m, c, p = the answer (1/0/P=panic) with the installed versions supplied as a
//!       `HashMap<String, Version>`, a closure, a `(String, Version)` pair (`-` when the assignment
//!       is not a single pair); L = lossless evaluator on the `parse_relaxed` tree, Y = lossy
//!       evaluator; same = the accessor view (`name()`, `version()`) of the tree equals the lossy
//!       records.
//!   `<lossy>` = what the real lossy parser returns for the text (`err`, `-` = no entry, or entries
//!       `;`-joined, alternatives `|`-joined, each `x<name>` or `x<name>/<op>/<epoch|none>:x<up>:<x<rev>|none>`);
//!       the generator fills it in, the worker recomputes it and refuses a request that differs.
//!   `<assign>` = `-` or `x<pkg>=x<version text>` `,`-joined, package names distinct.
//!   rel.strict <field text>               -> `strict=<ok|err> view=<k|P> acc=<..> cls=<..|-> sat=<n><a>`
//!       (Props/C12Strict.lean) acc = per alternative (entries `;`, alternatives `|`, `-` = no entry) what
//!       the accessors do: `N` = `name()` panics, `V` = `version()` panics, `k` = neither; view = `P` iff
//!       any of them panics; cls (strict=ok only) = per alternative `o` = operator outside the five
//!       (`badOp`), `e` = epoch >= 2^32 (`bigEpoch`), `b` = both, `.` = neither — the worker reads it off
//!       the alternative's printed text, the model off the tree; sat = lossless `satisfied_by` (1/0/P) with
//!       nothing installed / with every package installed at version `0`.
//!
//!   ver.cmpraw <version> <version>        -> `<lt|eq|gt|PANIC>`: `Version::cmp` on two values built LITERALLY
//!       (`Version { epoch, upstream_version, debian_revision }`, not through `from_str`), each given as
//!       `<epoch|none>:x<upstream>:<x<revision>|none>`. Model: the byte-index twin `DebVersion.compareB`
//!       (Model/DebVersionRaw.lean). Oracle only when both values have version characters only
//!       (`ValidV` of Props/C12Order.lean): dpkg order on the fields, absent revision = "" as in dpkg.
//!   lk.forms <assign> <name>              -> `m=<v> c=<v> p=<v|->`: `lookup_version(name)` of the three
//!       `VersionLookup` impls themselves (`HashMap<String, Version>`, a closure, `(String, Version)`),
//!       `<v>` = `none` or the version as above. Model: `Lookup.ofMap` / `ofFn` / `ofPair`.
//!
//! `Relations::satisfied_by` and `Entry::satisfied_by` want `impl VersionLookup + Copy`; neither
//! `HashMap<String, Version>` nor `(String, Version)` is `Copy`, so those two forms reach the
//! field-level evaluators only through a closure that forwards to their `lookup_version`. The
//! lossy `Relation::satisfied_by` (no `Copy` bound) takes them by value; that route is checked too.
use crate::util::*;
use crate::Resp;
use debian_control::lossless::relations::Relations as LRelations;
use debian_control::lossy::Relations as YRelations;
use debian_control::relations::VersionConstraint;
use debian_control::VersionLookup;
use debversion::Version;
use std::cmp::Ordering;
use std::collections::HashMap;
use std::panic::{catch_unwind, AssertUnwindSafe};
use std::str::FromStr;

// ------------------------------------------------------------------ the property's own oracle
// (written from Debian Policy 5.6.12 / 7.1 and dpkg's verrevcmp, not from the crates)

fn ref_order(c: Option<u8>) -> i32 {
    match c {
        None => 0,
        Some(c) if c.is_ascii_digit() => 0,
        Some(c) if c.is_ascii_alphabetic() => c as i32,
        Some(b'~') => -1,
        Some(c) => c as i32 + 256,
    }
}

/// dpkg `verrevcmp`: digit runs compared without converting them to machine integers
fn ref_verrevcmp(a: &[u8], b: &[u8]) -> Ordering {
    let (mut i, mut j) = (0, 0);
    while i < a.len() || j < b.len() {
        while (i < a.len() && !a[i].is_ascii_digit()) || (j < b.len() && !b[j].is_ascii_digit()) {
            let (ac, bc) = (ref_order(a.get(i).copied()), ref_order(b.get(j).copied()));
            if ac != bc {
                return ac.cmp(&bc);
            }
            i += 1;
            j += 1;
        }
        while i < a.len() && a[i] == b'0' {
            i += 1;
        }
        while j < b.len() && b[j] == b'0' {
            j += 1;
        }
        let mut first_diff = Ordering::Equal;
        while i < a.len() && j < b.len() && a[i].is_ascii_digit() && b[j].is_ascii_digit() {
            if first_diff == Ordering::Equal {
                first_diff = a[i].cmp(&b[j]);
            }
            i += 1;
            j += 1;
        }
        if i < a.len() && a[i].is_ascii_digit() {
            return Ordering::Greater;
        }
        if j < b.len() && b[j].is_ascii_digit() {
            return Ordering::Less;
        }
        if first_diff != Ordering::Equal {
            return first_diff;
        }
    }
    Ordering::Equal
}

/// [epoch:]upstream[-revision] per Policy 5.6.12: epoch = digits before the first colon,
/// revision = after the last hyphen; absent epoch = 0, absent revision = "0". An epoch that does not
/// fit a `u32` is not a valid version (dpkg: "epoch in version is too big", bound `INT_MAX`; the
/// crate's `Version.epoch` is a `u32`): `None`, the oracle is silent (`a (>= 4294967296:1)`).
fn ref_split(v: &str) -> Option<(u64, &str, &str)> {
    let (epoch, rest) = match v.find(':') {
        Some(i) if !v[..i].is_empty() && v[..i].bytes().all(|c| c.is_ascii_digit()) => (v[..i].parse::<u32>().ok()? as u64, &v[i + 1..]),
        _ => (0, v),
    };
    let (up, rev) = match rest.rfind('-') {
        Some(i) if i > 0 && i + 1 < rest.len() => (&rest[..i], &rest[i + 1..]),
        _ => (rest, "0"),
    };
    if up.is_empty() || !up.bytes().all(|c| c.is_ascii_alphanumeric() || b".+:~-".contains(&c)) {
        return None;
    }
    if !rev.bytes().all(|c| c.is_ascii_alphanumeric() || b".+~".contains(&c)) {
        return None;
    }
    Some((epoch, up, rev))
}

fn ref_vercmp(a: &str, b: &str) -> Option<Ordering> {
    let (ea, ua, ra) = ref_split(a)?;
    let (eb, ub, rb) = ref_split(b)?;
    Some(ea.cmp(&eb).then(ref_verrevcmp(ua.as_bytes(), ub.as_bytes())).then(ref_verrevcmp(ra.as_bytes(), rb.as_bytes())))
}

/// one alternative as the statement sees it: package, optional (operator, version text)
struct RefRel {
    name: String,
    ver: Option<(String, String)>,
}

/// reference reader for the plain grammar of Policy 7.1: entries separated by `,`, alternatives by
/// `|`, each `name[:qual] [(op version)] [[archs]] [<profiles>]…`. `None` = outside that grammar
/// (then the oracle is silent).
fn ref_parse(text: &str) -> Option<Vec<Vec<RefRel>>> {
    let mut field = vec![];
    if text.trim().is_empty() {
        return Some(field);
    }
    for entry in text.split(',') {
        let mut alts = vec![];
        for alt in entry.split('|') {
            let alt = alt.trim();
            let name_end = alt.find(|c: char| !(c.is_ascii_alphanumeric() || "+-.".contains(c))).unwrap_or(alt.len());
            let name = &alt[..name_end];
            if name.is_empty() {
                return None;
            }
            let mut rest = alt[name_end..].trim_start();
            if let Some(r) = rest.strip_prefix(':') {
                let q = r.find(|c: char| !(c.is_ascii_alphanumeric() || c == '-')).unwrap_or(r.len());
                if q == 0 {
                    return None;
                }
                rest = r[q..].trim_start();
            }
            let mut ver = None;
            if let Some(r) = rest.strip_prefix('(') {
                let close = r.find(')')?;
                let inner = r[..close].trim_start();
                let op_end = inner.find(|c: char| !"<>=".contains(c)).unwrap_or(inner.len());
                let op = &inner[..op_end];
                if !["<<", "<=", "=", ">=", ">>"].contains(&op) {
                    return None;
                }
                // the version is one token directly before `)`; at most one colon (the epoch).
                // (Both readers refuse `( >= 2 )`, the lossless one refuses a second colon: reader
                // matters, outside C12.)
                let v = inner[op_end..].trim_start();
                if v.contains(char::is_whitespace) || v.matches(':').count() > 1 {
                    return None;
                }
                ref_split(v)?;
                ver = Some((op.to_string(), v.to_string()));
                rest = r[close + 1..].trim_start();
            }
            if let Some(r) = rest.strip_prefix('[') {
                let close = r.find(']')?;
                // (negated architectures `!i386` are refused by the lossy reader: reader matter)
                if !r[..close].chars().all(|c| c.is_ascii_alphanumeric() || " -".contains(c)) {
                    return None;
                }
                rest = r[close + 1..].trim_start();
            }
            while let Some(r) = rest.strip_prefix('<') {
                let close = r.find('>')?;
                if !r[..close].chars().all(|c| c.is_ascii_alphanumeric() || " -!.".contains(c)) {
                    return None;
                }
                rest = r[close + 1..].trim_start();
            }
            if !rest.is_empty() {
                return None;
            }
            alts.push(RefRel { name: name.to_string(), ver });
        }
        field.push(alts);
    }
    Some(field)
}

/// Policy 7.1: every entry has an alternative whose package is installed and, if versioned, whose
/// installed version stands in the stated relation to the required one
fn ref_sat(field: &[Vec<RefRel>], assign: &[(String, String)]) -> Option<bool> {
    let mut all = true;
    for entry in field {
        let mut any = false;
        for r in entry {
            let inst = assign.iter().find(|(p, _)| *p == r.name).map(|(_, v)| v.as_str());
            let ok = match (&r.ver, inst) {
                (_, None) => false,
                (None, Some(_)) => true,
                (Some((op, w)), Some(v)) => {
                    let o = ref_vercmp(v, w)?;
                    match op.as_str() {
                        "<<" => o == Ordering::Less,
                        "<=" => o != Ordering::Greater,
                        "=" => o == Ordering::Equal,
                        ">=" => o != Ordering::Less,
                        ">>" => o == Ordering::Greater,
                        _ => return None,
                    }
                }
            };
            any = any || ok;
        }
        all = all && any;
    }
    Some(all)
}

// ------------------------------------------------------------------ observing the real code

fn guard<T>(f: impl FnOnce() -> T) -> Option<T> {
    catch_unwind(AssertUnwindSafe(f)).ok()
}

fn show(b: Option<bool>) -> char {
    match b {
        Some(true) => '1',
        Some(false) => '0',
        None => 'P',
    }
}

fn enc_version(v: &Version) -> String {
    format!(
        "{}:{}:{}",
        v.epoch.map(|e| e.to_string()).unwrap_or_else(|| "none".to_string()),
        es(&v.upstream_version),
        eopt(v.debian_revision.as_deref())
    )
}

fn vc_code(vc: &VersionConstraint) -> &'static str {
    match vc {
        VersionConstraint::GreaterThanEqual => "ge",
        VersionConstraint::LessThanEqual => "le",
        VersionConstraint::Equal => "eq",
        VersionConstraint::GreaterThan => "gt",
        VersionConstraint::LessThan => "lt",
    }
}

fn enc_rel(name: &str, ver: &Option<(VersionConstraint, Version)>) -> String {
    match ver {
        None => es(name),
        Some((vc, v)) => format!("{}/{}/{}", es(name), vc_code(vc), enc_version(v)),
    }
}

fn enc_lossy(text: &str) -> (Option<YRelations>, String) {
    match YRelations::from_str(text) {
        Err(_) => (None, "err".to_string()),
        Ok(r) => {
            let s = if r.0.is_empty() {
                "-".to_string()
            } else {
                r.0.iter()
                    .map(|e| e.iter().map(|x| enc_rel(&x.name, &x.version)).collect::<Vec<_>>().join("|"))
                    .collect::<Vec<_>>()
                    .join(";")
            };
            (Some(r), s)
        }
    }
}

fn dec_assign(s: &str) -> Option<Vec<(String, String)>> {
    if s == "-" {
        return Some(vec![]);
    }
    let mut out: Vec<(String, String)> = vec![];
    for b in s.split(',') {
        let (p, v) = b.split_once('=')?;
        let p = ds(p)?;
        if out.iter().any(|(q, _)| *q == p) {
            return None;
        }
        out.push((p, ds(v)?));
    }
    Some(out)
}

/// `<epoch|none>:x<upstream>:<x<revision>|none>` -> a `Version` built literally
fn dec_version_raw(s: &str) -> Option<Version> {
    let parts: Vec<&str> = s.split(':').collect();
    if parts.len() != 3 {
        return None;
    }
    let epoch = if parts[0] == "none" { None } else { Some(parts[0].parse::<u32>().ok()?) };
    let upstream_version = ds(parts[1])?;
    let debian_revision = if parts[2] == "none" { None } else { Some(ds(parts[2])?) };
    Some(Version { epoch, upstream_version, debian_revision })
}

/// version characters only (the image of `Version::from_str` lies inside)
fn valid_raw(v: &Version) -> bool {
    v.upstream_version.bytes().all(|c| c.is_ascii_alphanumeric() || b".+:~-".contains(&c))
        && v.debian_revision.as_deref().map_or(true, |r| r.bytes().all(|c| c.is_ascii_alphanumeric() || b".+~".contains(&c)))
}

/// `dpkg_version_compare` on the three fields: epoch, `verrevcmp(version)`, `verrevcmp(revision)`
/// with a missing revision compared as "" (dpkg), not "0" (the crate)
fn ref_cmp_fields(v: &Version, w: &Version) -> Ordering {
    v.epoch.unwrap_or(0)
        .cmp(&w.epoch.unwrap_or(0))
        .then(ref_verrevcmp(v.upstream_version.as_bytes(), w.upstream_version.as_bytes()))
        .then(ref_verrevcmp(v.debian_revision.as_deref().unwrap_or("").as_bytes(), w.debian_revision.as_deref().unwrap_or("").as_bytes()))
}

fn show_lookup(v: Option<Version>) -> String {
    v.as_ref().map(enc_version).unwrap_or_else(|| "none".to_string())
}

// ------------------------------------------------------------------ C12Strict: BAD relations
// (Props/C12Strict.lean: on strict-accepted text `version()` panics exactly on these)

/// (`badOp`, `bigEpoch`) read off the printed text of one alternative of a strict-accepted field: the
/// first `(` opens the version part `( ws* ops ws* version ws* )`; `ops` is the run of `<`, `>`, `=`
/// (possibly empty), `version` the run up to white space or `)`.
fn ref_bad(rel: &str) -> (bool, bool) {
    let ws = |c: char| c == ' ' || c == '\t' || c == '\r' || c == '\n';
    let Some(i) = rel.find('(') else { return (false, false) };
    let inner = rel[i + 1..].trim_start_matches(ws);
    let op_end = inner.find(|c: char| !"<>=".contains(c)).unwrap_or(inner.len());
    let op = &inner[..op_end];
    let rest = inner[op_end..].trim_start_matches(ws);
    let v_end = rest.find(|c: char| ws(c) || c == ')').unwrap_or(rest.len());
    let v = &rest[..v_end];
    let bad_op = !["<<", "<=", "=", ">=", ">>"].contains(&op);
    // digits ':' …, the digits' value >= 2^32 (compared as a numeral: no machine integer)
    let d_end = v.find(|c: char| !c.is_ascii_digit()).unwrap_or(v.len());
    let big = v[d_end..].starts_with(':') && {
        let d = v[..d_end].trim_start_matches('0');
        d.len() > 10 || (d.len() == 10 && d >= "4294967296")
    };
    (bad_op, big)
}

/// the `rel.strict` observables and the statements of Props/C12Strict.lean evaluated on the real code
fn strict_obs(text: &str) -> Resp {
    let (tree, errs) = LRelations::parse_relaxed(text, false);
    let strict = LRelations::from_str(text).is_ok();
    let mut acc: Vec<String> = vec![];
    let mut cls: Vec<String> = vec![];
    let mut any_panic = false;
    let mut name_panic = false;
    let mut mismatch: Option<String> = None;
    let mut any_bad = false;
    let mut first_bad = false;
    for (ie, e) in tree.entries().enumerate() {
        let mut ea = String::new();
        let mut ec = String::new();
        for (ir, r) in e.relations().enumerate() {
            let n = guard(|| r.name());
            let v = guard(|| r.version());
            let a = if n.is_none() { 'N' } else if v.is_none() { 'V' } else { 'k' };
            any_panic |= a != 'k';
            name_panic |= a == 'N';
            if ir > 0 {
                ea.push('|');
                ec.push('|');
            }
            ea.push(a);
            let rt = r.to_string();
            let (o, b) = ref_bad(&rt);
            ec.push(match (o, b) {
                (true, true) => 'b',
                (true, false) => 'o',
                (false, true) => 'e',
                (false, false) => '.',
            });
            any_bad |= o || b;
            if ie == 0 && ir == 0 {
                first_bad = o || b;
            }
            if strict && v.is_none() != (o || b) && mismatch.is_none() {
                mismatch = Some(format!("version() {} on {:?} but badOp={} bigEpoch={}", if v.is_none() { "panics" } else { "returns" }, rt, o, b));
            }
        }
        acc.push(ea);
        cls.push(ec);
    }
    let join = |v: &Vec<String>| if v.is_empty() { "-".to_string() } else { v.join(";") };
    let zero = Version::from_str("0").unwrap();
    let s_none = guard(|| tree.satisfied_by(|_: &str| -> Option<Version> { None }));
    let s_all = guard(|| tree.satisfied_by(|_: &str| -> Option<Version> { Some(zero.clone()) }));
    let obs = format!(
        "strict={} view={} acc={} cls={} sat={}{}",
        if strict { "ok" } else { "err" },
        if any_panic { 'P' } else { 'k' },
        join(&acc),
        if strict { join(&cls) } else { "-".to_string() },
        show(s_none),
        show(s_all)
    );
    // the theorems on the real code. The panics themselves (operator outside the five, epoch >= 2^32 in a
    // text `from_str` accepted) are a KNOWN observation (audit C12 D3), an observable, not a violation.
    let mut fail = None;
    if strict != errs.is_empty() {
        fail = Some("from_str.is_ok() != parse_relaxed errors.is_empty()".to_string());
    } else if strict {
        if name_panic {
            fail = Some("C12_strict_name_total: name() panics on strict-accepted text".to_string());
        } else if let Some(m) = mismatch {
            fail = Some(format!("C12_strict_version_panic_iff: {}", m));
        } else if any_panic != any_bad {
            fail = Some(format!("C12_strict_view_panic_iff: view panics={} any BAD={}", any_panic, any_bad));
        } else if !any_bad && s_none.is_none() {
            fail = Some("C12_strict_sat_panic_only_if: satisfied_by panics (nothing installed) without a BAD relation".to_string());
        } else if first_bad && (s_none.is_some() || s_all.is_some()) {
            fail = Some("C12_strict_sat_panic_first: first alternative of the first entry is BAD but satisfied_by returns".to_string());
        }
    }
    Resp::with(obs, fail)
}

/// C12Strict generator family: every operator string over `<`, `>`, `=` of length 0..3 (40) x epochs
/// {none, 0, 2^32-1, 2^32, 20 digits} x contexts {alone, second alternative, second entry} — all
/// strict-accepted — as `rel.strict` and, x 4 installations, as `rel.sat` requests; plus layouts and a few error trees
fn generate_c12_strict(out: &mut Out) {
    let mut ops: Vec<String> = vec![String::new()];
    let mut last: Vec<String> = vec![String::new()];
    for _ in 0..3 {
        let mut next = vec![];
        for o in &last {
            for c in ['<', '>', '='] {
                next.push(format!("{}{}", o, c));
            }
        }
        ops.extend(next.iter().cloned());
        last = next;
    }
    let versions = ["1", "0:1", "4294967295:1", "4294967296:1", "99999999999999999999:1"];
    let mut texts: Vec<String> = vec![];
    for op in &ops {
        for v in versions {
            let rel = format!("a ({}{}{})", op, if op.is_empty() { "" } else { " " }, v);
            texts.push(rel.clone());
            texts.push(format!("b | {}", rel));
            texts.push(format!("b, {}", rel));
        }
    }
    // layouts of the version part, several BAD relations, the unreachable one of
    // C12_strict_sat_unreachable_witness, leading zeros, and error trees (no `cls`)
    for t in [
        "a, a | a (> 1)", "a (>1)", "a ( > 1 )", "a (>\n 1)", "a(1)", "a (> 1) | a (>= 4294967296:1)", "a (>= 0004294967295:1)",
        "a (>= 00004294967296:1:2)", "a (>= 4294967296)", "a (>= 4294967296a:1)", "a (>>= 4294967296:1)", "a:any (=> 1) [amd64] <!x>",
        "a (>= 1), b (<< 2) | c (<> 3)",
    ] {
        texts.push(t.to_string());
    }
    // error trees: the accessors and the evaluator are observed, no BAD classes (the statement is about
    // strict-accepted text; `a | | b` is where `name()` panics)
    for t in ["a (> 1", "a (>= )", "a ()", "a | | b", "a (>= :1)", "a (> 1) b", "a (>= 1:)", "(>= 1)"] {
        out.req("rel.strict", &[es(t)]);
    }
    for t in &texts {
        out.req("rel.strict", &[es(t)]);
        for a in [vec![], vec![("a", "1")], vec![("b", "1")], vec![("a", "1"), ("b", "1")]] {
            sat_req(out, t, &enc_assign(&a));
        }
    }
}

pub fn handle(op: &str, a: &[&str]) -> Option<Resp> {
    match (op, a) {
        ("ver.cmpraw", [x, y]) => {
            let v = dec_version_raw(x)?;
            let w = dec_version_raw(y)?;
            let real = guard(|| v.cmp(&w));
            let mut fail = None;
            if valid_raw(&v) && valid_raw(&w) {
                let want = ref_cmp_fields(&v, &w);
                match real {
                    None => fail = Some(format!("Version::cmp({:?}, {:?}) panics on values with version characters only", v, w)),
                    Some(r) if r != want => fail = Some(format!("Version::cmp({:?}, {:?}) = {:?}, dpkg order says {:?}", v, w, r, want)),
                    _ => {}
                }
            }
            let c = match real {
                Some(Ordering::Less) => "lt",
                Some(Ordering::Equal) => "eq",
                Some(Ordering::Greater) => "gt",
                None => "PANIC",
            };
            Some(Resp::with(c.to_string(), fail))
        }
        ("lk.forms", [asg, name]) => {
            let assign_txt = dec_assign(asg)?;
            let name = ds(name)?;
            let mut assign: Vec<(String, Version)> = vec![];
            for (p, v) in &assign_txt {
                assign.push((p.clone(), Version::from_str(v).ok()?));
            }
            // impl VersionLookup for HashMap<String, Version> (lib.rs:115-119)
            let map: HashMap<String, Version> = assign.iter().cloned().collect();
            let m = guard(|| map.lookup_version(&name).map(|c| c.into_owned()));
            // impl<F: Fn(&str) -> Option<Version>> VersionLookup for F (lib.rs:121-128)
            let closure = |n: &str| -> Option<Version> { assign.iter().find(|(p, _)| p == n).map(|(_, v)| v.clone()) };
            let c = guard(|| closure.lookup_version(&name).map(|c| c.into_owned()));
            // impl VersionLookup for (String, Version) (lib.rs:130-138)
            let p = if assign.len() == 1 {
                let pair: (String, Version) = assign[0].clone();
                Some(guard(|| pair.lookup_version(&name).map(|c| c.into_owned())))
            } else {
                None
            };
            let sh = |r: Option<Option<Version>>| r.map(show_lookup).unwrap_or_else(|| "PANIC".to_string());
            let obs = format!("m={} c={} p={}", sh(m.clone()), sh(c.clone()), p.clone().map(sh).unwrap_or_else(|| "-".to_string()));
            // oracle: the three forms denote the same assignment
            let want = assign.iter().find(|(q, _)| *q == name).map(|(_, v)| v.clone());
            let same = |r: &Option<Option<Version>>| match r {
                Some(got) => got.as_ref().map(enc_version) == want.as_ref().map(enc_version),
                None => false,
            };
            let mut fail = None;
            if !same(&m) || !same(&c) || p.as_ref().map_or(false, |r| !same(r)) {
                fail = Some(format!("lookup_version({:?}) differs between the forms / from the assignment: {}", name, obs));
            }
            Some(Resp::with(obs, fail))
        }
        // Props/C12Strict.lean: the accessors, the BAD classes and two evaluations of one field text
        ("rel.strict", [t]) => Some(strict_obs(&ds(t)?)),
        ("ver.cmp", [x, y]) => {
            let x = ds(x)?;
            let y = ds(y)?;
            let px = Version::from_str(&x).ok();
            let py = Version::from_str(&y).ok();
            let sh = |p: &Option<Version>| p.as_ref().map(enc_version).unwrap_or_else(|| "err".to_string());
            let mut fail = None;
            let c = match (&px, &py) {
                (Some(v), Some(w)) => {
                    let real = guard(|| v.cmp(w));
                    let want = ref_vercmp(&x, &y);
                    match (real, want) {
                        (None, _) => fail = Some(format!("Version::cmp({:?}, {:?}) panics", x, y)),
                        (Some(r), Some(w)) if r != w => {
                            fail = Some(format!("Version::cmp({:?}, {:?}) = {:?}, Debian order says {:?}", x, y, r, w))
                        }
                        _ => {}
                    }
                    if fail.is_none() {
                        // the derived operators and `==` all come from cmp
                        let r = real.unwrap();
                        let ops = guard(|| (v < w, v <= w, v == w, v >= w, v > w));
                        let expect = (r == Ordering::Less, r != Ordering::Greater, r == Ordering::Equal, r != Ordering::Less, r == Ordering::Greater);
                        if ops != Some(expect) {
                            fail = Some("<, <=, ==, >=, > are not those of cmp".to_string());
                        }
                    }
                    match real {
                        Some(Ordering::Less) => "lt",
                        Some(Ordering::Equal) => "eq",
                        Some(Ordering::Greater) => "gt",
                        None => "PANIC",
                    }
                }
                _ => "-",
            };
            Some(Resp::with(format!("{} {} {}", sh(&px), sh(&py), c), fail))
        }
        // lossless evaluators on a field read with substitution variables allowed: a substitution
        // variable is not an entry, the answer is that of the entries (lossy reader: no substvars)
        ("rel.satsv", [t, asg]) => {
            let text = ds(t)?;
            let assign_txt = dec_assign(asg)?;
            let mut assign: Vec<(String, Version)> = vec![];
            for (p, v) in &assign_txt {
                assign.push((p.clone(), Version::from_str(v).ok()?));
            }
            let (tree, errs) = LRelations::parse_relaxed(&text, true);
            let map: HashMap<String, Version> = assign.iter().cloned().collect();
            let closure = |n: &str| -> Option<Version> { assign.iter().find(|(p, _)| p == n).map(|(_, v)| v.clone()) };
            let via_map = |n: &str| -> Option<Version> { map.lookup_version(n).map(|c| c.into_owned()) };
            let pair: Option<(String, Version)> = if assign.len() == 1 { Some(assign[0].clone()) } else { None };
            let lm = guard(|| tree.satisfied_by(via_map));
            let lc = guard(|| tree.satisfied_by(closure));
            let lp = pair.as_ref().map(|p| guard(|| tree.satisfied_by(|n: &str| p.lookup_version(n).map(|c| c.into_owned()))));
            // the per-entry conjunction over the public iterator: another reading of the same tree
            let le = guard(|| tree.entries().all(|e| e.satisfied_by(closure)));
            let l = format!("{}{}{}{}", show(lm), show(lc), lp.map(show).unwrap_or('-'), show(le));
            let nsv = guard(|| tree.substvars().count());
            let obs = format!("errs={} L:{} nsv={}", ebool(errs.is_empty()), l, nsv.map(|n| n.to_string()).unwrap_or_else(|| "P".into()));
            // oracle: drop the items that are substitution variables, evaluate the rest
            let mut fail = None;
            let items: Vec<&str> = text.split(',').map(|i| i.trim_matches(|c| c == ' ' || c == '\t' || c == '\n')).collect();
            let is_sv = |i: &str| i.starts_with("${") && i.ends_with('}') && !i[2..i.len() - 1].contains(['$', '{', '}', ' ']);
            let rest: Vec<&str> = items.iter().cloned().filter(|i| !is_sv(i)).collect();
            if let Some(field) = ref_parse(&rest.join(", ")) {
                if let Some(want) = ref_sat(&field, &assign_txt) {
                    let w = if want { '1' } else { '0' };
                    if !errs.is_empty() {
                        fail = Some("a well-formed field with substitution variables is reported with errors".to_string());
                    } else if l.chars().any(|c| c != '-' && c != w) {
                        fail = Some(format!("expected {} (the entries without the substitution variables), got L:{}", w, l));
                    } else if nsv != Some(items.len() - rest.len()) {
                        fail = Some(format!("{} substitution variables written, {:?} reported", items.len() - rest.len(), nsv));
                    }
                }
            }
            Some(Resp::with(obs, fail))
        }
        // lossy evaluators on a value built directly (struct literals, not the parser): entries may be
        // empty — an entry without alternatives has no satisfied alternative, so the field is unsatisfied
        ("rel.saty", [spec, asg]) => {
            let assign_txt = dec_assign(asg)?;
            let mut assign: Vec<(String, Version)> = vec![];
            for (p, v) in &assign_txt {
                assign.push((p.clone(), Version::from_str(v).ok()?));
            }
            let mut field: Vec<Vec<RefRel>> = vec![];
            let mut val: Vec<Vec<debian_control::lossy::Relation>> = vec![];
            if *spec != "-" {
                for e in spec.split(';') {
                    let mut re = vec![];
                    let mut ve = vec![];
                    if e != "~" {
                        for alt in e.split('|') {
                            let parts: Vec<&str> = alt.split('/').collect();
                            let name = ds(parts[0])?;
                            let ver = if parts.len() == 3 {
                                let (vc, sym) = match parts[1] {
                                    "ge" => (VersionConstraint::GreaterThanEqual, ">="),
                                    "le" => (VersionConstraint::LessThanEqual, "<="),
                                    "eq" => (VersionConstraint::Equal, "="),
                                    "gt" => (VersionConstraint::GreaterThan, ">>"),
                                    "lt" => (VersionConstraint::LessThan, "<<"),
                                    _ => return None,
                                };
                                let vt = ds(parts[2])?;
                                Some((vc, sym.to_string(), vt.clone(), Version::from_str(&vt).ok()?))
                            } else if parts.len() == 1 {
                                None
                            } else {
                                return None;
                            };
                            re.push(RefRel { name: name.clone(), ver: ver.as_ref().map(|(_, sym, vt, _)| (sym.clone(), vt.clone())) });
                            let mut r = debian_control::lossy::Relation::new();
                            r.name = name;
                            r.version = ver.map(|(vc, _, _, v)| (vc, v));
                            ve.push(r);
                        }
                    }
                    field.push(re);
                    val.push(ve);
                }
            }
            let r = YRelations(val);
            let map: HashMap<String, Version> = assign.iter().cloned().collect();
            let closure = |n: &str| -> Option<Version> { assign.iter().find(|(p, _)| p == n).map(|(_, v)| v.clone()) };
            let via_map = |n: &str| -> Option<Version> { map.lookup_version(n).map(|c| c.into_owned()) };
            let pair: Option<(String, Version)> = if assign.len() == 1 { Some(assign[0].clone()) } else { None };
            let ym = guard(|| r.satisfied_by(via_map));
            let yc = guard(|| r.satisfied_by(closure));
            let yp = pair.as_ref().map(|p| guard(|| r.satisfied_by(|n: &str| p.lookup_version(n).map(|c| c.into_owned()))));
            // the per-entry / per-alternative reading of the same value
            let ye = guard(|| r.0.iter().all(|e| e.iter().any(|x| x.satisfied_by(closure))));
            let l = format!("{}{}{}{}", show(ym), show(yc), yp.map(show).unwrap_or('-'), show(ye));
            let mut fail = None;
            if let Some(want) = ref_sat(&field, &assign_txt) {
                let w = if want { '1' } else { '0' };
                if l.chars().any(|c| c != '-' && c != w) {
                    fail = Some(format!("expected {} from the lossy evaluators on the built value, got Y:{}", w, l));
                }
            }
            Some(Resp::with(format!("Y:{}", l), fail))
        }
        ("rel.sat", [t, y, asg]) => {
            let text = ds(t)?;
            let assign_txt = dec_assign(asg)?;
            let mut assign: Vec<(String, Version)> = vec![];
            for (p, v) in &assign_txt {
                assign.push((p.clone(), Version::from_str(v).ok()?));
            }
            let (lossy, enc) = enc_lossy(&text);
            if enc != *y {
                return Some(Resp::with(
                    "BAD-REQUEST".into(),
                    Some("the request's lossy records are not what the lossy parser returns for the text".into()),
                ));
            }
            let (tree, errs) = LRelations::parse_relaxed(&text, false);
            let strict = LRelations::from_str(&text).is_ok();
            let map: HashMap<String, Version> = assign.iter().cloned().collect();
            let closure = |n: &str| -> Option<Version> { assign.iter().find(|(p, _)| p == n).map(|(_, v)| v.clone()) };
            let via_map = |n: &str| -> Option<Version> { map.lookup_version(n).map(|c| c.into_owned()) };
            let pair: Option<(String, Version)> = if assign.len() == 1 { Some(assign[0].clone()) } else { None };
            // lossless
            let lm = guard(|| tree.satisfied_by(via_map));
            let lc = guard(|| tree.satisfied_by(closure));
            let lp = pair.as_ref().map(|p| guard(|| tree.satisfied_by(|n: &str| p.lookup_version(n).map(|c| c.into_owned()))));
            let l = format!("{}{}{}", show(lm), show(lc), lp.map(show).unwrap_or('-'));
            // lossy
            let mut extra_fail = None;
            let ystr = match &lossy {
                None => "err".to_string(),
                Some(r) => {
                    let ym = guard(|| r.satisfied_by(via_map));
                    let yc = guard(|| r.satisfied_by(closure));
                    let yp = pair.as_ref().map(|p| guard(|| r.satisfied_by(|n: &str| p.lookup_version(n).map(|c| c.into_owned()))));
                    // the map and the pair handed over by value to the relation-level evaluator
                    let ym2 = guard(|| r.0.iter().all(|e| e.iter().any(|x| x.satisfied_by(map.clone()))));
                    if ym2 != ym {
                        extra_fail = Some("lossy: HashMap by value and HashMap through a closure give different answers".to_string());
                    }
                    if let Some(p) = &pair {
                        let yp2 = guard(|| r.0.iter().all(|e| e.iter().any(|x| x.satisfied_by(p.clone()))));
                        if Some(yp2) != yp {
                            extra_fail = Some("lossy: pair by value and pair through a closure give different answers".to_string());
                        }
                    }
                    format!("{}{}{}", show(ym), show(yc), yp.map(show).unwrap_or('-'))
                }
            };
            // same field? accessor view of the tree against the lossy records
            let same = match &lossy {
                None => "-".to_string(),
                Some(r) => {
                    let view = guard(|| {
                        tree.entries()
                            .map(|e| e.relations().map(|x| enc_rel(&x.name(), &x.version())).collect::<Vec<_>>().join("|"))
                            .collect::<Vec<_>>()
                    });
                    match view {
                        None => "P".to_string(),
                        Some(v) => {
                            let venc = if v.is_empty() { "-".to_string() } else { v.join(";") };
                            let _ = r;
                            ebool(venc == enc).to_string()
                        }
                    }
                }
            };
            let obs = format!("strict={} L:{} Y:{} same={}", if strict { "ok" } else { "err" }, l, ystr, same);
            let mut fail = extra_fail;
            if fail.is_none() && strict != errs.is_empty() {
                fail = Some("from_str.is_ok() != parse_relaxed errors.is_empty()".to_string());
            }
            if fail.is_none() {
                if let Some(field) = ref_parse(&text) {
                    // inside the property's domain: a field of the plain grammar, five operators
                    match ref_sat(&field, &assign_txt) {
                        None => {}
                        Some(want) => {
                            let w = if want { '1' } else { '0' };
                            let answers: Vec<char> = l.chars().chain(ystr.chars()).filter(|c| *c != '-').collect();
                            if !strict || lossy.is_none() {
                                fail = Some(format!("a well-formed field is refused (strict={}, lossy={})", strict, ystr));
                            } else if answers.iter().any(|c| *c != w) {
                                fail = Some(format!("expected {} from all evaluators and lookup forms, got L:{} Y:{}", w, l, ystr));
                            } else if same != "1" {
                                fail = Some(format!("lossless accessor view and lossy records differ (same={})", same));
                            }
                        }
                    }
                }
            }
            Some(Resp::with(obs, fail))
        }
        // development aid: the full `rel.sat` request line for a text and an assignment
        ("sat.req", [t, asg]) => {
            let mut o = Out::new();
            sat_req(&mut o, &ds(t)?, asg);
            Some(Resp::ok(o.lines.pop()?))
        }
        _ => None,
    }
}

fn sat_req(out: &mut Out, text: &str, assign_enc: &str) {
    let (_, enc) = enc_lossy(text);
    out.req("rel.sat", &[es(text), enc, assign_enc.to_string()]);
}

fn enc_assign(a: &[(&str, &str)]) -> String {
    if a.is_empty() {
        "-".to_string()
    } else {
        a.iter().map(|(p, v)| format!("{}={}", es(p), es(v))).collect::<Vec<_>>().join(",")
    }
}

// ------------------------------------------------------------------ generators

/// ~60 versions: epochs, revisions, `~`, letters vs digits vs punctuation, leading zeros, empty
/// and zero revisions, hyphens and colons inside the upstream part, numbers around i32::MAX
pub const VERSIONS: [&str; 64] = [
    "0", "1", "1.0", "1.0.0", "1.00", "01.0", "1.0-0", "1.0-1", "1.0-1+b1", "1.0-1~bpo1", "1.0-01", "1.0~rc1", "1.0~rc1-1",
    "1.0~~", "1.0~", "1.0a", "1.0+", "1.0+b1", "1.0.", "1.0-", "1.0a1", "1.0A", "1.0z", "1.0Z", "1.0.1", "1.1", "1.10", "1.9",
    "2", "10", "9", "0:1", "0:1.0", "1:0", "1:1.0", "1:1.0-1", "2:0.1", "10:0", "9:9", "1:0:1", "0:1:2-3", "1-2-3", "1-2-3-4",
    "1.0-1.1", "1.0-1a", "1.0-a", "1.0-~", "a", "A", "a1", "a-1", "~", "~~", "~a", "+", ".", "1~", "1+", "1.", "1a",
    "2147483647", "2147483648", "0.0~git20240101123456", "1.99999999999",
];

const OPS: [&str; 5] = ["<<", "<=", "=", ">=", ">>"];

/// (epoch, upstream, revision) of `Version` values built literally
pub const RAW_VERSIONS: [(Option<u32>, &str, Option<&str>); 40] = [
    (None, "1", None), (None, "1.0", None), (None, "1.0~rc1", None), (None, "", None), (None, "0", None), (None, "00", None),
    (None, "~", None), (None, "a", None), (None, "+", None), (None, "1-1", None), (None, "2147483647", None),
    (None, "2147483648", None), (None, "\u{e9}", None), (None, "\u{e9}1", None), (None, "\u{e9}\u{e9}1", None),
    (None, "\u{e9}\u{e9}\u{e9}1", None), (None, "1\u{e9}", None), (None, "1\u{e9}2", None), (None, "\u{20ac}1", None),
    (None, "\u{20ac}\u{20ac}\u{20ac}1", None), (None, "a\u{20ac}1", None), (None, "\u{1d11e}1", None),
    (None, "\u{1d11e}\u{1d11e}\u{1d11e}\u{1d11e}1", None), (None, "\u{ff11}", None), (None, "\u{e9}.1", None),
    (None, "\u{e9}2147483648", None), (None, "\u{e9}\u{e9}2147483648", None), (None, "1.0", Some("0")), (None, "1.0", Some("")),
    (None, "1.0", Some("1")), (None, "1.0", Some("\u{e9}1")), (None, "1.0", Some("1-1")), (None, "1.0", Some("~")),
    (None, "1.0", Some("\u{e9}\u{e9}1")), (Some(0), "1.0", None), (Some(1), "0", None), (Some(1), "\u{e9}1", None),
    (Some(4294967295), "1", None), (None, "1 0", None), (None, "\u{0}1", None),
];

fn enc_raw(v: &(Option<u32>, &str, Option<&str>)) -> String {
    format!("{}:{}:{}", v.0.map(|e| e.to_string()).unwrap_or_else(|| "none".to_string()), es(v.1), eopt(v.2))
}

/// relative positions of an installed version to the required `1.0-1`
const POSITIONS: [(&str, &[&str]); 4] = [
    ("absent", &[]),
    ("lower", &["1.0~rc1", "1.0-0", "0.9", "1.0", "0:1.0-1~"]),
    ("equal", &["1.0-1", "0:1.0-1", "1.0-01", "01.0-1"]),
    ("higher", &["1.0-1+b1", "1.0-2", "1.1", "1:0", "1.0-1.1"]),
];

pub fn generate_c12(tier: &str, seed: u64, out: &mut Out) {
    let thorough = tier == "thorough";
    let mut rng = Rng::new(seed ^ 0xC12);
    // ---- 1. all pairs of the version pool
    for a in VERSIONS {
        for b in VERSIONS {
            out.req("ver.cmp", &[es(a), es(b)]);
        }
    }
    // version texts around the validity border
    for v in ["", "-", ":", "1:", ":1", "a:1", "1_0", "1 0", "4294967296:1", "4294967295:1", "1.0-", "-1", "1-", "é"] {
        out.req("ver.cmp", &[es(v), es("1")]);
    }
    // ---- 1b. values built literally (fields are `pub`): non-ASCII before / between / after digits,
    //      empty fields, hyphens in the revision, numbers around i32::MAX — all pairs
    for a in RAW_VERSIONS {
        for b in RAW_VERSIONS {
            out.req("ver.cmpraw", &[enc_raw(&a), enc_raw(&b)]);
        }
    }
    // ---- 1c. the three `VersionLookup` impls themselves, name by name
    let lk_assigns: [&[(&str, &str)]; 7] = [
        &[],
        &[("a", "1")],
        &[("A", "1")],
        &[("a:amd64", "2")],
        &[("a", "1"), ("b", "2:0")],
        &[("a", "1"), ("a:amd64", "9"), ("A", "3")],
        &[("", "1")],
    ];
    for asg in lk_assigns {
        for n in ["a", "A", "b", "a:amd64", "", "a ", "\u{e9}", "ab"] {
            out.req("lk.forms", &[enc_assign(asg), es(n)]);
        }
    }
    // ---- 2. the complete decision table for one relation
    for op in OPS {
        for (_, installed) in POSITIONS {
            let insts: Vec<Option<&str>> = if installed.is_empty() { vec![None] } else { installed.iter().map(|v| Some(*v)).collect() };
            for inst in insts {
                let asg = match inst {
                    None => enc_assign(&[]),
                    Some(v) => enc_assign(&[("a", v)]),
                };
                sat_req(out, &format!("a ({} 1.0-1)", op), &asg);
                sat_req(out, "a", &asg);
                // another package installed instead / as well
                let asg2 = match inst {
                    None => enc_assign(&[("b", "1.0-1")]),
                    Some(v) => enc_assign(&[("a", v), ("b", "9")]),
                };
                sat_req(out, &format!("a ({} 1.0-1)", op), &asg2);
                sat_req(out, "a", &asg2);
                // architecture qualifiers never take part in the lookup: the package is looked up
                // by its bare name, also when an entry `a:amd64` exists in the assignment
                for q in ["any", "native", "amd64", "i386"] {
                    sat_req(out, &format!("a:{} ({} 1.0-1)", q, op), &asg);
                    sat_req(out, &format!("a:{}", q), &asg2);
                    let asg3 = match inst {
                        None => enc_assign(&[("a:amd64", "1.0-1")]),
                        Some(v) => enc_assign(&[("a", v), ("a:amd64", "9")]),
                    };
                    sat_req(out, &format!("a:{} ({} 1.0-1)", q, op), &asg3);
                }
            }
        }
    }
    // ---- 3. all AND/OR shapes with <= 3 entries x <= 3 alternatives over 2 packages
    // alternatives: a / b, unversioned or constrained against 2; installed versions 1, 2, 3 or absent
    let alts = ["a", "b", "a (>= 2)", "a (<< 2)", "b (= 2)", "b (>> 2)", "a (<= 2)"];
    let installed = [None, Some("1"), Some("2"), Some("3")];
    let entry_pool: Vec<Vec<&str>> = lists_upto(&alts, 3).into_iter().filter(|e| !e.is_empty()).collect();
    // every entry of <= 2 alternatives exhaustively in up to 2 entries; 3x3 shapes sampled
    let small: Vec<&Vec<&str>> = entry_pool.iter().filter(|e| e.len() <= 2).collect();
    let mut fields: Vec<String> = vec![String::new()];
    for e in &entry_pool {
        fields.push(e.join(" | "));
    }
    for e1 in &small {
        for e2 in &small {
            fields.push(format!("{}, {}", e1.join(" | "), e2.join(" | ")));
        }
    }
    let n3 = if thorough { 60_000 } else { 4_000 };
    for _ in 0..n3 {
        let k = 2 + rng.below(2);
        let es_: Vec<String> = (0..k).map(|_| entry_pool[rng.below(entry_pool.len())].join(" | ")).collect();
        fields.push(es_.join(", "));
    }
    for f in &fields {
        // quick: 4 of the 16 assignments per field for the two-entry fields, all 16 for the rest
        for ia in installed {
            for ib in installed {
                if !thorough && f.contains(',') && rng.below(4) != 0 {
                    continue;
                }
                let mut a: Vec<(&str, &str)> = vec![];
                if let Some(v) = ia {
                    a.push(("a", v));
                }
                if let Some(v) = ib {
                    a.push(("b", v));
                }
                sat_req(out, f, &enc_assign(&a));
            }
        }
    }
    // ---- 4. layout, qualifiers, restrictions, and what the parsers accept beyond the five operators
    let odd = [
        "a(>=2)", "a ( >= 2 )", "a\t(>= 2)", "a (>= 1:2)", "a (>= 2-1)", "a:any (>= 2)", "a:amd64 (>= 2)", "a:i386", "a:native (<< 2) | b:armhf", "a [amd64] ", "a (>= 2) [amd64 !i386]",
        "a <!nocheck>", "a (>= 2) <!nocheck> <cross>", "a |b", "a| b", "a ,b", " a", "a ", "a,", ",a", "a,,b", "a | ", "| a",
        "a (> 2)", "a (< 2)", "a (2)", "a (== 2)", "a (>= )", "a ()", "a (>= 2", "a >= 2)", "a (>= 2) b", "A", "a_b", "a (>= 2_0)",
        "${misc:Depends}", "a, ${misc:Depends}", "a (= ${binary:Version})", "a\n | b", "a (>= 2),\n b",
        "a (>= 2147483648)", "a (= 0.0~git20240101123456)",
    ];
    for f in odd {
        for a in [vec![], vec![("a", "2")], vec![("a", "1"), ("b", "2")], vec![("a", "2147483648")], vec![("b", "3")]] {
            sat_req(out, f, &enc_assign(&a));
        }
    }
    // ---- 4b. substitution variables among the entries (lossless reader with substvars allowed):
    //      they are not entries and never decide the answer (after seeded change C12-r5m1)
    let svs = ["${misc:Depends}", "${shlibs:Depends}", "${a}"];
    let ents = ["a", "a (>= 2)", "a (<< 2) | b", "b (= 2)"];
    let mut svfields: Vec<String> = vec![];
    for sv in svs {
        svfields.push(sv.to_string());
        svfields.push(format!("{}, {}", sv, svs[0]));
        for e in ents {
            svfields.push(format!("{}, {}", sv, e));
            svfields.push(format!("{}, {}", e, sv));
            svfields.push(format!("{},{},\n {}", e, sv, ents[1]));
            for e2 in ents {
                svfields.push(format!("{}, {}, {}", e, sv, e2));
                svfields.push(format!("{}, {}, {}, {}", sv, e, e2, svs[1]));
            }
        }
    }
    for f in &svfields {
        for a in [vec![], vec![("a", "2")], vec![("a", "1")], vec![("a", "3"), ("b", "2")], vec![("b", "2")], vec![("a", "1"), ("b", "2")]] {
            out.req("rel.satsv", &[es(f), enc_assign(&a)]);
        }
    }
    // the fields of part 4 as well (errors, odd layouts: model = code, no oracle)
    for f in odd {
        out.req("rel.satsv", &[es(f), enc_assign(&[("a", "2")])]);
    }
    // ---- 4c. lossy values built directly, entries without alternatives included (after seeded
    //      change C12-r5m2): every list of <= 3 entries over {empty, a, a (>= 2) | b, b (= 2)}
    let ypool = ["~", "x61", "x61/ge/x32|x62", "x62/eq/x32"];
    let mut yspecs: Vec<String> = vec!["-".to_string()];
    for e in lists_upto(&ypool, 3) {
        if !e.is_empty() {
            yspecs.push(e.join(";"));
        }
    }
    for spec in &yspecs {
        for a in [vec![], vec![("a", "2")], vec![("a", "1")], vec![("a", "3"), ("b", "2")], vec![("b", "2")], vec![("a", "1"), ("b", "1")]] {
            out.req("rel.saty", &[spec.clone(), enc_assign(&a)]);
        }
    }
    // ---- 5. seeded random fields over the version pool
    let names = ["a", "b", "libfoo-dev", "c++", "x.y"];
    let n = if thorough { 1_000_000 } else { 25_000 };
    for _ in 0..n {
        let ne = 1 + rng.below(3);
        let mut entries = vec![];
        for _ in 0..ne {
            let na = 1 + rng.below(3);
            let mut as_ = vec![];
            for _ in 0..na {
                let nn = if rng.chance(80) { 2 } else { 5 };
                let name = names[rng.below(nn)];
                let mut r = name.to_string();
                if rng.chance(12) {
                    r.push_str([":any", ":native", ":amd64", ":i386"][rng.below(4)]);
                }
                if rng.chance(70) {
                    let sp = if rng.chance(90) { " " } else { "" };
                    // the last four pool entries have numbers above i32::MAX: rarely
                    let v = if rng.chance(1) { VERSIONS[60 + rng.below(4)] } else { VERSIONS[rng.below(60)] };
                    let op = OPS[rng.below(5)];
                    r.push_str(&format!(" ({}{}{})", op, sp, v));
                }
                if rng.chance(4) {
                    r.push_str(" [amd64]");
                }
                if rng.chance(4) {
                    r.push_str(" <!nocheck>");
                }
                as_.push(r);
            }
            entries.push(as_.join(" | "));
        }
        let f = entries.join(if rng.chance(90) { ", " } else { "," });
        let mut a: Vec<(&str, &str)> = vec![];
        let na = if rng.chance(80) { 2 } else { 5 };
        for nme in names.iter().take(na) {
            if rng.chance(65) {
                let v = if rng.chance(1) { VERSIONS[60 + rng.below(4)] } else { VERSIONS[rng.below(60)] };
                a.push((nme, v));
            }
        }
        sat_req(out, &f, &enc_assign(&a));
    }
    // ---- 6. operators outside the five and epochs around 2^32 in strict-accepted text (Props/C12Strict.lean)
    generate_c12_strict(out);
}
