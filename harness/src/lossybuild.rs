//! C14, "assembled from valid components": the public constructors, the builder and the container
//! methods of the lossy relation types (debian-control/src/lossy/relations.rs:42-274) driven through
//! a small script language; Lean twin: Model/RelLossyBuild.lean + Driver/RelLossyBuild.lean.
//!
//! `lrel.new`                         Relation::new(), Relation::default()
//! `lrel.build <name> <call>*`        Relation::build(name).<call>….build()
//!     call: `aq=<x>` archqual, `ar=<x,x,…>` architectures, `ve=<op>.<x>` version, `pr=G…` profile
//!   -> `B:ok <value> cv=<b> vr=<b> | <the whole rel.lrel answer for the built value>` or `B:PANIC cv=<b>`
//! `lrels.script <init> <op>*`        init: `new` | `default` | `lit:<rels>` | `vecs:<rels>` (FromIterator<Vec<Relation>>)
//!                                          | `rels:<(entry)>` (FromIterator<Relation>)
//!     op: `len` `emp` `iter` `show` `rm=<i>` `ix=<i>` `as=<i>=<(entry)>` (rs[i] = entry) `pu=<i>=<rel>` (rs[i].push(rel))
//!   -> the state after `init`, then one observation per op (`PANIC` from the first panic on)
use crate::rel::{guarded, lossy_view};
use crate::relc14::*;
use crate::util::*;
use crate::Resp;
use debian_control::lossy::{Relation as LRel, Relations as LRels};
use debian_control::relations::{BuildProfile, VersionConstraint};

#[derive(Clone)]
enum Call {
    Aq(String),
    Ar(Vec<String>),
    Ve(VersionConstraint, String),
    Pr(Vec<BuildProfile>),
}

fn dec_call(h: &str) -> Option<Call> {
    let (k, x) = h.split_once('=')?;
    Some(match k {
        "aq" => Call::Aq(ds(x)?),
        "ar" => Call::Ar(dlist(x)?),
        "ve" => {
            let (op, t) = x.split_once('.')?;
            Call::Ve(dec_op(op)?, ds(t)?)
        }
        "pr" => Call::Pr(dec_group(x)?),
        _ => return None,
    })
}

fn enc_group(g: &[BuildProfile]) -> String {
    format!(
        "G{}",
        g.iter()
            .map(|p| match p {
                BuildProfile::Enabled(n) => format!("E{}", es(n)),
                BuildProfile::Disabled(n) => format!("D{}", es(n)),
            })
            .collect::<Vec<_>>()
            .join(",")
    )
}

fn enc_call(c: &Call) -> String {
    match c {
        Call::Aq(a) => format!("aq={}", es(a)),
        Call::Ar(l) => format!("ar={}", elist(l)),
        Call::Ve(op, t) => format!("ve={}.{}", op_name(op), es(t)),
        Call::Pr(g) => format!("pr={}", enc_group(g)),
    }
}

/// mirror of `Props.C14Build.validVersionText`: `[digits:]body`, the epoch below 2^32, every piece of
/// the body between colons an identifier (no colon without an epoch)
fn valid_version_text(t: &str) -> bool {
    match t.split_once(':') {
        None => is_ident(t),
        Some((e, body)) => {
            !e.is_empty()
                && e.chars().all(|c| c.is_ascii_digit())
                && {
                    let z = e.trim_start_matches('0');
                    z.len() <= 10 && z.parse::<u64>().map_or(z.is_empty(), |n| n < (1u64 << 32))
                }
                && body.split(':').all(is_ident)
        }
    }
}

fn valid_arch(a: &str) -> bool {
    is_ident(a.strip_prefix('!').unwrap_or(a))
}

/// mirror of `Props.C14Build.validCalls`
fn valid_calls(name: &str, calls: &[Call]) -> bool {
    is_ident(name)
        && calls.iter().all(|c| match c {
            Call::Aq(a) => is_ident(a),
            Call::Ar(l) => l.iter().all(|a| valid_arch(a)),
            Call::Ve(_, t) => valid_version_text(t),
            Call::Pr(g) => g.iter().all(|p| match p {
                BuildProfile::Enabled(n) | BuildProfile::Disabled(n) => is_ident(n),
            }),
        })
}

/// the value the calls must produce, assembled as a struct literal (`C14_builder_script`): the last
/// archqual / architectures / version call, the profile calls in order; `None` = some version text
/// does not parse (the builder must panic)
fn expected(name: &str, calls: &[Call]) -> Option<LRel> {
    let mut r = LRel { name: name.to_string(), archqual: None, architectures: None, version: None, profiles: vec![] };
    for c in calls {
        match c {
            Call::Aq(a) => r.archqual = Some(a.clone()),
            Call::Ar(l) => r.architectures = Some(l.clone()),
            Call::Ve(op, t) => r.version = Some((op.clone(), t.parse::<debversion::Version>().ok()?)),
            Call::Pr(g) => r.profiles.push(g.clone()),
        }
    }
    Some(r)
}

fn enc_entry(e: &[LRel]) -> String {
    format!("{{{}}}", e.iter().map(enc_lossy_rel).collect::<Vec<_>>().join("|"))
}
fn enc_state(rs: &[Vec<LRel>]) -> String {
    format!("E[{}]", rs.iter().map(|e| enc_entry(e)).collect::<String>())
}

fn dec_entry(h: &str) -> Option<Vec<LRel>> {
    let m = h.strip_prefix('(')?.strip_suffix(')')?;
    if m.is_empty() {
        Some(vec![])
    } else {
        m.split('|').map(dec_lossy_rel).collect()
    }
}

pub fn handle(op: &str, a: &[&str]) -> Option<Resp> {
    match (op, a) {
        ("lrel.new", []) => {
            let n = LRel::new();
            let d = LRel::default();
            let fail = if n != d {
                Some("Relation::default() != Relation::new()".to_string())
            } else if !(n.name.is_empty() && n.archqual.is_none() && n.architectures.is_none() && n.version.is_none() && n.profiles.is_empty()) {
                Some("Relation::new() is not the empty relation".to_string())
            } else {
                None
            };
            Some(Resp::with(format!("{} {} P:{}", enc_lossy_rel(&n), enc_lossy_rel(&d), es(&n.to_string())), fail))
        }
        ("lrel.build", [name, calls @ ..]) => {
            let nm = ds(name)?;
            let calls: Vec<Call> = calls.iter().map(|c| dec_call(c)).collect::<Option<Vec<_>>>()?;
            let cv = valid_calls(&nm, &calls);
            let built = {
                let nm = nm.clone();
                let calls = calls.clone();
                guarded(move || {
                    let mut b = LRel::build(&nm);
                    for c in &calls {
                        b = match c {
                            Call::Aq(x) => b.archqual(x),
                            Call::Ar(l) => b.architectures(l.iter().map(|s| s.as_str()).collect()),
                            Call::Ve(op, t) => b.version(op.clone(), t),
                            Call::Pr(g) => b.profile(g.clone()),
                        };
                    }
                    b.build()
                })
            };
            let want = expected(&nm, &calls);
            match built {
                None => {
                    let fail = if want.is_some() {
                        Some("the builder panics although every version text parses".to_string())
                    } else if cv {
                        Some("the builder panics on valid components".to_string())
                    } else {
                        None
                    };
                    Some(Resp::with(format!("B:PANIC cv={}", ebool(cv)), fail))
                }
                Some(r) => {
                    let vr = valid_r_weak(&r);
                    let inner = lrel_resp(r.clone());
                    let mut fail = None;
                    match &want {
                        None => fail = Some("the builder accepts a version text that Version::from_str rejects".to_string()),
                        Some(w) => {
                            // field by field, versions by their three parts (not with `==`, which is `cmp`)
                            if enc_lossy_rel(w) != enc_lossy_rel(&r) {
                                fail = Some(format!(
                                    "the built value is not the record of its components: {} != {}",
                                    enc_lossy_rel(&r),
                                    enc_lossy_rel(w)
                                ));
                            } else if guarded(|| *w == r) == Some(false) {
                                fail = Some("the built value is not == to the struct literal".to_string());
                            }
                        }
                    }
                    if fail.is_none() && cv && !vr {
                        fail = Some("valid components assemble to a value outside ValidR".to_string());
                    }
                    if fail.is_none() {
                        // the whole C14 oracle on the built value (it applies itself on ValidR only)
                        fail = inner.fail.map(|f| format!("on the assembled value: {}", f));
                    }
                    Some(Resp::with(
                        format!("B:ok {} cv={} vr={} | {}", enc_lossy_rel(&r), ebool(cv), ebool(vr), inner.obs),
                        fail,
                    ))
                }
            }
        }
        ("lrels.script", [init, ops @ ..]) => {
            // `shadow`: the same history on a plain Vec<Vec<_>> with plain list operations (the container laws)
            let (mut rs, mut shadow): (LRels, Vec<Vec<LRel>>) = if *init == "new" {
                (LRels::new(), vec![])
            } else if *init == "default" {
                (LRels::default(), vec![])
            } else if let Some(h) = init.strip_prefix("lit:") {
                let v = dec_lossy_rels(h)?;
                (LRels(v.clone()), v)
            } else if let Some(h) = init.strip_prefix("vecs:") {
                let v = dec_lossy_rels(h)?;
                (v.clone().into_iter().collect::<LRels>(), v)
            } else if let Some(h) = init.strip_prefix("rels:") {
                let e = dec_entry(h)?;
                (e.clone().into_iter().collect::<LRels>(), e.into_iter().map(|r| vec![r]).collect())
            } else {
                return None;
            };
            let mut fail: Option<String> = None;
            let mut outs = vec![enc_state(&rs.0)];
            if enc_state(&rs.0) != enc_state(&shadow) {
                fail = Some(format!("{} is not the plain list {}", init, enc_state(&shadow)));
            }
            let mut dead = false;
            for o in ops {
                if dead {
                    outs.push("PANIC".to_string());
                    continue;
                }
                let (k, x) = o.split_once('=').unwrap_or((o, ""));
                let mut law = |ok: bool, what: &str| {
                    if !ok && fail.is_none() {
                        fail = Some(format!("{}: {}", o, what));
                    }
                };
                let obs: Option<String> = match k {
                    "len" => {
                        law(rs.len() == shadow.len(), "len() is not the length of the list");
                        Some(rs.len().to_string())
                    }
                    "emp" => {
                        law(rs.is_empty() == shadow.is_empty() && rs.is_empty() == (rs.len() == 0), "is_empty()");
                        Some(ebool(rs.is_empty()).to_string())
                    }
                    "iter" => {
                        let it: Vec<Vec<LRel>> = rs.iter().map(|e| e.into_iter().cloned().collect()).collect();
                        law(enc_state(&it) == enc_state(&shadow), "iter() does not yield the entries in order");
                        Some(format!("I{}", enc_state(&it)))
                    }
                    "show" => {
                        let p = rs.to_string();
                        let want =
                            shadow.iter().map(|e| e.iter().map(|r| r.to_string()).collect::<Vec<_>>().join(" | ")).collect::<Vec<_>>().join(", ");
                        law(p == want, "to_string() is not the entries joined by \", \" / \" | \"");
                        let rt = lossy_view(&p);
                        if shadow.iter().all(|e| e.iter().all(valid_r_weak)) {
                            let kept: Vec<Vec<LRel>> = shadow.iter().filter(|e| !e.is_empty()).cloned().collect();
                            law(rt == format!("ok {}", enc_state(&kept)), "the printed value does not read back (empty entries dropped)");
                        }
                        Some(format!("{} RT:{}", es(&p), rt))
                    }
                    "rm" => {
                        let i: usize = x.parse().ok()?;
                        let mut c = rs.clone();
                        match guarded(move || {
                            c.remove(i);
                            c
                        }) {
                            Some(c) => {
                                law(i < shadow.len(), "remove() out of range does not panic");
                                if i < shadow.len() {
                                    shadow.remove(i);
                                }
                                rs = c;
                                law(enc_state(&rs.0) == enc_state(&shadow), "remove() is not List.eraseIdx");
                                Some(enc_state(&rs.0))
                            }
                            None => {
                                law(i >= shadow.len(), "remove() in range panics");
                                None
                            }
                        }
                    }
                    "ix" => {
                        let i: usize = x.parse().ok()?;
                        let c = rs.clone();
                        match guarded(move || c[i].clone()) {
                            Some(e) => {
                                law(shadow.get(i).map(|s| enc_entry(s)) == Some(enc_entry(&e)), "rs[i] is not the i-th entry");
                                Some(enc_entry(&e))
                            }
                            None => {
                                law(i >= shadow.len(), "rs[i] in range panics");
                                None
                            }
                        }
                    }
                    "as" | "pu" => {
                        let (i, v) = x.split_once('=')?;
                        let i: usize = i.parse().ok()?;
                        let mut c = rs.clone();
                        let done = if k == "as" {
                            let e = dec_entry(v)?;
                            if i < shadow.len() {
                                shadow[i] = e.clone();
                            }
                            guarded(move || {
                                c[i] = e;
                                c
                            })
                        } else {
                            let r = dec_lossy_rel(v)?;
                            if i < shadow.len() {
                                shadow[i].push(r.clone());
                            }
                            guarded(move || {
                                c[i].push(r);
                                c
                            })
                        };
                        match done {
                            Some(c) => {
                                rs = c;
                                law(i < shadow.len() && enc_state(&rs.0) == enc_state(&shadow), "index_mut: not the list with entry i replaced");
                                Some(enc_state(&rs.0))
                            }
                            None => {
                                law(i >= shadow.len(), "rs[i] (mutable) in range panics");
                                None
                            }
                        }
                    }
                    _ => return None,
                };
                match obs {
                    Some(s) => outs.push(s),
                    None => {
                        dead = true;
                        outs.push("PANIC".to_string());
                    }
                }
            }
            Some(Resp::with(outs.join(" "), fail))
        }
        _ => None,
    }
}

// ------------------------------------------------------------------ generator

/// component pools: valid and INVALID strings, so that the acceptance / panic behaviour of the builder
/// is compared too
const B_NAMES: [&str; 5] = ["a", "libc6", "g++", "", "a b"];
const B_AQS: [&str; 4] = ["any", "amd64", "", "a b"];
const B_VERS: [&str; 16] = [
    "1", "2.3-4", "1:2.0~rc1-5", "01:1", "1:2:3", "1-", "1-2-3", "0:0", "4294967295:1", // valid texts
    "", "1:", ":1", "a b", "4294967296:1", "1:2:", "x:1", // rejected, or accepted with a colon in the upstream part
];
const B_OPS: [&str; 5] = ["ge", "le", "eq", "gt", "lt"];

fn b_archs() -> Vec<Vec<&'static str>> {
    vec![vec![], vec!["amd64"], vec!["amd64", "!i386"], vec!["!linux-any", "!amd64", "i386"], vec!["!"], vec!["x y"], vec![""], vec!["!!a"]]
}
fn b_profs() -> Vec<Vec<Vec<BuildProfile>>> {
    let e = |s: &str| BuildProfile::Enabled(s.to_string());
    let d = |s: &str| BuildProfile::Disabled(s.to_string());
    vec![
        vec![],
        vec![vec![e("nocheck")]],
        vec![vec![d("nocheck"), e("cross")]],
        vec![vec![e("a")], vec![d("b")]],
        vec![vec![e("a")], vec![d("b"), e("pkg.x")], vec![e("a")]],
        vec![vec![]],
        vec![vec![e("")]],
        vec![vec![e("!x")]],
        vec![vec![e("a b")]],
    ]
}

fn permutations<T: Clone>(v: &[T]) -> Vec<Vec<T>> {
    if v.len() <= 1 {
        return vec![v.to_vec()];
    }
    let mut out = vec![];
    for i in 0..v.len() {
        let mut rest = v.to_vec();
        let x = rest.remove(i);
        for mut p in permutations(&rest) {
            p.insert(0, x.clone());
            out.push(p);
        }
    }
    out
}

pub fn generate_c14_build(tier: &str, seed: u64, out: &mut Out) {
    let thorough = tier == "thorough";
    let mut rng = Rng::new(seed ^ 0x27);
    out.req("lrel.new", &[]);
    let req = |out: &mut Out, name: &str, calls: &[Call]| {
        let mut a = vec![es(name)];
        a.extend(calls.iter().map(enc_call));
        out.req("lrel.build", &a);
    };
    // 1. every combination of present / absent optional parts x the pools, in the canonical order of calls
    let mut k = 0usize;
    for name in B_NAMES {
        let mut aqs: Vec<Option<&str>> = vec![None];
        aqs.extend(B_AQS.iter().map(|a| Some(*a)));
        for aq in &aqs {
            let mut vers: Vec<Option<&str>> = vec![None];
            vers.extend(B_VERS.iter().map(|v| Some(*v)));
            for ver in &vers {
                let mut archs: Vec<Option<Vec<&str>>> = vec![None];
                archs.extend(b_archs().into_iter().map(Some));
                for ar in &archs {
                    for pr in b_profs() {
                        // quick tier: the full product on the valid names, a seeded third of it on the others
                        if !thorough && (name.is_empty() || name == "a b" || name == "g++") && !rng.chance(33) {
                            continue;
                        }
                        let mut calls = vec![];
                        if let Some(a) = aq {
                            calls.push(Call::Aq(a.to_string()));
                        }
                        if let Some(v) = ver {
                            k += 1;
                            calls.push(Call::Ve(dec_op(B_OPS[k % 5]).unwrap(), v.to_string()));
                        }
                        if let Some(l) = ar {
                            calls.push(Call::Ar(l.iter().map(|s| s.to_string()).collect()));
                        }
                        for g in &pr {
                            calls.push(Call::Pr(g.clone()));
                        }
                        req(out, name, &calls);
                    }
                }
            }
        }
    }
    // every operator with every version text
    for op in B_OPS {
        for v in B_VERS {
            req(out, "a", &[Call::Ve(dec_op(op).unwrap(), v.to_string())]);
        }
    }
    // 2. order of the setter calls: every permutation of four / five calls (two profile groups included)
    let e = |s: &str| BuildProfile::Enabled(s.to_string());
    for ver in ["1:2-3", "1:", "", "a b"] {
        let base = vec![
            Call::Aq("any".into()),
            Call::Ve(VersionConstraint::GreaterThanEqual, ver.into()),
            Call::Ar(vec!["amd64".into(), "!i386".into()]),
            Call::Pr(vec![e("x")]),
            Call::Pr(vec![BuildProfile::Disabled("y".into()), e("z")]),
        ];
        for p in permutations(&base) {
            req(out, "pkg", &p);
        }
    }
    // 3. repeated setters: the last call wins (a version call that panics does so even when overridden later)
    let pool = vec![
        Call::Aq("any".into()),
        Call::Aq("native".into()),
        Call::Aq("".into()),
        Call::Ar(vec!["amd64".into()]),
        Call::Ar(vec![]),
        Call::Ar(vec!["!i386".into(), "x y".into()]),
        Call::Ve(VersionConstraint::Equal, "1".into()),
        Call::Ve(VersionConstraint::LessThan, "2:3-4".into()),
        Call::Ve(VersionConstraint::GreaterThan, "".into()),
        Call::Ve(VersionConstraint::LessThanEqual, ":1".into()),
        Call::Pr(vec![e("a")]),
        Call::Pr(vec![]),
    ];
    for seq in lists_upto(&pool, if thorough { 4 } else { 3 }) {
        req(out, "p", &seq);
    }
    // 4. seeded random call chains over all pools
    let n = if thorough { 60_000 } else { 3_000 };
    for _ in 0..n {
        let name = *rng.pick(&B_NAMES[..]);
        let len = rng.below(7);
        let calls: Vec<Call> = (0..len)
            .map(|_| match rng.below(4) {
                0 => Call::Aq(rng.pick(&B_AQS[..]).to_string()),
                1 => Call::Ar(rng.pick(&b_archs()).iter().map(|s| s.to_string()).collect()),
                2 => Call::Ve(dec_op(*rng.pick(&B_OPS[..])).unwrap(), rng.pick(&B_VERS[..]).to_string()),
                _ => {
                    let gs = b_profs();
                    let g = rng.pick(&gs);
                    Call::Pr(g.first().cloned().unwrap_or_default())
                }
            })
            .collect();
        req(out, name, &calls);
    }
    // 5. the container: every history of <= 3 (thorough: 4) calls from each way of making a Relations value
    let r1 = "x61:none:none:none:"; // a
    let r2 = "x62:x616e79:ge.x313a322d33:Lx616d643634,x2169333836:GEx78/GDx79,Ex7a"; // b:any (>= 1:2-3) [amd64 !i386] <x> <!y z>
    let r3 = "x63:none:none:L:G"; // c [] <>
    let bad = "x612062:none:none:none:"; // "a b"
    let inits = vec![
        "new".to_string(),
        "default".to_string(),
        format!("lit:({});({}|{});();({})", r1, r2, r3, r1),
        format!("vecs:({}|{});({})", r1, r2, r3),
        "vecs:".to_string(),
        format!("vecs:();({})", bad),
        format!("rels:({}|{}|{})", r1, r2, r3),
        "rels:()".to_string(),
    ];
    let ops = vec![
        "len".to_string(),
        "emp".to_string(),
        "iter".to_string(),
        "show".to_string(),
        "rm=0".to_string(),
        "rm=1".to_string(),
        "rm=3".to_string(),
        "ix=0".to_string(),
        "ix=2".to_string(),
        format!("as=0=({}|{})", r3, r1),
        "as=1=()".to_string(),
        format!("pu=0={}", r2),
        format!("pu=2={}", r1),
    ];
    let maxlen = if thorough { 4 } else { 3 };
    for init in &inits {
        for seq in lists_upto(&ops, maxlen) {
            // an observation changes nothing: histories that end in one are enough, except the short ones
            if seq.len() == maxlen && !matches!(seq.last().map(|s| s.as_str()), Some("show") | Some("iter") | Some("len")) {
                continue;
            }
            let mut a = vec![init.clone()];
            a.extend(seq);
            out.req("lrels.script", &a);
        }
    }
}
