//! C04 / C05: edit histories on a lossless document, with live paragraph handles
use crate::deb::{dump_deb, enc_items};
use crate::docspec;
use crate::lossy::{canon_value, dec_doc, enc_doc};
use crate::util::*;
use crate::Resp;
use deb822_lossless::{Deb822, Paragraph};
use rowan::ast::AstNode;
use std::str::FromStr;

fn live(p: &Paragraph) -> bool {
    p.syntax().parent().is_some()
}

fn show_handles(hs: &[Paragraph]) -> String {
    hs.iter()
        .map(|p| if live(p) { enc_items(&p.items().collect::<Vec<_>>()) } else { "~".to_string() })
        .collect::<Vec<_>>()
        .join(";")
}

fn comment_lines(text: &str) -> Vec<String> {
    text.split('\n').filter(|l| l.starts_with('#')).map(|l| l.to_string()).collect()
}

type Items = Vec<(String, String)>;

/// the list-of-lists model of the property: paragraphs in document order, each with a handle id
struct ListModel {
    order: Vec<usize>,
    paras: Vec<Option<Items>>,
}

pub fn handle(op: &str, a: &[&str]) -> Option<Resp> {
    match (op, a) {
        ("deb.hist", [start, ops]) => {
            let sf: Vec<&str> = start.split('.').collect();
            let (mut doc, in_domain): (Deb822, bool) = match sf.as_slice() {
                ["t", t] => {
                    let s = ds(t)?;
                    let wf = Deb822::from_str(&s).is_ok() && !s.contains('\r');
                    (Deb822::from_str_relaxed(&s).0, wf)
                }
                // the live result of `Deb822::wrap_and_sort(None, None)` on the parsed text: its root
                // holds the free-standing comment lines as bare COMMENT / NEWLINE tokens (F-C05-3)
                [wkind @ ("w" | "ws"), t] => {
                    let s = ds(t)?;
                    let wf = Deb822::from_str(&s).is_ok() && !s.contains('\r');
                    let d0 = Deb822::from_str_relaxed(&s).0;
                    // `ws`: with a paragraph order (by the Package field), which moves paragraphs and the
                    // comment lines in front of them
                    let by_pkg = |a: &Paragraph, b: &Paragraph| a.get("Package").cmp(&b.get("Package"));
                    let sorted = *wkind == "ws";
                    let w = std::panic::catch_unwind(std::panic::AssertUnwindSafe(|| {
                        if sorted {
                            d0.wrap_and_sort(Some(&by_pkg), None)
                        } else {
                            d0.wrap_and_sort(None, None)
                        }
                    }));
                    match w {
                        Ok(w) => (w, wf),
                        Err(_) => return Some(Resp::with("PANIC".into(), if wf { Some("wrap_and_sort panicked".into()) } else { None })),
                    }
                }
                // `Deb822::from_iter` of paragraphs parsed from texts (after audit C05 D1): a parsed
                // paragraph may lack the terminator of its last line
                ["b", ts @ ..] => {
                    let texts: Vec<String> = ts.iter().map(|t| ds(t)).collect::<Option<_>>()?;
                    let mut wf = true;
                    let mut paras: Vec<Paragraph> = vec![];
                    for s in &texts {
                        wf = wf && !s.contains('\r');
                        match Paragraph::from_str(s) {
                            Ok(p) => paras.push(p),
                            Err(_) => return Some(Resp::ok("START-UNREADABLE".to_string())),
                        }
                    }
                    (paras.into_iter().collect(), wf)
                }
                ["d", d] => {
                    let d = dec_doc(d)?;
                    let ok = d.iter().all(|p| p.iter().all(|(k, v)| docspec::valid_key(k) && canon_value(v) && !v.is_empty() && !v.starts_with('\n')));
                    let paras: Vec<Paragraph> = d.iter().cloned().map(|p| p.into_iter().collect()).collect();
                    // a paragraph built from pairs IS that list of pairs (repeated names included)
                    for (p, want) in paras.iter().zip(d.iter()) {
                        let got: Items = p.items().collect();
                        if ok && &got != want {
                            return Some(Resp::with("START-DIFFERS".into(), Some(format!("a paragraph built from the pairs {:?} reads {:?}", want, got))));
                        }
                    }
                    (paras.into_iter().collect(), ok)
                }
                _ => return None,
            };
            let mut handles: Vec<Paragraph> = doc.paragraphs().collect();
            let mut model = ListModel {
                order: (0..handles.len()).collect(),
                paras: handles.iter().map(|p| Some(p.items().collect())).collect(),
            };
            let mut outs = vec![format!("{}|{}", es(&doc.to_string()), show_handles(&handles))];
            let mut fail: Option<String> = None;
            let mut valid = in_domain;
            // step 0: the start document itself prints to text that re-reads to its live content
            if valid {
                let text0 = doc.to_string();
                let live0: Vec<Items> = doc.paragraphs().map(|p| p.items().collect::<Items>()).filter(|p| !p.is_empty()).collect();
                match Deb822::from_str(&text0) {
                    Err(_) => fail = Some(format!("start: printed document does not re-read: {:?}", text0)),
                    Ok(d2) => {
                        let re: Vec<Items> = d2.paragraphs().map(|p| p.items().collect()).collect();
                        if re != live0 {
                            fail = Some(format!("start: re-read content {:?} differs from live content {:?}", re, live0));
                        }
                    }
                }
            }
            let ops: Vec<&str> = if ops.is_empty() { vec![] } else { ops.split(',').collect() };
            for op in ops {
                let before = doc.to_string();
                let before_paras: Vec<Option<String>> =
                    handles.iter().map(|p| if live(p) { Some(p.to_string()) } else { None }).collect();
                let before_pos: Vec<usize> =
                    handles.iter().map(|p| usize::from(p.syntax().text_range().start())).collect();
                let f: Vec<&str> = op.split('.').collect();
                // an operation through the handle of a removed paragraph is skipped
                if matches!(f[0], "set" | "ins" | "rm" | "ren") {
                    let h = f[1].parse::<usize>().ok()?;
                    if handles.get(h).map(|p| !live(p)).unwrap_or(true) {
                        outs.push(format!("~={}|{}", es(&before), show_handles(&handles)));
                        continue;
                    }
                }
                let mut touched: Option<usize> = None;
                let mut removed_range: Option<(usize, usize)> = None;
                let ret = match f.as_slice() {
                    ["set", h, k, v] => {
                        let (h, k, v) = (h.parse::<usize>().ok()?, ds(k)?, ds(v)?);
                        valid = valid && docspec::valid_key(&k) && canon_value(&v) && !v.is_empty() && !v.starts_with('\n');
                        if let Some(p) = handles.get_mut(h) {
                            p.set(&k, &v);
                            touched = Some(h);
                            if let Some(Some(m)) = model.paras.get_mut(h) {
                                match m.iter_mut().find(|f| f.0 == k) {
                                    Some(f) => f.1 = v,
                                    None => m.push((k, v)),
                                }
                            }
                        }
                        "-".to_string()
                    }
                    ["ins", h, k, v] => {
                        let (h, k, v) = (h.parse::<usize>().ok()?, ds(k)?, ds(v)?);
                        valid = valid && docspec::valid_key(&k) && canon_value(&v) && !v.is_empty() && !v.starts_with('\n');
                        if let Some(p) = handles.get_mut(h) {
                            p.insert(&k, &v);
                            touched = Some(h);
                            if let Some(Some(m)) = model.paras.get_mut(h) {
                                m.push((k, v));
                            }
                        }
                        "-".to_string()
                    }
                    ["rm", h, k] => {
                        let (h, k) = (h.parse::<usize>().ok()?, ds(k)?);
                        if let Some(p) = handles.get_mut(h) {
                            p.remove(&k);
                            touched = Some(h);
                            if let Some(Some(m)) = model.paras.get_mut(h) {
                                m.retain(|f| f.0 != k);
                            }
                        }
                        "-".to_string()
                    }
                    ["ren", h, k, k2] => {
                        let (h, k, k2) = (h.parse::<usize>().ok()?, ds(k)?, ds(k2)?);
                        valid = valid && docspec::valid_key(&k2);
                        let mut r = false;
                        if let Some(p) = handles.get_mut(h) {
                            r = p.rename(&k, &k2);
                            touched = Some(h);
                            if let Some(Some(m)) = model.paras.get_mut(h) {
                                let found = m.iter_mut().find(|f| f.0 == k);
                                let expect = found.is_some();
                                if let Some(f) = found {
                                    f.0 = k2;
                                }
                                if expect != r && valid && fail.is_none() {
                                    fail = Some(format!("rename returned {} but the list model says {}", r, expect));
                                }
                            }
                        }
                        ebool(r).to_string()
                    }
                    ["addp"] => {
                        let p = doc.add_paragraph();
                        handles.push(p);
                        model.paras.push(Some(vec![]));
                        model.order.push(model.paras.len() - 1);
                        "-".to_string()
                    }
                    ["insp", i] => {
                        let i = i.parse::<usize>().ok()?;
                        let p = doc.insert_paragraph(i);
                        handles.push(p);
                        model.paras.push(Some(vec![]));
                        let at = i.min(model.order.len());
                        model.order.insert(at, model.paras.len() - 1);
                        "-".to_string()
                    }
                    ["rmp", i] => {
                        let i = i.parse::<usize>().ok()?;
                        doc.remove_paragraph(i);
                        if i < model.order.len() {
                            let h = model.order.remove(i);
                            model.paras[h] = None;
                            // comments written inside the removed paragraph go with it
                            if let Some(Some(t)) = before_paras.get(h) {
                                removed_range = Some((before_pos[h], before_pos[h] + t.len()));
                            }
                        }
                        "-".to_string()
                    }
                    _ => return None,
                };
                let after = doc.to_string();
                outs.push(format!("{}={}|{}", ret, es(&after), show_handles(&handles)));
                if valid && fail.is_none() {
                    // (1) every live handle reads what the list model says; removed ones are gone
                    for (h, p) in handles.iter().enumerate() {
                        match (&model.paras[h], live(p)) {
                            (Some(m), true) => {
                                if &p.items().collect::<Items>() != m {
                                    fail = Some(format!("after {}: handle {} reads {:?}, list model {:?}", op, h, p.items().collect::<Items>(), m));
                                }
                            }
                            (None, false) => {}
                            (Some(_), false) => fail = Some(format!("after {}: paragraph of handle {} vanished from the document", op, h)),
                            (None, true) => fail = Some(format!("after {}: removed paragraph (handle {}) is still in the document", op, h)),
                        }
                    }
                    // (2) the document lists the paragraphs in the model's order
                    let now: Vec<Items> = doc.paragraphs().map(|p| p.items().collect()).collect();
                    let want: Vec<Items> = model.order.iter().map(|h| model.paras[*h].clone().unwrap_or_default()).collect();
                    if fail.is_none() && now != want {
                        fail = Some(format!("after {}: document paragraphs {:?}, list model {:?}", op, now, want));
                    }
                    // (3) frame: every other paragraph's text and every comment line is untouched
                    for (h, p) in handles.iter().enumerate() {
                        if Some(h) == touched || h >= before_paras.len() {
                            continue;
                        }
                        if let (Some(b), true) = (&before_paras[h], live(p)) {
                            // up to the terminator of an unterminated last line, which an
                            // append has to supply
                            let now = p.to_string();
                            let same = &now == b || (!b.ends_with('\n') && now == format!("{}\n", b));
                            if !same && fail.is_none() {
                                fail = Some(format!("after {}: text of untouched paragraph {} changed", op, h));
                            }
                        }
                    }
                    let expected_comments = match removed_range {
                        Some((a, b)) => comment_lines(&format!("{}\n{}", &before[..a], &before[b..])),
                        None => comment_lines(&before),
                    };
                    if fail.is_none() && expected_comments != comment_lines(&after) {
                        fail = Some(format!("after {}: comment lines changed: {:?} -> {:?}", op, comment_lines(&before), comment_lines(&after)));
                    }
                    // field edits: everything outside the touched paragraph is byte-identical
                    if let (Some(h), true) = (touched, fail.is_none()) {
                        if let (Some(Some(bp)), true) = (before_paras.get(h), live(&handles[h])) {
                            let ap = handles[h].to_string();
                            {
                                let pos = before_pos[h];
                                let pre = &before[..pos];
                                let post = &before[pos + bp.len()..];
                                if !bp.is_empty() && !(after.starts_with(pre) && after.ends_with(post) && after.len() == pre.len() + ap.len() + post.len()) {
                                    fail = Some(format!("after {}: bytes outside the touched paragraph changed", op));
                                }
                            }
                        }
                    }
                    // (4) the printed document re-reads, without error, to the live content
                    if fail.is_none() {
                        match Deb822::from_str(&after) {
                            Err(_) => fail = Some(format!("after {}: printed document does not re-read: {:?}", op, after)),
                            Ok(d2) => {
                                let re: Vec<Items> = d2.paragraphs().map(|p| p.items().collect()).collect();
                                let want: Vec<Items> = want.into_iter().filter(|p| !p.is_empty()).collect();
                                if re != want {
                                    fail = Some(format!("after {}: re-read content {:?} differs from live content {:?}", op, re, want));
                                }
                            }
                        }
                    }
                }
            }
            Some(Resp::with(format!("{} {}", outs.join(" "), dump_deb(&doc)), fail))
        }
        _ => None,
    }
}

fn start_states() -> Vec<String> {
    let texts = [
        "",
        "A: b\n",
        "A: b",
        "A: b\nB: c\n",
        "A: b\nA: c\nB: d\n",
        "A: b\n c\n d\nB: e\n",
        "# lead\n\nA: b\n# mid\nB: c\n# tail\n",
        "A: b\n\nB: c\n",
        "A: b\n\n\n# between\n\nB: c\nA: d\n\n",
        "# x\n\nA: b\n\nB: c",
        "A: b\n\nB: c\n\nC: d\n",
        "A:b\nB:\n c\n",
        "A: b\n# c",
        // names that differ from the operands only in letter case are different fields
        "a: 1\nc: 2\n",
        "X: 0\na: 1\nA: 2\n\nc: 3\n",
        // the value starts on a continuation line (empty first line)
        "A:\n b\nC:\n  c\n d\n",
        // CR line ends: a bare CR is a line end for the readers, CR-only blank lines separate paragraphs
        "A: a\r\rB: b\r",
        "A: a\r\r\rC: c\r\rB: b",
        // error trees (outside the oracles' domain: only model and implementation are compared): a
        // key without colon at the end of the input leaves an EMPTY ERROR node as last child, and
        // rowan's `last_token()` is `None` on such a chain - `terminate_last_line` does nothing
        "A",
        "A\nB: c",
        "A: b\nC",
        "A: b\n\nC",
    ];
    let mut v: Vec<String> = texts.iter().map(|t| format!("t.{}", es(t))).collect();
    // the same operations on the live result of wrap_and_sort (bare tokens under the root)
    for t in ["# top\n\nA: a\n\n# mid\n\nB: b\n", "# top\nA: a\n\n# about B\nB: b\n", "# only\n", "A: b\n\nB: c", "A: b\n# in\nC: d\n\n# tail\n",
              "A", "A: b\nC", "A: b\n\nC"] {
        v.push(format!("w.{}", es(t)));
    }
    for t in ["# top\n\nPackage: b\nA: 1\n\n# about a\nPackage: a\n", "Package: b\n\nA: x\n\n# c\n\nPackage: a", "# only\n", "Package: z\n# in\nA: 1\n\n\n\nPackage: m\n\n# tail\n"] {
        v.push(format!("ws.{}", es(t)));
    }
    let docs: Vec<Vec<Vec<(String, String)>>> = vec![
        vec![],
        vec![vec![("A".into(), "b".into())]],
        vec![vec![("A".into(), "b".into()), ("B".into(), "l1\nl2".into())], vec![("C".into(), "d".into())]],
        vec![vec![("a".into(), "1".into()), ("c".into(), "2".into())]],
        // repeated names: the built paragraph keeps every pair, in order (after seeded change C04-r9m1)
        vec![vec![("A".into(), "1".into()), ("B".into(), "2".into()), ("A".into(), "3".into())]],
        vec![vec![("C".into(), "x".into()), ("C".into(), "l1\nl2".into())], vec![("A".into(), "1".into()), ("A".into(), "1".into())]],
    ];
    for d in docs {
        v.push(format!("d.{}", enc_doc(&d)));
    }
    // documents collected from parsed paragraphs, with and without the last line terminator
    for ts in [
        vec!["A: 1", "B: 2"],
        vec!["A: 1\n", "B: 2"],
        vec!["A: 1", "B: 2\n", "C: 3"],
        vec!["A: 1\n c", "A: 2"],
        vec!["A: 1\n# c", "B: 2"],
        vec!["# lead\nA: 1", "B: 2\n"],
        vec!["A: 1"],
    ] {
        v.push(format!("b.{}", ts.iter().map(|t| es(t)).collect::<Vec<_>>().join(".")));
    }
    v
}

fn op_pool(nh: usize) -> Vec<String> {
    let mut v = vec![];
    for h in 0..nh {
        for k in ["A", "C"] {
            for val in ["x", "l1\nl2", "#h", "l1\n:l2"] {
                v.push(format!("set.{}.{}.{}", h, es(k), es(val)));
            }
            v.push(format!("ins.{}.{}.{}", h, es(k), es("y")));
            v.push(format!("rm.{}.{}", h, es(k)));
            v.push(format!("ren.{}.{}.{}", h, es(k), es("D")));
        }
    }
    v.push("addp".to_string());
    for i in 0..3 {
        v.push(format!("insp.{}", i));
        v.push(format!("rmp.{}", i));
    }
    v
}

pub fn generate_edit(tier: &str, seed: u64, out: &mut Out, which: &str) {
    let thorough = tier == "thorough";
    let mut rng = Rng::new(seed);
    let pool: Vec<String> = match which {
        "C04" => op_pool(3).into_iter().filter(|o| !o.starts_with("addp") && !o.starts_with("insp") && !o.starts_with("rmp")).collect(),
        _ => {
            // the handles of paragraphs created by add/insert_paragraph (numbers 2 and 3 on the
            // start documents with two paragraphs): one field edit each, so that a new paragraph
            // is filled and the re-read oracle sees it (after seeded change C05-r5m1)
            let mut p = op_pool(2);
            p.push(format!("set.2.{}.{}", es("A"), es("x")));
            p.push(format!("set.3.{}.{}", es("C"), es("y")));
            p
        }
    };
    let maxlen = if thorough { 3 } else { 2 };
    let hist = lists_upto(&pool, maxlen);
    let stride = if thorough { 1 } else { 1 };
    for st in start_states() {
        for (n, h) in hist.iter().enumerate() {
            if h.is_empty() || n % stride != 0 {
                continue;
            }
            if thorough && h.len() == 3 && !rng.chance(60) {
                continue;
            }
            out.req("deb.hist", &[st.clone(), h.join(",")]);
        }
    }
    // random longer histories from random well-formed documents
    let n = if thorough { 600_000 } else { 6_000 };
    let full = op_pool(3);
    for _ in 0..n {
        let ls = docspec::random_lines(&mut rng, false);
        let text = docspec::render(&ls, rng.chance(80));
        let len = 3 + rng.below(8);
        let h: Vec<String> = (0..len).map(|_| rng.pick(if which == "C04" { &pool } else { &full }).clone()).collect();
        out.req("deb.hist", &[format!("t.{}", es(&text)), h.join(",")]);
    }
}
