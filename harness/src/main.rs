//! Correspondence harness: `gen` writes request lines, `worker` answers them by calling the real
//! crates of /repo in-process. The Lean model driver answers the same request lines.
//!
//! Worker response = `<observables>` [TAB `#FAIL:<reason>`]. The observables are compared with
//! the model's; the `#FAIL` suffix is the property's own oracle evaluated on the real code.

mod changes;
mod codec;
mod cpr;
mod deb;
mod derive;
mod docspec;
mod edit;
mod lossy;
mod lossybuild;
mod pgp;
mod rel;
mod relc14;
mod reledit;
mod relspec;
mod sat;
mod total;
mod typed;
mod typeddoc;
mod wrap;
mod util;

use std::io::{BufRead, Write};

pub struct Resp {
    pub obs: String,
    pub fail: Option<String>,
}
impl Resp {
    pub fn ok(obs: String) -> Resp {
        Resp { obs, fail: None }
    }
    pub fn with(obs: String, fail: Option<String>) -> Resp {
        Resp { obs, fail }
    }
}

fn dispatch(op: &str, args: &[&str]) -> Option<Resp> {
    if let Some(r) = pgp::handle(op, args) {
        return Some(r);
    }
    if let Some(r) = changes::handle(op, args) {
        return Some(r);
    }
    if let Some(r) = deb::handle(op, args) {
        return Some(r);
    }
    if let Some(r) = wrap::handle(op, args) {
        return Some(r);
    }
    if let Some(r) = edit::handle(op, args) {
        return Some(r);
    }
    if let Some(r) = lossy::handle(op, args) {
        return Some(r);
    }
    if let Some(r) = codec::handle(op, args) {
        return Some(r);
    }
    if let Some(r) = reledit::handle(op, args) {
        return Some(r);
    }
    if let Some(r) = relc14::handle(op, args) {
        return Some(r);
    }
    if let Some(r) = lossybuild::handle(op, args) {
        return Some(r);
    }
    if let Some(r) = typeddoc::handle(op, args) {
        return Some(r);
    }
    if let Some(r) = typed::handle(op, args) {
        return Some(r);
    }
    if let Some(r) = derive::handle(op, args) {
        return Some(r);
    }
    if let Some(r) = sat::handle(op, args) {
        return Some(r);
    }
    if let Some(r) = cpr::handle(op, args) {
        return Some(r);
    }
    if let Some(r) = total::handle(op, args) {
        return Some(r);
    }
    if let Some(r) = rel::handle(op, args) {
        return Some(r);
    }
    None
}

fn generate(prop: &str, tier: &str, seed: u64, out: &mut util::Out) {
    match prop {
        "C11" => {
            reledit::generate_c11(tier, seed, out);
            relc14::generate_c11_extra(tier, seed, out);
        }
        "C12" => sat::generate_c12(tier, seed, out),
        "C13" => reledit::generate_c13(tier, seed, out),
        "C14" => {
            relc14::generate_c14(tier, seed, out);
            lossybuild::generate_c14_build(tier, seed, out);
        }
        "C15" => {
            typed::generate_c15(tier, seed, out);
            changes::generate_c15(tier, seed, out);
        }
        "C16" => derive::generate_c16(tier, seed, out),
        "C17" => cpr::generate_c17(tier, seed, out),
        "C18" => codec::generate_c18(tier, seed, out),
        "C19" => pgp::generate(tier, seed, out),
        "C20" => typeddoc::generate_c20(tier, seed, out),
        "C01" => deb::generate_c01(tier, seed, out),
        "C02" => total::generate_c02(tier, seed, out),
        "C03" => deb::generate_c03(tier, seed, out),
        "C04" => edit::generate_edit(tier, seed, out, "C04"),
        "C05" => edit::generate_edit(tier, seed, out, "C05"),
        "C06" => lossy::generate_c06(tier, seed, out),
        "C07" => wrap::generate_c07(tier, seed, out),
        "C08" => lossy::generate_c08(tier, seed, out),
        "C09" => rel::generate_c09(tier, seed, out),
        "C10pre" => rel::generate_c10pre(tier, seed, out),
        "C10" => rel::generate_c10(tier, seed, out),
        "C14pre" => rel::generate_c14pre(tier, seed, out),
        _ => {}
    }
}

fn main() {
    let args: Vec<String> = std::env::args().collect();
    match args.get(1).map(|s| s.as_str()) {
        Some("gen") => {
            let prop = &args[2];
            let tier = &args[3];
            let seed: u64 = args.get(4).and_then(|s| s.parse().ok()).unwrap_or(0);
            let mut out = util::Out::streaming();
            generate(prop, tier, seed, &mut out);
            out.flush();
        }
        Some("ext") => {
            // `harness ext <entry> <x-hex text>`: the E column a `total` request of a typed document
            // reader carries (used to write corpus lines by hand)
            let entry = &args[2];
            let text = util::ds(&args[3]).expect("x<hex>");
            match total::typed_kind(entry).and_then(|k| typeddoc::ext_column_kind(k, &text)) {
                Some(e) => println!("total\t{}\t{}\t{}", entry, args[3], e),
                None => println!("total\t{}\t{}", entry, args[3]),
            }
        }
        Some("worker") => {
            std::panic::set_hook(Box::new(|_| {}));
            let stdin = std::io::stdin();
            let stdout = std::io::stdout();
            let mut w = stdout.lock();
            for line in stdin.lock().lines() {
                let line = line.unwrap();
                let mut parts = line.split('\t');
                let op = parts.next().unwrap_or("");
                let a: Vec<&str> = parts.collect();
                let r = std::panic::catch_unwind(|| dispatch(op, &a));
                let s = match r {
                    Ok(Some(r)) => match r.fail {
                        Some(f) => format!("{}\t#FAIL:{}", r.obs, f.replace(['\t', '\n'], " ")),
                        None => r.obs,
                    },
                    Ok(None) => "bad-op".to_string(),
                    Err(_) => "PANIC\t#FAIL:panic".to_string(),
                };
                writeln!(w, "{}", s).unwrap();
                w.flush().unwrap();
            }
        }
        _ => {
            eprintln!("usage: harness gen <prop> <tier> <seed> | harness worker");
            std::process::exit(2);
        }
    }
}
