//! Correspondence harness: `gen` writes request lines, `worker` answers them by calling the real
//! crates of /repo in-process. The Lean model driver answers the same request lines.
//!
//! Worker response = `<observables>` [TAB `#FAIL:<reason>`]. The observables are compared with
//! the model's; the `#FAIL` suffix is the property's own oracle evaluated on the real code.

mod changes;
mod codec;
mod cpr;
mod deb;
mod derive;
mod docspec;
mod edit;
mod lossy;
mod lossybuild;
mod pgp;
mod rel;
mod relc14;
mod reledit;
mod relspec;
mod sat;
mod total;
mod typed;
mod typeddoc;
mod wrap;
mod util;

use std::io::{BufRead, Write};

pub struct Resp {
    pub obs: String,
    pub fail: Option<String>,
}
impl Resp {
    pub fn ok(obs: String) -> Resp {
        Resp { obs, fail: None }
    }
    pub fn with(obs: String, fail: Option<String>) -> Resp {
        Resp { obs, fail }
    }
}

/// how often a request of this family is evaluated a second time (1 = always)
fn interfere_every(op: &str) -> u64 {
    if op.starts_with("glob.") || op.starts_with("cpr.") {
        16
    } else if op.starts_with("derive.") || op.starts_with("typed.") || op.starts_with("acc.") || op == "total" {
        4
    } else {
        2
    }
}

/// unrelated calls into the crates between the two evaluations of a request: reads that fail and
/// reads that succeed, with every flag setting, look-ups that hit late entries, normalisations whose
/// results are then edited in place, more distinct glob patterns than a small cache holds
fn interfere(op: &str) {
    use std::str::FromStr;
    // deb822, lossless and lossy
    let _ = deb822_lossless::Deb822::from_str_relaxed("Bad\n-x\n");
    if let Ok(d) = deb822_lossless::Deb822::from_str("A: 1\nB: 2\nA: 3\n\nC: d\n") {
        for mut p in d.paragraphs() {
            let _ = p.get("B");
            p.set("Zz", "poked");
        }
    }
    let _ = deb822_lossless::lossy::Deb822::from_reader(&b"Package"[..]);
    let _ = deb822_lossless::lossy::Deb822::from_reader(&b"A: \xc3"[..]);
    let _ = deb822_lossless::lossy::Deb822::from_str("X: y\n z\n");
    let _ = deb822_lossless::lossy::Paragraph::from_str("nocolon");
    // relations, lossless and lossy
    use debian_control::lossless::relations::{Relation as LRel, Relations as LRels};
    let _ = LRels::parse_relaxed("${x}, a (", true);
    let _ = LRels::parse_relaxed("${x}, a (", false);
    let _ = debian_control::lossy::Relations::from_str("a, b c [amd64 arm64], d");
    let _ = debian_control::lossy::Relation::from_str("libfoo (>= 1.0) libbar <cross>");
    let _ = debian_control::lossy::Relation::from_str("ok (= 1)");
    if let Ok(r) = LRel::from_str("a") {
        let mut w = r.wrap_and_sort();
        w.set_archqual("zz");
    }
    if let Ok(r) = LRels::from_str("b, a") {
        let w = r.wrap_and_sort();
        if let Some(e) = w.get_entry(0) {
            if let Some(mut x) = e.get_relation(0) {
                x.set_archqual("zy");
            }
        }
    }
    // PGP: each error path, then a success
    for t in [
        "-----BEGIN PGP SIGNED MESSAGE-----\nHash: SHA256\n\nstale payload\n",
        "-----BEGIN PGP SIGNED MESSAGE-----\n\np\n-----BEGIN PGP SIGNATURE-----\nstale signature\n",
        "-----BEGIN PGP SIGNED MESSAGE-----\nHash: x\n",
    ] {
        let _ = debian_control::pgp::strip_pgp_signature(t);
    }
    // copyright: more distinct patterns than a small cache holds
    if op.starts_with("glob.") || op.starts_with("cpr.") {
        let mut t = String::from("Format: x\n");
        for i in 0..70 {
            t.push_str(&format!("\nFiles: interfere{}/*\nCopyright: c\nLicense: L{}\n", i, i));
        }
        if let Ok(c) = debian_copyright::lossless::Copyright::from_str(&t) {
            let _ = c.find_files(std::path::Path::new("interfere3/x"));
        }
    }
}

fn dispatch(op: &str, args: &[&str]) -> Option<Resp> {
    if let Some(r) = pgp::handle(op, args) {
        return Some(r);
    }
    if let Some(r) = changes::handle(op, args) {
        return Some(r);
    }
    if let Some(r) = deb::handle(op, args) {
        return Some(r);
    }
    if let Some(r) = wrap::handle(op, args) {
        return Some(r);
    }
    if let Some(r) = edit::handle(op, args) {
        return Some(r);
    }
    if let Some(r) = lossy::handle(op, args) {
        return Some(r);
    }
    if let Some(r) = codec::handle(op, args) {
        return Some(r);
    }
    if let Some(r) = reledit::handle(op, args) {
        return Some(r);
    }
    if let Some(r) = relc14::handle(op, args) {
        return Some(r);
    }
    if let Some(r) = lossybuild::handle(op, args) {
        return Some(r);
    }
    if let Some(r) = typeddoc::handle(op, args) {
        return Some(r);
    }
    if let Some(r) = typed::handle(op, args) {
        return Some(r);
    }
    if let Some(r) = derive::handle(op, args) {
        return Some(r);
    }
    if let Some(r) = sat::handle(op, args) {
        return Some(r);
    }
    if let Some(r) = cpr::handle(op, args) {
        return Some(r);
    }
    if let Some(r) = total::handle(op, args) {
        return Some(r);
    }
    if let Some(r) = rel::handle(op, args) {
        return Some(r);
    }
    None
}

fn generate(prop: &str, tier: &str, seed: u64, out: &mut util::Out) {
    match prop {
        "C11" => {
            reledit::generate_c11(tier, seed, out);
            relc14::generate_c11_extra(tier, seed, out);
        }
        "C12" => sat::generate_c12(tier, seed, out),
        "C13" => reledit::generate_c13(tier, seed, out),
        "C14" => {
            relc14::generate_c14(tier, seed, out);
            lossybuild::generate_c14_build(tier, seed, out);
            // the lossy reader / printer on arbitrary short texts (model = code outside the domain)
            rel::generate_c14pre_every(tier, seed, out, if tier == "thorough" { 1 } else { 3 });
        }
        "C15" => {
            typed::generate_c15(tier, seed, out);
            changes::generate_c15(tier, seed, out);
        }
        "C16" => derive::generate_c16(tier, seed, out),
        "C17" => cpr::generate_c17(tier, seed, out),
        "C18" => codec::generate_c18(tier, seed, out),
        "C19" => pgp::generate(tier, seed, out),
        "C20" => typeddoc::generate_c20(tier, seed, out),
        "C01" => deb::generate_c01(tier, seed, out),
        "C02" => total::generate_c02(tier, seed, out),
        "C03" => deb::generate_c03(tier, seed, out),
        "C04" => edit::generate_edit(tier, seed, out, "C04"),
        "C05" => edit::generate_edit(tier, seed, out, "C05"),
        "C06" => lossy::generate_c06(tier, seed, out),
        "C07" => wrap::generate_c07(tier, seed, out),
        "C08" => lossy::generate_c08(tier, seed, out),
        "C09" => rel::generate_c09(tier, seed, out),
        "C10pre" => rel::generate_c10pre(tier, seed, out),
        "C10" => {
            rel::generate_c10(tier, seed, out);
            // accessors / Version::from_str on arbitrary short texts (model = code outside WF)
            rel::generate_c10pre_every(tier, seed, out, if tier == "thorough" { 4 } else { 2 });
        }
        "C14pre" => rel::generate_c14pre(tier, seed, out),
        _ => {}
    }
}

fn main() {
    let args: Vec<String> = std::env::args().collect();
    match args.get(1).map(|s| s.as_str()) {
        Some("gen") => {
            let prop = &args[2];
            let tier = &args[3];
            let seed: u64 = args.get(4).and_then(|s| s.parse().ok()).unwrap_or(0);
            let mut out = util::Out::streaming();
            generate(prop, tier, seed, &mut out);
            out.flush();
        }
        Some("ext") => {
            // `harness ext <entry> <x-hex text>`: the E column a `total` request of a typed document
            // reader carries (used to write corpus lines by hand)
            let entry = &args[2];
            let text = util::ds(&args[3]).expect("x<hex>");
            match total::typed_kind(entry).and_then(|k| typeddoc::ext_column_kind(k, &text)) {
                Some(e) => println!("total\t{}\t{}\t{}", entry, args[3], e),
                None => println!("total\t{}\t{}", entry, args[3]),
            }
        }
        Some("worker") => {
            std::panic::set_hook(Box::new(|_| {}));
            let stdin = std::io::stdin();
            let stdout = std::io::stdout();
            let mut w = stdout.lock();
            let mut nreq: u64 = 0;
            for line in stdin.lock().lines() {
                let line = line.unwrap();
                let mut parts = line.split('\t');
                let op = parts.next().unwrap_or("");
                let a: Vec<&str> = parts.collect();
                let mut r = std::panic::catch_unwind(|| dispatch(op, &a));
                // every operation of the line protocol is a function of its request: evaluated again
                // after unrelated calls into the same crates (failed and successful reads, lookups,
                // edits of values returned earlier) it must answer the same. This is what exposes
                // state kept between calls — caches keyed too coarsely, scratch buffers left dirty by
                // error paths, trees shared between results (seeded rounds 5 and 6).
                nreq += 1;
                if let Ok(Some(first)) = &r {
                    if first.fail.is_none() && nreq % interfere_every(op) == 0 {
                        let _ = std::panic::catch_unwind(|| interfere(op));
                        let again = std::panic::catch_unwind(|| dispatch(op, &a));
                        let same = match &again {
                            Ok(Some(x)) => x.obs == first.obs && x.fail.is_none(),
                            _ => false,
                        };
                        if !same {
                            let second = match &again {
                                Ok(Some(x)) => format!("{}{}", x.obs, x.fail.as_ref().map(|f| format!(" #FAIL:{}", f)).unwrap_or_default()),
                                Ok(None) => "bad-op".to_string(),
                                Err(_) => "PANIC".to_string(),
                            };
                            let obs = first.obs.clone();
                            r = Ok(Some(Resp::with(
                                obs,
                                Some(format!("the answer depends on earlier calls: evaluated again after unrelated calls the same request answers {}", second.chars().take(300).collect::<String>())),
                            )));
                        }
                    }
                }
                let s = match r {
                    Ok(Some(r)) => match r.fail {
                        Some(f) => format!("{}\t#FAIL:{}", r.obs, f.replace(['\t', '\n'], " ")),
                        None => r.obs,
                    },
                    Ok(None) => "bad-op".to_string(),
                    Err(_) => "PANIC\t#FAIL:panic".to_string(),
                };
                writeln!(w, "{}", s).unwrap();
                w.flush().unwrap();
            }
        }
        _ => {
            eprintln!("usage: harness gen <prop> <tier> <seed> | harness worker");
            std::process::exit(2);
        }
    }
}
