//! C17: debian_copyright — DEP-5 globs, "last matching Files paragraph wins", licence lookup,
//! the `Format:` gate, lossless view vs lossy view.
//!
//! ops
//!   glob.match <files field> <path>                  -> `1` | `0` | `PANIC`
//!       (a one-line Files field: since fix 546a36f both views split it on white space, so a
//!        space separates patterns; a field without white space is one pattern)
//!   glob.big <unit> <n> <path unit> <m>             -> the same for the pattern unit x n, path unit x m
//!   cpr.find   <text> <path> <strict_ok> <paras>     -> `L[..] R[..] Y[..]`
//!
//! `<paras>` / `<strict_ok>` are what the real deb822 reader makes of `<text>` (the generator
//! fills them in by calling the reader; the worker recomputes them and refuses a request whose
//! paragraph list is not the reader's). The Lean model works on that paragraph list: a copyright
//! file is, abstractly, an ordered list of paragraphs, each an ordered list of (field, value).
//! paragraph list encoding: `-` = no paragraph; otherwise paragraphs joined by `;`, each the flat
//! list `k1,v1,k2,v2,…` of `x<hex>` strings (empty group = paragraph without keyed entries).
use crate::util::*;
use crate::Resp;
use deb822_lossless::{Deb822, FromDeb822Paragraph, ToDeb822Paragraph};
use debian_copyright::License;
use std::panic::{catch_unwind, AssertUnwindSafe};
use std::path::Path;
use std::str::FromStr;

type Para = Vec<(String, String)>;

// ------------------------------------------------------------------ the property's own oracle
// (written from the statement of C17, not from the code)

/// `None` = the pattern has a backslash that is not followed by `*`, `?` or `\` (the statement
/// gives no meaning to it; the code panics there — domain exclusion, recorded)
fn ref_valid(g: &[char]) -> bool {
    match g {
        [] => true,
        ['\\', c, rest @ ..] => matches!(c, '*' | '?' | '\\') && ref_valid(rest),
        ['\\'] => false,
        [_, rest @ ..] => ref_valid(rest),
    }
}

/// reference matcher: `*` any run (including `/`), `?` exactly one character, `\x` literal x,
/// anything else itself; the whole path must be consumed
fn ref_glob(g: &[char], p: &[char]) -> bool {
    match g {
        [] => p.is_empty(),
        ['*', rest @ ..] => (0..=p.len()).any(|k| ref_glob(rest, &p[k..])),
        ['?', rest @ ..] => !p.is_empty() && ref_glob(rest, &p[1..]),
        ['\\', c, rest @ ..] => p.first() == Some(c) && ref_glob(rest, &p[1..]),
        [c, rest @ ..] => p.first() == Some(c) && ref_glob(rest, &p[1..]),
    }
}

fn chars(s: &str) -> Vec<char> {
    s.chars().collect()
}

fn pget<'a>(p: &'a Para, k: &str) -> Option<&'a str> {
    p.iter().find(|(a, _)| a == k).map(|(_, v)| v.as_str())
}

/// (name, text) of a licence field value as the statement reads it: first line = name, rest = text
fn ref_license(v: &str) -> (Option<String>, Option<String>) {
    match v.split_once('\n') {
        None => (Some(v.to_string()), None),
        Some((n, t)) => (if n.is_empty() { None } else { Some(n.to_string()) }, Some(t.to_string())),
    }
}

type Lic = (Option<String>, Option<String>);

struct Expect {
    idx: Option<usize>,
    lic: Option<Lic>,
}

/// Is the paragraph list a well-formed DEP-5 file in the sense of the property's quantifier?
/// (Lean: `Spec.wellFormed` = lossyShape, licenceNamed, patternsValid.)
/// header (a first paragraph with Format; whatever else it carries — a License field, the licence
/// of the package as a whole, is legal DEP-5; even a Files field does not make it a Files
/// paragraph) followed by Files paragraphs (Files, Copyright, License) and stand-alone licence
/// paragraphs (License not beginning with an empty line, no Files); all patterns with valid escapes.
fn in_domain(text: &str, strict_ok: bool, paras: &[Para]) -> bool {
    if !text.starts_with("Format:") || !strict_ok || paras.is_empty() {
        return false;
    }
    let h = &paras[0];
    if pget(h, "Format").is_none() {
        return false;
    }
    for p in &paras[1..] {
        match (pget(p, "Files"), pget(p, "License")) {
            (Some(f), Some(_)) => {
                if pget(p, "Copyright").is_none() {
                    return false;
                }
                if !f.split_whitespace().all(|g| ref_valid(&chars(g))) {
                    return false;
                }
            }
            (None, Some(l)) => {
                if l.starts_with('\n') {
                    return false;
                }
            }
            _ => return false,
        }
    }
    true
}

/// The first paragraph is the header: Files paragraphs and stand-alone licence paragraphs are
/// looked for among the paragraphs after it only.
fn expect(paras: &[Para], path: &str) -> Expect {
    let body: &[Para] = paras.get(1..).unwrap_or(&[]);
    let files: Vec<&Para> = body.iter().filter(|p| pget(p, "Files").is_some()).collect();
    let pc = chars(path);
    let idx = files
        .iter()
        .enumerate()
        .filter(|(_, p)| pget(p, "Files").unwrap().split_whitespace().any(|g| ref_glob(&chars(g), &pc)))
        .map(|(i, _)| i)
        .last();
    let lic = idx.and_then(|i| {
        let own = ref_license(pget(files[i], "License")?);
        if own.1.is_some() {
            return Some(own);
        }
        let name = own.0?;
        body.iter()
            .filter(|p| pget(p, "Files").is_none())
            .filter_map(|p| pget(p, "License"))
            .map(ref_license)
            .find(|l| l.0.as_deref() == Some(name.as_str()))
    });
    Expect { idx, lic }
}

// ------------------------------------------------------------------ observing the real code

fn reader_paras(text: &str) -> (bool, Vec<Para>) {
    let (d, errs) = Deb822::from_str_relaxed(text);
    (errs.is_empty(), d.paragraphs().map(|p| p.items().collect()).collect())
}

fn enc_paras(ps: &[Para]) -> String {
    if ps.is_empty() {
        return "-".to_string();
    }
    ps.iter()
        .map(|p| p.iter().map(|(k, v)| format!("{},{}", es(k), es(v))).collect::<Vec<_>>().join(","))
        .collect::<Vec<_>>()
        .join(";")
}

fn dec_paras(f: &str) -> Option<Vec<Para>> {
    if f == "-" {
        return Some(vec![]);
    }
    f.split(';')
        .map(|g| {
            let l = dlist(g)?;
            if l.len() % 2 != 0 {
                return None;
            }
            Some(l.chunks(2).map(|c| (c[0].clone(), c[1].clone())).collect())
        })
        .collect()
}

fn lic_tuple(l: &License) -> Lic {
    (l.name().map(|s| s.to_string()), l.text().map(|s| s.to_string()))
}

fn show_lic(l: &Option<Lic>) -> String {
    match l {
        None => "none".to_string(),
        Some((n, t)) => format!("{}/{}", eopt(n.as_deref()), eopt(t.as_deref())),
    }
}

fn show_idx(i: &Option<usize>) -> String {
    match i {
        None => "none".to_string(),
        Some(i) => i.to_string(),
    }
}

/// what one view answers: Err(gate/convert outcome) or (files index, licence), each possibly PANIC
#[derive(PartialEq, Clone)]
enum Ans<T> {
    Val(T),
    Panic,
}

struct View {
    gate: String, // ok | nmr | perr | err:<hex message>
    idx: Ans<Option<usize>>,
    lic: Ans<Option<Lic>>,
    /// the copyright holders of the paragraph found (lossless: `copyright()`; lossy: the stored
    /// `copyright` vector); `Err` = the stored vector could not be read off the Debug rendering
    cpr: Ans<Option<Result<Vec<String>, String>>>,
}

fn show_cpr(c: &Option<Result<Vec<String>, String>>) -> String {
    match c {
        None => "none".to_string(),
        Some(Ok(l)) => format!("{}:{}", l.len(), elist(l)),
        Some(Err(e)) => format!("?{}", es(e)),
    }
}

/// The fields of the lossy `FilesParagraph` are private and `to_paragraph()` joins the holders
/// with `\n` (so `[]` and `[""]` both print as the empty field). The derived `Debug` ends with
/// `copyright: <vec>, comment: <option> }`: the comment is known from `to_paragraph()`, and the
/// vector is whichever of the candidates (`[]` when the joined field is empty, and its `split('\n')`)
/// renders to that suffix.
fn lossy_copyright(fp: &debian_copyright::lossy::FilesParagraph) -> Result<Vec<String>, String> {
    let para: deb822_lossless::lossy::Paragraph = fp.to_paragraph();
    let comment: Option<String> = para.get("Comment").map(|s| s.to_string());
    let joined = para.get("Copyright").unwrap_or_default().to_string();
    let dbg = format!("{:?}", fp);
    let tail = format!(", comment: {:?} }}", comment);
    let body = dbg.strip_suffix(&tail).ok_or_else(|| format!("no comment suffix in {}", dbg))?;
    let mut cands: Vec<Vec<String>> = vec![joined.split('\n').map(|x| x.to_string()).collect()];
    if joined.is_empty() {
        cands.push(vec![]);
    }
    let hits: Vec<Vec<String>> =
        cands.into_iter().filter(|c| body.ends_with(&format!(", copyright: {:?}", c))).collect();
    match hits.as_slice() {
        [one] => Ok(one.clone()),
        _ => Err(format!("copyright not identified in {}", dbg)),
    }
}

fn show_view(tag: &str, v: &View) -> String {
    if v.gate != "ok" {
        return format!("{}[{}]", tag, v.gate);
    }
    let i = match &v.idx {
        Ans::Val(i) => show_idx(i),
        Ans::Panic => "PANIC".to_string(),
    };
    let l = match &v.lic {
        Ans::Val(l) => show_lic(l),
        Ans::Panic => "PANIC".to_string(),
    };
    let c = match &v.cpr {
        Ans::Val(c) => show_cpr(c),
        Ans::Panic => "PANIC".to_string(),
    };
    format!("{}[ok files={} lic={} cpr={}]", tag, i, l, c)
}

fn guard<T>(f: impl FnOnce() -> T) -> Ans<T> {
    match catch_unwind(AssertUnwindSafe(f)) {
        Ok(v) => Ans::Val(v),
        Err(_) => Ans::Panic,
    }
}

/// identify the Files paragraph returned by the lossless `find_files` among `iter_files()`:
/// the public API exposes no identity, so the index is the last paragraph with the same
/// (files, copyright, comment, license) — indistinguishable duplicates are interchangeable
fn lossless_view(c: &debian_copyright::lossless::Copyright, path: &str) -> View {
    type Key = (Vec<String>, Vec<String>, Option<String>, Option<License>);
    let key = |p: &debian_copyright::lossless::FilesParagraph| -> Key { (p.files(), p.copyright(), p.comment(), p.license()) };
    let idx = guard(|| {
        c.find_files(Path::new(path)).map(|found| {
            let k = key(&found);
            c.iter_files().enumerate().filter(|(_, p)| key(p) == k).map(|(i, _)| i).last().unwrap_or(usize::MAX)
        })
    });
    let lic = guard(|| c.find_license_for_file(Path::new(path)).map(|l| lic_tuple(&l)));
    let cpr = guard(|| c.find_files(Path::new(path)).map(|found| Ok(found.copyright())));
    View { gate: "ok".to_string(), idx, lic, cpr }
}

fn view_l(text: &str, path: &str) -> View {
    use debian_copyright::lossless::{Copyright, Error};
    match Copyright::from_str(text) {
        Err(Error::NotMachineReadable) => View { gate: "nmr".into(), idx: Ans::Panic, lic: Ans::Panic, cpr: Ans::Panic },
        Err(Error::ParseError(_)) => View { gate: "perr".into(), idx: Ans::Panic, lic: Ans::Panic, cpr: Ans::Panic },
        Err(Error::IoError(_)) => View { gate: "ioerr".into(), idx: Ans::Panic, lic: Ans::Panic, cpr: Ans::Panic },
        Ok(c) => lossless_view(&c, path),
    }
}

fn view_r(text: &str, path: &str) -> View {
    use debian_copyright::lossless::{Copyright, Error};
    match Copyright::from_str_relaxed(text) {
        Err(Error::NotMachineReadable) => View { gate: "nmr".into(), idx: Ans::Panic, lic: Ans::Panic, cpr: Ans::Panic },
        Err(_) => View { gate: "perr".into(), idx: Ans::Panic, lic: Ans::Panic, cpr: Ans::Panic },
        Ok((c, _)) => lossless_view(&c, path),
    }
}

fn view_y(text: &str, path: &str, strict_ok: bool) -> View {
    use debian_copyright::lossy::Copyright;
    match Copyright::from_str(text) {
        Err(m) => {
            let gate = if m == "Not machine readable" {
                "nmr".to_string()
            } else if !strict_ok {
                // the message is the deb822 reader's error list; not an observable of C17
                "perr".to_string()
            } else {
                format!("err:{}", es(&m))
            };
            View { gate, idx: Ans::Panic, lic: Ans::Panic, cpr: Ans::Panic }
        }
        Ok(c) => {
            let idx = guard(|| {
                c.find_files(Path::new(path))
                    .map(|found| c.files.iter().position(|f| std::ptr::eq(f, found)).unwrap_or(usize::MAX))
            });
            let lic = guard(|| c.find_license_for_file(Path::new(path)).map(lic_tuple));
            let cpr = guard(|| c.find_files(Path::new(path)).map(lossy_copyright));
            View { gate: "ok".to_string(), idx, lic, cpr }
        }
    }
}

/// `glob_to_regex(pattern).is_match(path)` is private; the lossy `FilesParagraph` built from a
/// field list (no text involved) hands the one-line Files field to `deserialize_file_list`
fn glob_via_lossy(pattern: &str, path: &str) -> Result<Ans<bool>, String> {
    let para: deb822_lossless::lossy::Paragraph = vec![
        ("Files".to_string(), pattern.to_string()),
        ("License".to_string(), "l".to_string()),
        ("Copyright".to_string(), "c".to_string()),
    ]
    .into_iter()
    .collect();
    let fp = debian_copyright::lossy::FilesParagraph::from_paragraph(&para)?;
    Ok(guard(|| fp.matches(Path::new(path))))
}

/// the same question through a copyright text and the lossless view, when the text form carries
/// the same pattern list
fn glob_via_text(pattern: &str, path: &str) -> Option<(Ans<bool>, Ans<bool>)> {
    let text = format!("Format: x\n\nFiles: {}\nCopyright: c\nLicense: l\n", pattern);
    let c = debian_copyright::lossless::Copyright::from_str(&text).ok()?;
    let fp = c.iter_files().next()?;
    if fp.files() != pattern.split_whitespace().map(|x| x.to_string()).collect::<Vec<_>>() {
        return None;
    }
    let m = guard(|| fp.matches(Path::new(path)));
    let f = guard(|| c.find_files(Path::new(path)).is_some());
    Some((m, f))
}

pub fn handle(op: &str, a: &[&str]) -> Option<Resp> {
    match (op, a) {
        ("glob.match", [g, p]) => {
            let g = ds(g)?;
            let p = ds(p)?;
            if g.contains('\n') {
                return None;
            }
            let r = match glob_via_lossy(&g, &p) {
                Ok(r) => r,
                Err(e) => return Some(Resp::with("CONVERT-ERROR".into(), Some(e))),
            };
            let obs = match &r {
                Ans::Val(true) => "1",
                Ans::Val(false) => "0",
                Ans::Panic => "PANIC",
            };
            let toks: Vec<Vec<char>> = g.split_whitespace().map(chars).collect();
            let mut fail = None;
            // domain of the glob clause: valid escapes, path without a newline
            if toks.iter().all(|t| ref_valid(t)) && !p.contains('\n') {
                let pc = chars(&p);
                let want = toks.iter().any(|t| ref_glob(t, &pc));
                if r != Ans::Val(want) {
                    fail = Some(format!("glob {:?} on path {:?}: expected {} got {}", g, p, ebool(want), obs));
                }
            }
            if fail.is_none() {
                if let Some((m, f)) = glob_via_text(&g, &p) {
                    if m != r || f != r {
                        fail = Some("lossless FilesParagraph::matches / find_files disagree with the lossy matches".to_string());
                    }
                }
            }
            Some(Resp::with(obs.to_string(), fail))
        }
        // a long pattern: `unit` x n against the path `punit` x m. `glob_to_regex` ends in
        // `Regex::new(..).unwrap()` and the regex crate refuses compiled programs above 10 MB
        // (measured: `?` x 10486, `*` x 10083, `a` x 327675, `é` x 163838 panic with CompiledTooBig;
        // audit C17 D1). The generated family stays below those sizes, where the model (which
        // has no size limit) and the code must agree; the oracle is the closed form for a
        // one-kind pattern.
        ("glob.big", [u, n, pu, m]) => {
            let u = ds(u)?;
            let pu = ds(pu)?;
            let n: usize = n.parse().ok()?;
            let m: usize = m.parse().ok()?;
            if u.chars().any(char::is_whitespace) || u.is_empty() || n == 0 || u.len() * n > 1_000_000 || pu.len() * m > 1_000_000 {
                return None;
            }
            let g = u.repeat(n);
            let p = pu.repeat(m);
            let r = match glob_via_lossy(&g, &p) {
                Ok(r) => r,
                Err(e) => return Some(Resp::with("CONVERT-ERROR".into(), Some(e))),
            };
            let obs = match &r {
                Ans::Val(true) => "1",
                Ans::Val(false) => "0",
                Ans::Panic => "PANIC",
            };
            let mut fail = None;
            if !p.contains('\n') {
                let want = match u.as_str() {
                    "?" => Some(p.chars().count() == n),
                    "*" => Some(true),
                    "a?" => Some({
                        let pc = chars(&p);
                        pc.len() == 2 * n && pc.iter().step_by(2).all(|c| *c == 'a')
                    }),
                    lit if !lit.contains(['*', '?', '\\']) => Some(p == g),
                    _ => None,
                };
                if let Some(w) = want {
                    if r != Ans::Val(w) {
                        fail = Some(format!("glob {:?} x {} on path {:?} x {}: expected {} got {}", u, n, pu, m, ebool(w), obs));
                    }
                }
            }
            Some(Resp::with(obs.to_string(), fail))
        }
        ("cpr.find", [t, p, so, ps]) => {
            let text = ds(t)?;
            let path = ds(p)?;
            let paras = dec_paras(ps)?;
            let (strict_ok, real) = reader_paras(&text);
            if real != paras || ebool(strict_ok) != *so {
                return Some(Resp::with(
                    "BAD-REQUEST".into(),
                    Some("the request's paragraph list is not what the deb822 reader returns for the text".into()),
                ));
            }
            if strict_ok {
                // strict reader = tolerant reader when there is no error (C01); checked, not assumed
                let same = Deb822::from_str(&text)
                    .map(|d| d.paragraphs().map(|p| p.items().collect::<Para>()).collect::<Vec<_>>() == paras)
                    .unwrap_or(false);
                if !same {
                    return Some(Resp::with("BAD-REQUEST".into(), Some("strict and tolerant readers differ".into())));
                }
            }
            let l = view_l(&text, &path);
            let r = view_r(&text, &path);
            let y = view_y(&text, &path, strict_ok);
            let obs = format!("{} {} {}", show_view("L", &l), show_view("R", &r), show_view("Y", &y));
            let mut fail: Option<String> = None;
            if !text.starts_with("Format:") {
                if l.gate != "nmr" || r.gate != "nmr" || y.gate != "nmr" {
                    fail = Some("text does not start with a Format field but was not refused as not machine-readable".into());
                }
            } else if in_domain(&text, strict_ok, &paras) && !path.contains('\n') {
                let e = expect(&paras, &path);
                let want = format!("files={} lic={}", show_idx(&e.idx), show_lic(&e.lic));
                let mut why = vec![];
                for (tag, v) in [("lossless", &l), ("lossless-relaxed", &r), ("lossy", &y)] {
                    if v.gate != "ok" {
                        why.push(format!("{} refused a well-formed file ({})", tag, v.gate));
                    } else if v.idx != Ans::Val(e.idx) || v.lic != Ans::Val(e.lic.clone()) {
                        why.push(format!("{} answers {} expected {}", tag, &show_view("", v), want));
                    }
                }
                if why.is_empty() && (l.idx != y.idx || l.lic != y.lic) {
                    why.push("lossless and lossy answers differ".to_string());
                }
                if !why.is_empty() {
                    fail = Some(why.join("; "));
                }
            }
            Some(Resp::with(obs, fail))
        }
        // development aid: the full `cpr.find` request line for a text (for corpus files)
        ("cpr.req", [t, p]) => {
            let mut o = Out::new();
            find_req(&mut o, &ds(t)?, &ds(p)?);
            Some(Resp::ok(o.lines.pop()?))
        }
        _ => None,
    }
}

/// request line for a text: the reader's paragraph list is filled in here
pub fn find_req(out: &mut Out, text: &str, path: &str) {
    let (ok, ps) = reader_paras(text);
    out.req("cpr.find", &[es(text), es(path), ebool(ok).to_string(), enc_paras(&ps)]);
}

// ------------------------------------------------------------------ generators

/// paths obtained by instantiating the pattern (so that matches are not rare): `*` -> a run,
/// `?` -> one character, `\x` -> x, anything else itself; then small mutations
fn derived_paths(g: &str, rng: &mut Rng) -> Vec<String> {
    let runs = ["", "a", "/a", "a/.[", "+", "*"];
    let ones = ["a", "/", "[", " ", "?", "."];
    let mut out = vec![];
    for v in 0..4 {
        let mut p = String::new();
        let mut it = g.chars();
        while let Some(c) = it.next() {
            match c {
                '*' => p.push_str(if v == 0 { "" } else { *rng.pick(&runs) }),
                '?' => p.push_str(if v == 0 { "a" } else { *rng.pick(&ones) }),
                '\\' => {
                    if let Some(x) = it.next() {
                        p.push(x)
                    }
                }
                c => p.push(c),
            }
        }
        out.push(p);
    }
    let base = out[0].clone();
    out.push(format!("{}a", base));
    out.push(format!("a{}", base));
    let mut cut = base.clone();
    cut.pop();
    out.push(cut);
    out.push(base.replace('a', "b"));
    out
}

fn gen_globs(thorough: bool, rng: &mut Rng, out: &mut Out) {
    let palpha = ["a", "/", ".", "*", "?", "\\", "[", "+", "(", "^", "$", "|", "{", "-", " "];
    let qalpha = ["a", "/", ".", "*", "?", "\\", "["];
    let n = if thorough { 4 } else { 3 };
    let pats = strings_upto(&palpha, n);
    let paths = strings_upto(&qalpha, n);
    // always: every path of length <= 2 (quick) / <= 1 (thorough); sampled: the longer ones
    let always: Vec<&String> = paths.iter().filter(|p| p.chars().count() <= if thorough { 1 } else { 2 }).collect();
    let sampled = if thorough { 30 } else { 18 };
    for g in &pats {
        let eg = es(g);
        for p in &always {
            out.req("glob.match", &[eg.clone(), es(p)]);
        }
        for _ in 0..sampled {
            out.req("glob.match", &[eg.clone(), es(&paths[rng.below(paths.len())])]);
        }
        for p in derived_paths(g, rng) {
            out.req("glob.match", &[eg.clone(), es(&p)]);
        }
    }
    // fixed extras: non-ASCII, every ASCII punctuation character as a literal, nested stars
    let mut extra: Vec<(String, String)> = vec![
        ("?".into(), "é".into()),
        ("é*".into(), "éa/😀".into()),
        ("*a*a*a*b".into(), "aaaaaaaaaaaaaaaaaaaaaaaa".into()),
        ("*a*a*a*b".into(), "aaaaaaaaaaaaaaaaaaaaaaab".into()),
        ("debian/*".into(), "debian/foo.c".into()),
        ("*.rs".into(), "foo.rs.bak".into()),
        ("a".into(), "A".into()),
        // newline in the path (outside the property's domain; pins the regex `.` semantics)
        ("?".into(), "\n".into()),
        ("a?b".into(), "a\nb".into()),
        ("*".into(), "\n".into()),
        ("a*".into(), "a\n".into()),
        ("a".into(), "a\n".into()),
        ("*".into(), "a\r\nb".into()),
        ("?".into(), "\r".into()),
    ];
    for c in 0x21u8..0x7f {
        let c = c as char;
        if c == '\\' {
            continue;
        }
        extra.push((format!("x{}y", c), format!("x{}y", c)));
        extra.push((format!("x{}y", c), "xy".to_string()));
        extra.push((format!("x{}y", c), "xxy".to_string()));
        extra.push((format!("\\{}", c), c.to_string()));
    }
    for (g, p) in extra {
        out.req("glob.match", &[es(&g), es(&p)]);
    }
    // family glob.big: long patterns BELOW the regex crate's compiled-size limit (see `glob.big`)
    let big: [(&str, usize, &[(&str, usize)]); 6] = [
        ("?", 10000, &[("b", 10000), ("b", 9999), ("b", 10001), ("z", 3), ("é", 10000), ("", 0)]),
        ("*", 9000, &[("z", 3), ("", 0), ("a/b", 1000), ("a\nb", 1)]),
        ("a", 300000, &[("a", 300000), ("a", 299999), ("z", 3)]),
        ("a?", 5000, &[("ab", 5000), ("ba", 5000), ("ab", 4999)]),
        ("é", 150000, &[("é", 150000), ("e", 150000)]),
        ("x.", 1000, &[("x.", 1000), ("xy", 1000)]),
    ];
    for (u, n, paths) in big {
        for (pu, m) in paths {
            out.req("glob.big", &[es(u), n.to_string(), es(pu), m.to_string()]);
        }
    }
}

const PATS: [&str; 10] = ["*", "a/*", "*/b", "a/b", "*.c", "a/?", "b/*", "\\*", "a+b", "a/*/c"];
const PATHS: [&str; 14] = [
    "a/b", "a/x", "b", "x.c", "a/b.c", "b/y", "*", "a/b/c", "a+b", "aab", "", "a/x b/y", "a/*", "a/* b/*",
];

/// the Files field for a pattern list in one of the layouts people write
fn files_field(pats: &[&str], layout: usize) -> String {
    match layout % 7 {
        0 => format!("Files: {}\n", pats.join(" ")),
        1 => format!("Files: {}\n", pats.join("\n ")),
        2 => format!("Files:\n {}\n", pats.join("\n ")),
        3 => {
            // first two on one line, the rest on their own lines
            if pats.len() >= 2 {
                format!("Files: {} {}\n", pats[0], pats[1..].join("\n "))
            } else {
                format!("Files: {}\n", pats[0])
            }
        }
        4 => format!("Files: {}\n", pats.join("\t")),
        5 => format!("Files: {}\n", pats.join("  ")),
        _ => format!("Files: {} \n", pats.join(" \n ")),
    }
}

const INLINE_LIC: [&str; 9] = [
    "MIT", "GPL", "BSD", "MIT\n inline mit text", "GPL\n inline gpl\n .\n more",
    // names with white space at the end / inside / a tab: compared byte for byte with the stand-alone names
    "GPL-2+ ", "GPL-2+ with exception", "GPL-2+\t", "GPL-2+",
];
const STANDALONE: [&str; 12] = [
    "License: MIT\n mit text\n",
    "License: MIT\n",
    "License: GPL\n gpl text\n",
    "License: GPL\n other gpl text\n",
    "License: MIT\n second mit text\n",
    "License: BSD\nComment: c\n",
    "License: BSD\n bsd\nComment: c\n",
    "License: GPL-2+ \n trailing blank text\n",
    "License: GPL-2+\n plain text\n",
    "License:  GPL-2+ with exception\n exception text\n",
    "License: GPL-2+\t\n tab text\n",
    "License: GPL-2+ \n",
];

fn files_para(pats: &[&str], layout: usize, lic: &str, id: usize) -> String {
    format!("{}Copyright: 20{:02} holder\nLicense: {}\n", files_field(pats, layout), id, lic)
}

fn gen_files(thorough: bool, rng: &mut Rng, out: &mut Out) {
    let good_header = "Format: https://www.debian.org/doc/packaging-manuals/copyright-format/1.0/\nUpstream-Name: x\n";
    // ---- systematic: every sequence of blocks up to length 3 (quick) / 4 (thorough)
    let blocks: Vec<String> = vec![
        files_para(&["*"], 0, "MIT", 0),
        files_para(&["a/*", "b/*"], 0, "GPL", 1),
        files_para(&["a/*", "b/*"], 1, "MIT\n inline", 2),
        files_para(&["a/b"], 0, "GPL", 3),
        STANDALONE[0].to_string(),
        STANDALONE[1].to_string(),
        STANDALONE[2].to_string(),
        STANDALONE[4].to_string(),
    ];
    // licence names with white space at the end: the reference by name is byte for byte
    let wblocks: Vec<String> = vec![
        files_para(&["*"], 0, "MIT\n inline", 0),
        files_para(&["a/*"], 0, "GPL-2+ ", 1),
        files_para(&["a/b"], 0, "GPL-2+", 2),
        STANDALONE[7].to_string(),
        STANDALONE[8].to_string(),
        STANDALONE[10].to_string(),
    ];
    for seq in lists_upto(&wblocks, 3) {
        let mut t = String::from(good_header);
        for b in &seq {
            t.push('\n');
            t.push_str(b);
        }
        for p in ["a/b", "a/x", "x"] {
            find_req(out, &t, p);
        }
    }
    // the stored copyright holders (observable `cpr=`): empty field (lossy `[]`, lossless `[""]`:
    // deserialize_copyrights, lossy.rs:163-169), one holder, several lines, with a Comment
    let cblocks: Vec<String> = vec![
        "Files: *\nCopyright:\nLicense: MIT\n".to_string(),
        "Files: a/*\nCopyright: h1\n h2\nLicense: GPL\nComment: c\n".to_string(),
        "Files: a/b\nCopyright:\nLicense: GPL\n text\nComment: x\n  y\n".to_string(),
        "Files: a/?\nCopyright: 2020, comment: None }\nLicense: MIT\n".to_string(),
        STANDALONE[0].to_string(),
    ];
    for seq in lists_upto(&cblocks, 3) {
        let mut t = String::from(good_header);
        for b in &seq {
            t.push('\n');
            t.push_str(b);
        }
        for p in ["a/b", "a/xy", "x"] {
            find_req(out, &t, p);
        }
    }
    let spaths = ["a/b", "b/y", "x", "a/x b/y", "a/* b/*", ""];
    for seq in lists_upto(&blocks, if thorough { 4 } else { 3 }) {
        let mut t = String::from(good_header);
        for b in &seq {
            t.push('\n');
            t.push_str(b);
        }
        for p in &spaths {
            find_req(out, &t, p);
        }
    }
    // ---- headers that carry a License field (legal DEP-5: the licence of the package as a whole),
    // and, beyond DEP-5, a Files field: the header is set aside by both views (F-C17-3, b19e977).
    // Every sequence of blocks up to length 2 (quick) / 3 (thorough) after each such header.
    let lic_headers = [
        "License: MIT\n",
        "License: MIT\n header mit text\n",
        "License: GPL\n header gpl text\n",
        "Copyright: h\nLicense: GPL\nComment: whole package\n",
        "Files: *\nCopyright: h\nLicense: MIT\n header with files\n",
        "Files: a/b\nCopyright: h\nLicense: GPL\n",
        "Files: *\n",
    ];
    for hl in &lic_headers {
        for seq in lists_upto(&blocks, if thorough { 3 } else { 2 }) {
            let mut t = format!("{}{}", good_header, hl);
            for b in &seq {
                t.push('\n');
                t.push_str(b);
            }
            for p in &spaths {
                find_req(out, &t, p);
            }
        }
    }
    // the same with the white-space names (the header's name is compared with nothing at all)
    for hl in ["License: GPL-2+\n header text\n", "License: GPL-2+ \n header text\n", "License: GPL-2+\n"] {
        for seq in lists_upto(&wblocks, 2) {
            let mut t = format!("{}{}", good_header, hl);
            for b in &seq {
                t.push('\n');
                t.push_str(b);
            }
            for p in ["a/b", "a/x", "x"] {
                find_req(out, &t, p);
            }
        }
    }
    // ---- the gate: missing / misplaced / misspelt Format, around one fixed body
    let body = format!("\n{}\n{}", files_para(&["*"], 0, "MIT", 0), STANDALONE[0]);
    let headers = [
        "Format: x\n",
        "Format:x\n",
        "Format:\n",
        "Format:",
        "Format",
        "Format : x\n",
        "format: x\n",
        "FORMAT: x\n",
        "Format-Specification: x\n",
        "Formatx: y\n",
        "\nFormat: x\n",
        " Format: x\n",
        "# comment\nFormat: x\n",
        "\u{feff}Format: x\n",
        "Source: y\nFormat: x\n",
        "Source: y\n",
        "This package was debianized by hand.\n",
        "",
        "Format: x\nLicense: MIT\n header licence text\n",
        "Format: x\nFiles: *\nCopyright: c\nLicense: GPL\n",
        "Format: x\nFiles-Excluded: a\n b\nSource: s\nUpstream-Contact: u\n",
        "Format: x\nFormat: y\n",
        "Format: x\r\n",
    ];
    for h in &headers {
        for tail in [body.as_str(), "", "\n"] {
            for p in ["a/b", ""] {
                find_req(out, &format!("{}{}", h, tail), p);
            }
        }
    }
    // the body with Format only in a later paragraph
    find_req(out, &format!("{}\nFormat: x\n", &body[1..]), "a/b");
    // ---- seeded random files
    let n = if thorough { 200_000 } else { 20_000 };
    for _ in 0..n {
        let nfiles = rng.below(5);
        let nlic = rng.below(4);
        let mut blocks: Vec<String> = vec![];
        let mut used: Vec<&str> = vec![];
        let mut file_lics: Vec<&str> = vec![];
        let mut body_lics: Vec<&str> = vec![];
        for id in 0..nfiles {
            let np = 1 + rng.below(3);
            let pats: Vec<&str> = (0..np).map(|_| *rng.pick(&PATS)).collect();
            used.extend(pats.iter().copied());
            let layout = if rng.chance(40) { 1 + rng.below(2) } else { rng.below(7) };
            let lic = *rng.pick(&INLINE_LIC);
            file_lics.push(lic);
            let mut b = files_para(&pats, layout, lic, id);
            // the folded layout: `License:` alone on its line, the name on a continuation line
            // (also `Copyright:` and, through files_field, `Files:`) — after seeded change C17-r7m1
            if rng.chance(15) {
                b = b.replace("License: ", "License:\n ");
            }
            if rng.chance(8) {
                b = b.replace("Copyright: ", "Copyright:\n  ");
            }
            match rng.below(40) {
                0 => b = b.replace("Copyright: ", "Copyrights: "),
                1 => b = format!("{}Comment: c{}\n", b, id),
                2 => b = files_para(&[], 0, "MIT", id),
                3 => b = b.replace("License: ", "Licence: "),
                4 => b = b.replace(&format!("Copyright: 20{:02} holder\n", id), "Copyright:\n"),
                5 => b = b.replace(" holder\n", " holder\n second holder\n"),
                _ => {}
            }
            blocks.push(b);
        }
        for _ in 0..nlic {
            let b = *rng.pick(&STANDALONE);
            body_lics.push(b);
            blocks.push(b.to_string());
        }
        // the header: 1 in 20 one of the gate variants; otherwise the good header, nearly half of
        // the time with a License field of its own — the name a Files paragraph refers to, the name
        // of a later stand-alone paragraph, with or without a text of its own — and now and then
        // with a Files field as well (the header is still only the header)
        let first_line = |v: &str| v.split('\n').next().unwrap_or("").to_string();
        let mut t = String::new();
        if rng.below(20) == 0 {
            t.push_str(*rng.pick(&headers));
        } else {
            t.push_str(good_header);
            let referred = if file_lics.is_empty() { "MIT".to_string() } else { first_line(*rng.pick(&file_lics)) };
            let later = if body_lics.is_empty() {
                "License: GPL".to_string()
            } else {
                first_line(*rng.pick(&body_lics))
            };
            match rng.below(20) {
                0 | 1 => t.push_str(&format!("License: {}\n", referred)),
                2 | 3 | 4 => t.push_str(&format!("License: {}\n header text\n", referred)),
                5 => t.push_str(&format!("{}\n", later)),
                6 | 7 => t.push_str(&format!("{}\n header text of a later name\n", later)),
                8 => t.push_str(*rng.pick(&STANDALONE)),
                9 => t.push_str(&format!("Copyright: whole\nLicense: {}\n", *rng.pick(&INLINE_LIC))),
                10 => t.push_str(&format!(
                    "Files: {}\nCopyright: h\nLicense: {}\n header files text\n",
                    *rng.pick(&PATS),
                    referred
                )),
                _ => {}
            }
        }
        // any interleaving of Files and licence paragraphs; Files paragraphs keep their order half
        // of the time (ids then increase), otherwise fully shuffled
        for i in (1..blocks.len()).rev() {
            let j = rng.below(i + 1);
            blocks.swap(i, j);
        }
        match rng.below(60) {
            0 => blocks.push("Comment: neither files nor licence\n".to_string()),
            1 => blocks.push("broken line without colon\n".to_string()),
            _ => {}
        }
        for b in &blocks {
            t.push('\n');
            if rng.chance(3) {
                t.push('\n');
            }
            t.push_str(b);
        }
        let path = if rng.chance(40) || used.is_empty() {
            rng.pick(&PATHS).to_string()
        } else {
            // a path instantiated from one of the file's own patterns
            derived_paths(*rng.pick(&used), rng).swap_remove(rng.below(5))
        };
        find_req(out, &t, &path);
    }
}

pub fn generate_c17(tier: &str, seed: u64, out: &mut Out) {
    let thorough = tier == "thorough";
    let mut rng = Rng::new(seed ^ 0xC17);
    gen_files(thorough, &mut rng, out);
    gen_globs(thorough, &mut rng, out);
}
