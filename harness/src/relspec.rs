//! The relationship-field grammar of C10 as data (mirror of lean/Deb822Verif/Spec/RelGrammar.lean):
//! structured fields with explicit layout, their rendering, the structure a reader must expose,
//! well-formedness, the trigger predicates of the open findings, and generators.
use crate::util::*;

#[derive(Clone, Debug, PartialEq)]
pub struct VersionA {
    pub epoch: Option<String>,
    pub body: String,
}
#[derive(Clone, Debug, PartialEq)]
pub struct VerPart {
    pub pre: String,
    pub g2: String,
    pub op: &'static str, // ge le eq gt lt
    pub g3: String,
    pub ver: VersionA,
    pub g4: String,
}
#[derive(Clone, Debug, PartialEq)]
pub struct Item {
    pub gap: String,
    pub neg: bool,
    pub name: String,
}
#[derive(Clone, Debug, PartialEq)]
pub struct Bracket {
    pub pre: String,
    pub items: Vec<Item>,
    pub post: String,
}
#[derive(Clone, Debug, PartialEq)]
pub struct RelA {
    pub name: String,
    pub archqual: Option<String>,
    pub version: Option<VerPart>,
    pub archs: Option<Bracket>,
    pub profiles: Vec<Bracket>,
}
#[derive(Clone, Debug, PartialEq)]
pub struct AltA {
    pub gb: String,
    pub ga: String,
    pub rel: RelA,
}
#[derive(Clone, Debug, PartialEq)]
pub enum EntryA {
    Alts(RelA, Vec<AltA>),
    Substvar(String, Vec<String>),
    Empty,
}
#[derive(Clone, Debug, PartialEq)]
pub struct Seg {
    pub pre: String,
    pub entry: EntryA,
    pub post: String,
}
#[derive(Clone, Debug, PartialEq)]
pub struct FieldA {
    pub segs: Vec<Seg>,
}

pub fn op_text(op: &str) -> &'static str {
    match op {
        "ge" => ">=",
        "le" => "<=",
        "eq" => "=",
        "gt" => ">>",
        _ => "<<",
    }
}
fn op_static(op: &str) -> Option<&'static str> {
    ["ge", "le", "eq", "gt", "lt"].iter().find(|o| **o == op).copied()
}

// ------------------------------------------------------------------ encoding

fn eo(o: &Option<String>) -> String {
    eopt(o.as_deref())
}
fn dopt(h: &str) -> Option<Option<String>> {
    if h == "none" {
        Some(None)
    } else {
        Some(Some(ds(h)?))
    }
}

impl Item {
    fn enc(&self) -> String {
        format!("{}.{}.{}", es(&self.gap), ebool(self.neg), es(&self.name))
    }
    fn dec(h: &str) -> Option<Item> {
        let p: Vec<&str> = h.split('.').collect();
        match p.as_slice() {
            [g, n, nm] => Some(Item { gap: ds(g)?, neg: *n == "1", name: ds(nm)? }),
            _ => None,
        }
    }
}
impl Bracket {
    fn enc(&self) -> String {
        let mut v = vec![es(&self.pre), es(&self.post)];
        v.extend(self.items.iter().map(|i| i.enc()));
        v.join("+")
    }
    fn dec(h: &str) -> Option<Bracket> {
        let p: Vec<&str> = h.split('+').collect();
        if p.len() < 2 {
            return None;
        }
        Some(Bracket {
            pre: ds(p[0])?,
            post: ds(p[1])?,
            items: p[2..].iter().map(|i| Item::dec(i)).collect::<Option<Vec<_>>>()?,
        })
    }
}
impl VerPart {
    fn enc(&self) -> String {
        format!(
            "{},{},{},{},{},{},{}",
            es(&self.pre),
            es(&self.g2),
            self.op,
            es(&self.g3),
            eo(&self.ver.epoch),
            es(&self.ver.body),
            es(&self.g4)
        )
    }
    fn dec(h: &str) -> Option<VerPart> {
        let p: Vec<&str> = h.split(',').collect();
        match p.as_slice() {
            [pre, g2, op, g3, ep, body, g4] => Some(VerPart {
                pre: ds(pre)?,
                g2: ds(g2)?,
                op: op_static(op)?,
                g3: ds(g3)?,
                ver: VersionA { epoch: dopt(ep)?, body: ds(body)? },
                g4: ds(g4)?,
            }),
            _ => None,
        }
    }
}
impl RelA {
    fn enc(&self) -> String {
        format!(
            "{}:{}:{}:{}:{}",
            es(&self.name),
            eo(&self.archqual),
            self.version.as_ref().map(|v| v.enc()).unwrap_or_else(|| "none".to_string()),
            self.archs.as_ref().map(|a| a.enc()).unwrap_or_else(|| "none".to_string()),
            self.profiles.iter().map(|p| p.enc()).collect::<Vec<_>>().join("&")
        )
    }
    fn dec(h: &str) -> Option<RelA> {
        let p: Vec<&str> = h.split(':').collect();
        match p.as_slice() {
            [nm, aq, ver, archs, profs] => Some(RelA {
                name: ds(nm)?,
                archqual: dopt(aq)?,
                version: if *ver == "none" { None } else { Some(VerPart::dec(ver)?) },
                archs: if *archs == "none" { None } else { Some(Bracket::dec(archs)?) },
                profiles: if profs.is_empty() {
                    vec![]
                } else {
                    profs.split('&').map(Bracket::dec).collect::<Option<Vec<_>>>()?
                },
            }),
            _ => None,
        }
    }
}
impl AltA {
    fn enc(&self) -> String {
        format!("{}~{}~{}", es(&self.gb), es(&self.ga), self.rel.enc())
    }
    fn dec(h: &str) -> Option<AltA> {
        let p: Vec<&str> = h.split('~').collect();
        match p.as_slice() {
            [gb, ga, r] => Some(AltA { gb: ds(gb)?, ga: ds(ga)?, rel: RelA::dec(r)? }),
            _ => None,
        }
    }
}
impl EntryA {
    fn enc(&self) -> String {
        match self {
            EntryA::Empty => "E".to_string(),
            EntryA::Substvar(p, ps) => {
                let mut v = vec![es(p)];
                v.extend(ps.iter().map(|q| es(q)));
                format!("S{}", v.join("."))
            }
            EntryA::Alts(r, rest) => {
                let mut v = vec![AltA { gb: String::new(), ga: String::new(), rel: r.clone() }.enc()];
                v.extend(rest.iter().map(|a| a.enc()));
                format!("A{}", v.join("|"))
            }
        }
    }
    fn dec(h: &str) -> Option<EntryA> {
        if h == "E" {
            return Some(EntryA::Empty);
        }
        if let Some(r) = h.strip_prefix('S') {
            let ps = r.split('.').map(ds).collect::<Option<Vec<_>>>()?;
            return Some(EntryA::Substvar(ps[0].clone(), ps[1..].to_vec()));
        }
        if let Some(r) = h.strip_prefix('A') {
            let alts = r.split('|').map(AltA::dec).collect::<Option<Vec<_>>>()?;
            return Some(EntryA::Alts(alts[0].rel.clone(), alts[1..].to_vec()));
        }
        None
    }
}
impl FieldA {
    pub fn enc(&self) -> String {
        if self.segs.is_empty() {
            return "-".to_string();
        }
        self.segs
            .iter()
            .map(|s| format!("{}/{}/{}", es(&s.pre), s.entry.enc(), es(&s.post)))
            .collect::<Vec<_>>()
            .join(";")
    }
    pub fn dec(h: &str) -> Option<FieldA> {
        if h == "-" {
            return Some(FieldA { segs: vec![] });
        }
        let segs = h
            .split(';')
            .map(|s| {
                let p: Vec<&str> = s.split('/').collect();
                match p.as_slice() {
                    [pre, e, post] => Some(Seg { pre: ds(pre)?, entry: EntryA::dec(e)?, post: ds(post)? }),
                    _ => None,
                }
            })
            .collect::<Option<Vec<_>>>()?;
        Some(FieldA { segs })
    }
}

// ------------------------------------------------------------------ text

impl VersionA {
    pub fn text(&self) -> String {
        match &self.epoch {
            Some(e) => format!("{}:{}", e, self.body),
            None => self.body.clone(),
        }
    }
}
impl Item {
    pub fn text(&self) -> String {
        format!("{}{}", if self.neg { "!" } else { "" }, self.name)
    }
}
impl Bracket {
    fn text(&self, o: char, c: char) -> String {
        let mut s = format!("{}{}", self.pre, o);
        for i in &self.items {
            s.push_str(&i.gap);
            s.push_str(&i.text());
        }
        s.push_str(&self.post);
        s.push(c);
        s
    }
}
impl RelA {
    pub fn text(&self) -> String {
        let mut s = self.name.clone();
        if let Some(a) = &self.archqual {
            s.push(':');
            s.push_str(a);
        }
        if let Some(v) = &self.version {
            s.push_str(&format!("{}({}{}{}{}{})", v.pre, v.g2, op_text(v.op), v.g3, v.ver.text(), v.g4));
        }
        if let Some(a) = &self.archs {
            s.push_str(&a.text('[', ']'));
        }
        for p in &self.profiles {
            s.push_str(&p.text('<', '>'));
        }
        s
    }
}
impl EntryA {
    pub fn text(&self) -> String {
        match self {
            EntryA::Empty => String::new(),
            EntryA::Substvar(p, ps) => {
                let mut s = format!("${{{}", p);
                for q in ps {
                    s.push(':');
                    s.push_str(q);
                }
                s.push('}');
                s
            }
            EntryA::Alts(r, rest) => {
                let mut s = r.text();
                for a in rest {
                    s.push_str(&format!("{}|{}{}", a.gb, a.ga, a.rel.text()));
                }
                s
            }
        }
    }
    pub fn rels(&self) -> Vec<&RelA> {
        match self {
            EntryA::Alts(r, rest) => std::iter::once(r).chain(rest.iter().map(|a| &a.rel)).collect(),
            _ => vec![],
        }
    }
}
impl FieldA {
    pub fn text(&self) -> String {
        self.segs
            .iter()
            .map(|s| format!("{}{}{}", s.pre, s.entry.text(), s.post))
            .collect::<Vec<_>>()
            .join(",")
    }
    pub fn rels(&self) -> Vec<&RelA> {
        self.segs.iter().flat_map(|s| s.entry.rels()).collect()
    }
}

// ------------------------------------------------------------------ what was written (view)

/// `debversion::Version` that was written, in the format of `rel.rs::enc_version`
fn version_view(v: &VersionA) -> String {
    let (up, rev) = split_rev(&v.body);
    let ep: Option<u64> = v.epoch.as_ref().map(|e| e.parse::<u64>().unwrap_or(u64::MAX));
    let disp = match ep {
        Some(e) => format!("{}:{}", e, v.body),
        None => v.body.clone(),
    };
    format!(
        "{}:{}:{}:{}",
        ep.map(|e| e.to_string()).unwrap_or_else(|| "none".to_string()),
        es(&up),
        eopt(rev.as_deref()),
        es(&disp)
    )
}

impl RelA {
    /// same format as `rel.rs::view_rel`
    pub fn view(&self) -> String {
        let ver = match &self.version {
            None => "none".to_string(),
            Some(v) => format!("{}:{}", op_text(v.op), version_view(&v.ver)),
        };
        let arch = match &self.archs {
            None => "none".to_string(),
            Some(a) => format!("[{}]", elist(&a.items.iter().map(|i| i.text()).collect::<Vec<_>>())),
        };
        let prof = self
            .profiles
            .iter()
            .map(|g| {
                format!(
                    "<{}>",
                    g.items
                        .iter()
                        .map(|i| format!("{}{}", if i.neg { "D" } else { "E" }, es(&i.name)))
                        .collect::<Vec<_>>()
                        .join(",")
                )
            })
            .collect::<Vec<_>>()
            .join("/");
        format!("name={};aq={};ver={};arch={};prof={}", es(&self.name), eo(&self.archqual), ver, arch, prof)
    }
}
impl FieldA {
    /// `E[{rel|rel}{rel}]`
    pub fn view_entries(&self) -> String {
        let mut s = String::from("E[");
        for seg in &self.segs {
            let rs = seg.entry.rels();
            if !rs.is_empty() {
                s.push('{');
                s.push_str(&rs.iter().map(|r| r.view()).collect::<Vec<_>>().join("|"));
                s.push('}');
            }
        }
        s.push(']');
        s
    }
    pub fn view_substvars(&self) -> String {
        let v: Vec<String> = self
            .segs
            .iter()
            .filter_map(|s| match &s.entry {
                EntryA::Substvar(..) => Some(s.entry.text()),
                _ => None,
            })
            .collect();
        format!("S[{}]", elist(&v))
    }
}

// ------------------------------------------------------------------ well-formedness, triggers

fn gap_ok(g: &str) -> bool {
    g.chars().all(|c| c == ' ' || c == '\t' || c == '\r' || c == '\n')
}
fn is_ident(s: &str) -> bool {
    !s.is_empty() && s.chars().all(|c| c.is_ascii_alphanumeric() || c == '-' || c == '.' || c == '+' || c == '~')
}
/// `[A-Za-z0-9+.~]+`: what a Debian revision may be
fn is_rev(s: &str) -> bool {
    !s.is_empty() && s.chars().all(|c| c.is_ascii_alphanumeric() || c == '+' || c == '.' || c == '~')
}
/// mirror of `RelSpec.splitRev`: split at the last hyphen when both sides are non-empty and the right
/// side can be a revision (a ':' of a body with an epoch cannot)
pub fn split_rev(body: &str) -> (String, Option<String>) {
    match body.rfind('-') {
        Some(i) if i >= 1 && is_rev(&body[i + 1..]) => (body[..i].to_string(), Some(body[i + 1..].to_string())),
        _ => (body.to_string(), None),
    }
}
/// mirror of the body part of `RelSpec.VersionA.ok`: an identifier; with an epoch, identifiers joined by ':'
pub fn body_ok(has_epoch: bool, body: &str) -> bool {
    if has_epoch {
        body.split(':').all(is_ident)
    } else {
        is_ident(body)
    }
}
fn bracket_ok(b: &Bracket) -> bool {
    gap_ok(&b.pre)
        && gap_ok(&b.post)
        && b.items.iter().all(|i| gap_ok(&i.gap) && is_ident(&i.name))
        && b.items.iter().skip(1).all(|i| !i.gap.is_empty())
}
fn rel_ok(r: &RelA) -> bool {
    is_ident(&r.name)
        && r.archqual.as_ref().map_or(true, |a| is_ident(a))
        && r.version.as_ref().map_or(true, |v| {
            gap_ok(&v.pre)
                && gap_ok(&v.g2)
                && gap_ok(&v.g3)
                && gap_ok(&v.g4)
                && body_ok(v.ver.epoch.is_some(), &v.ver.body)
                && v.ver.epoch.as_ref().map_or(true, |e| {
                    !e.is_empty()
                        && e.chars().all(|c| c.is_ascii_digit())
                        && e.trim_start_matches('0').len() <= 10
                        && e.parse::<u64>().map_or(false, |n| n < 4294967296)
                })
        })
        && r.archs.as_ref().map_or(true, bracket_ok)
        && r.profiles.iter().all(bracket_ok)
}
impl FieldA {
    pub fn wf(&self) -> bool {
        self.segs.iter().all(|s| {
            gap_ok(&s.pre)
                && gap_ok(&s.post)
                && match &s.entry {
                    EntryA::Empty => s.post.is_empty(),
                    EntryA::Substvar(p, ps) => is_ident(p) && ps.iter().all(|q| is_ident(q)),
                    EntryA::Alts(r, rest) => {
                        rel_ok(r) && rest.iter().all(|a| gap_ok(&a.gb) && gap_ok(&a.ga) && rel_ok(&a.rel))
                    }
                }
        })
    }
    pub fn has_substvar(&self) -> bool {
        self.segs.iter().any(|s| matches!(s.entry, EntryA::Substvar(..)))
    }
    pub fn has_negated_arch(&self) -> bool {
        self.rels().iter().any(|r| r.archs.as_ref().map_or(false, |a| a.items.iter().any(|i| i.neg)))
    }
    pub fn has_close_gap(&self) -> bool {
        self.rels().iter().any(|r| r.version.as_ref().map_or(false, |v| !v.g4.is_empty()))
    }
    pub fn has_multi_term_group(&self) -> bool {
        self.rels().iter().any(|r| r.profiles.iter().any(|g| g.items.len() > 1))
    }
    pub fn has_profile_edge_gap(&self) -> bool {
        self.rels().iter().any(|r| {
            r.profiles.iter().any(|g| !g.post.is_empty() || g.items.first().map_or(false, |i| !i.gap.is_empty()))
        })
    }
    pub fn has_inner_newline(&self) -> bool {
        self.rels().iter().any(|r| {
            let mut gaps: Vec<&String> = vec![];
            if let Some(v) = &r.version {
                gaps.extend([&v.pre, &v.g2, &v.g3, &v.g4]);
            }
            for b in r.archs.iter().chain(r.profiles.iter()) {
                gaps.push(&b.pre);
                gaps.push(&b.post);
                gaps.extend(b.items.iter().map(|i| &i.gap));
            }
            gaps.iter().any(|g| g.contains('\n'))
        })
    }
    /// inside the trigger region of some open finding
    pub fn triggered(&self) -> bool {
        self.has_negated_arch()
            || self.has_close_gap()
            || (!self.has_substvar()
                && (self.has_multi_term_group() || self.has_profile_edge_gap() || self.has_inner_newline()))
    }
}

// ------------------------------------------------------------------ generators

/// how gaps are chosen
#[derive(Clone, Copy, PartialEq, Debug)]
pub enum Layout {
    /// as `wrap-and-sort` / the lossy printer would write: `a (>= 1) [b c] <d>, e | f`
    Canonical,
    /// no optional whitespace at all
    Minimal,
    /// random spaces and tabs (and CRs) everywhere it is allowed
    Spaces,
    /// like Spaces, with newlines around `,` and `|` (continuation lines of a folded field)
    Folded,
}

pub struct Policy {
    pub layout: Layout,
    /// may use the constructs of the open findings (negated architectures, multi-term profile
    /// groups, whitespace inside `<>` edges / before `)`, newlines inside a relation)
    pub wild: bool,
}

const NAMES: [&str; 10] = ["a", "libc6", "python3-foo", "g++", "x.y~1", "0ad", "lib-a+b", "Z", "42", "7"];
const ARCHS: [&str; 6] = ["amd64", "i386", "any", "linux-any", "hurd-i386", "all"];
const BODIES: [&str; 9] = ["1", "2.3-4", "2.0~rc1+b2", "0", "1-2-3", "-1", "1-", "a-b.c", "1.2~~"];
const COLON_BODIES: [&str; 6] = ["2:3", "2:3-4", "2-3:4", "1:2:3~rc1", "a:b-1", "0:0"];
const EPOCHS: [&str; 5] = ["1", "0", "2", "01", "4294967295"];
const OPS: [&str; 5] = ["ge", "le", "eq", "gt", "lt"];
const PROFS: [&str; 5] = ["nocheck", "cross", "stage1", "pkg.foo.bar", "nodoc"];
const SVARS: [&[&str]; 5] = [&["misc", "Depends"], &["shlibs", "Depends"], &["a"], &["python3", "Depends"], &["x", "y", "z"]];

fn ws(rng: &mut Rng) -> String {
    rng.pick(&[" ", "  ", "\t", " \t", "\r", "   "]).to_string()
}

impl Policy {
    /// optional gap inside a relation; `dflt` = what the canonical layout puts there
    fn inner(&self, rng: &mut Rng, dflt: &str) -> String {
        match self.layout {
            Layout::Canonical => dflt.to_string(),
            Layout::Minimal => String::new(),
            Layout::Spaces | Layout::Folded => {
                if self.wild && rng.chance(12) {
                    rng.pick(&["\n", "\n ", " \n", "\r\n "]).to_string()
                } else if rng.chance(60) {
                    ws(rng)
                } else {
                    String::new()
                }
            }
        }
    }
    /// required gap between terms
    fn between(&self, rng: &mut Rng) -> String {
        match self.layout {
            Layout::Canonical | Layout::Minimal => " ".to_string(),
            _ => {
                if self.wild && rng.chance(10) {
                    // a line break between two terms, with and without indentation behind it
                    rng.pick(&["\n ", "\n", " \n", "\n\t"]).to_string()
                } else {
                    ws(rng)
                }
            }
        }
    }
    /// gap around `,` and `|`
    fn outer(&self, rng: &mut Rng, dflt: &str) -> String {
        match self.layout {
            Layout::Canonical => dflt.to_string(),
            Layout::Minimal => String::new(),
            Layout::Spaces => {
                if rng.chance(60) {
                    ws(rng)
                } else {
                    String::new()
                }
            }
            Layout::Folded => rng.pick(&["\n", "\n ", " ", "", "\n\t", " \n ", "\r\n ", "\n\n"]).to_string(),
        }
    }
}

pub struct Parts {
    pub archqual: bool,
    pub version: bool,
    pub epoch: bool,
    pub archs: usize,
    pub groups: usize,
}

pub fn make_rel(rng: &mut Rng, pol: &Policy, parts: &Parts) -> RelA {
    let name = rng.pick(&NAMES).to_string();
    let archqual = if parts.archqual { Some(rng.pick(&ARCHS).to_string()) } else { None };
    let version = if parts.version {
        Some(VerPart {
            pre: pol.inner(rng, " "),
            g2: pol.inner(rng, ""),
            op: *rng.pick(&OPS),
            g3: pol.inner(rng, " "),
            ver: VersionA {
                epoch: if parts.epoch { Some(rng.pick(&EPOCHS).to_string()) } else { None },
                // with an epoch the upstream part may contain colons (Policy 5.6.12)
                body: if parts.epoch && rng.chance(25) { rng.pick(&COLON_BODIES).to_string() } else { rng.pick(&BODIES).to_string() },
            },
            g4: if pol.wild && pol.layout != Layout::Canonical && pol.layout != Layout::Minimal && rng.chance(15) {
                ws(rng)
            } else {
                String::new()
            },
        })
    } else {
        None
    };
    let edge = |rng: &mut Rng, pol: &Policy, arch: bool| -> String {
        // whitespace right after the opening bracket / before the closing one
        match pol.layout {
            Layout::Canonical | Layout::Minimal => String::new(),
            _ => {
                if (arch || pol.wild) && rng.chance(20) {
                    ws(rng)
                } else {
                    String::new()
                }
            }
        }
    };
    let archs = if parts.archs > 0 {
        let mut items = vec![];
        for i in 0..parts.archs {
            items.push(Item {
                gap: if i == 0 { edge(rng, pol, true) } else { pol.between(rng) },
                neg: pol.wild && rng.chance(35),
                name: rng.pick(&ARCHS).to_string(),
            });
        }
        Some(Bracket { pre: pol.inner(rng, " "), items, post: edge(rng, pol, true) })
    } else {
        None
    };
    let mut profiles = vec![];
    for _ in 0..parts.groups {
        let n = if pol.wild && rng.chance(40) { 2 + rng.below(2) } else { 1 };
        let mut items = vec![];
        for i in 0..n {
            items.push(Item {
                gap: if i == 0 { edge(rng, pol, false) } else { pol.between(rng) },
                neg: rng.chance(50),
                name: rng.pick(&PROFS).to_string(),
            });
        }
        profiles.push(Bracket { pre: pol.inner(rng, " "), items, post: edge(rng, pol, false) });
    }
    RelA { name, archqual, version, archs, profiles }
}

pub fn random_parts(rng: &mut Rng) -> Parts {
    Parts {
        archqual: rng.chance(30),
        version: rng.chance(55),
        epoch: rng.chance(30),
        archs: if rng.chance(35) { 1 + rng.below(3) } else { 0 },
        groups: if rng.chance(35) { 1 + rng.below(2) } else { 0 },
    }
}

pub fn random_field(rng: &mut Rng, pol: &Policy, substvars: bool) -> FieldA {
    let n = rng.below(6);
    let mut segs = vec![];
    for i in 0..n {
        let pre = if i == 0 {
            if rng.chance(15) {
                pol.outer(rng, "")
            } else {
                String::new()
            }
        } else {
            pol.outer(rng, " ")
        };
        let entry = if rng.chance(6) {
            EntryA::Empty
        } else if substvars && rng.chance(20) {
            let p = rng.pick(&SVARS);
            EntryA::Substvar(p[0].to_string(), p[1..].iter().map(|s| s.to_string()).collect())
        } else {
            let parts = random_parts(rng);
            let first = make_rel(rng, pol, &parts);
            let mut rest = vec![];
            for _ in 0..rng.below(3) {
                let gb = pol.outer(rng, " ");
                let ga = pol.outer(rng, " ");
                let parts = random_parts(rng);
                rest.push(AltA { gb, ga, rel: make_rel(rng, pol, &parts) });
            }
            EntryA::Alts(first, rest)
        };
        let post = if entry == EntryA::Empty { String::new() } else { pol.outer(rng, "") };
        segs.push(Seg { pre, entry, post });
    }
    if !segs.is_empty() && rng.chance(20) {
        // trailing comma
        segs.push(Seg { pre: if rng.chance(50) { pol.outer(rng, "") } else { String::new() }, entry: EntryA::Empty, post: String::new() });
    }
    FieldA { segs }
}

/// one relation with the given optional parts, in every context that decides where its trailing
/// whitespace goes: alone, before `,`, before `|`, with and without trailing whitespace
pub fn contexts(rng: &mut Rng, pol: &Policy, r: &RelA) -> Vec<FieldA> {
    let other = || RelA { name: "z".to_string(), archqual: None, version: None, archs: None, profiles: vec![] };
    let mut out = vec![];
    for tail in ["", " ", "\n "] {
        if pol.layout == Layout::Minimal && !tail.is_empty() {
            continue;
        }
        let seg = |e: EntryA, post: &str| Seg { pre: String::new(), entry: e, post: post.to_string() };
        // alone
        out.push(FieldA { segs: vec![seg(EntryA::Alts(r.clone(), vec![]), tail)] });
        // before a comma (another entry / trailing comma)
        out.push(FieldA {
            segs: vec![
                seg(EntryA::Alts(r.clone(), vec![]), tail),
                Seg { pre: pol.outer(rng, " "), entry: EntryA::Alts(other(), vec![]), post: String::new() },
            ],
        });
        out.push(FieldA {
            segs: vec![seg(EntryA::Alts(r.clone(), vec![]), tail), seg(EntryA::Empty, "")],
        });
        // before a pipe, and after one
        out.push(FieldA {
            segs: vec![seg(
                EntryA::Alts(r.clone(), vec![AltA { gb: tail.to_string(), ga: pol.outer(rng, " "), rel: other() }]),
                "",
            )],
        });
        out.push(FieldA {
            segs: vec![seg(
                EntryA::Alts(other(), vec![AltA { gb: pol.outer(rng, " "), ga: pol.outer(rng, " "), rel: r.clone() }]),
                tail,
            )],
        });
    }
    out
}
