//! C19: debian_control::pgp::strip_pgp_signature
use crate::util::*;
use crate::Resp;
use debian_control::pgp::{strip_pgp_signature, Error};

const BEGIN_MSG: &str = "-----BEGIN PGP SIGNED MESSAGE-----";
const BEGIN_SIG: &str = "-----BEGIN PGP SIGNATURE-----";
const END_SIG: &str = "-----END PGP SIGNATURE-----";

fn show(r: &Result<(String, Option<String>), Error>) -> String {
    match r {
        Ok((p, s)) => format!("ok {} {}", es(p), eopt(s.as_deref())),
        Err(e) => format!("err {:?}", e),
    }
}

fn line_ok(l: &str) -> bool {
    !l.contains('\n') && !l.ends_with('\r')
}

/// the unwrapping is a function of its input: the same call after calls that ended in each of the
/// errors (and after a successful one) must give the same answer (after seeded change C19-r6m1: a
/// per-thread scratch buffer left dirty by the error paths)
fn strip_twice(s: &str) -> (Result<(String, Option<String>), Error>, Option<String>) {
    let r0 = strip_pgp_signature(s);
    for poison in [
        "-----BEGIN PGP SIGNED MESSAGE-----\nHash: SHA256\n\nstale payload\n",
        "-----BEGIN PGP SIGNED MESSAGE-----\n\np\n-----BEGIN PGP SIGNATURE-----\nstale signature\n",
        "-----BEGIN PGP SIGNED MESSAGE-----\n\np\n-----BEGIN PGP SIGNATURE-----\ns\n-----END PGP SIGNATURE-----\njunk\n",
        "-----BEGIN PGP SIGNED MESSAGE-----\nHash: x\n",
    ] {
        let _ = strip_pgp_signature(poison);
        let r = strip_pgp_signature(s);
        if r != r0 {
            let why = format!("the answer depends on earlier calls: {} on the first call, {} after an unrelated call", show(&r0), show(&r));
            return (r0, Some(why));
        }
    }
    (r0, None)
}

fn is_crlf(eol: &str, i: usize) -> bool {
    eol == "crlf" || (eol == "alt" && i % 2 == 1)
}

fn side_strict(hs: &[String], ps: &[String], sg: &[String], extra: &[String]) -> bool {
    hs.iter().all(|h| line_ok(h) && !h.is_empty())
        // payload lines "that need no dash-escaping (none begins with '-')": the property
        // says nothing about a payload line starting with '-' (a reader may unescape it)
        && ps.iter().all(|p| line_ok(p) && !p.starts_with('-'))
        && sg.iter().all(|s| line_ok(s) && s != END_SIG)
        && extra.iter().all(|s| line_ok(s))
}

/// `eol`: "lf" every line ended by LF, "crlf" by CRLF, "alt" odd-numbered lines (0-based) by CRLF
fn wrap_op(hs: &str, ps: &str, sg: &str, k: &str, extra: &str, eol: &str) -> Option<Resp> {
    let hs = dlist(hs)?;
    let ps = dlist(ps)?;
    let sg = dlist(sg)?;
    let extra = dlist(extra)?;
    let mut all: Vec<String> = vec![BEGIN_MSG.to_string()];
    all.extend(hs.iter().cloned());
    all.push(String::new());
    all.extend(ps.iter().cloned());
    all.push(BEGIN_SIG.to_string());
    all.extend(sg.iter().cloned());
    all.push(END_SIG.to_string());
    let total = all.len();
    let kk: Option<usize> = k.parse().ok();
    if let Some(n) = kk {
        all.truncate(n);
    }
    all.extend(extra.iter().cloned());
    let text: String = all.iter().enumerate().map(|(i, l)| format!("{}{}", l, if is_crlf(eol, i) { "\r\n" } else { "\n" })).collect();
    // what `lines()` needs to hand a line back: no LF inside; no CR at the end in front of a bare LF
    // (in front of CRLF a final CR is allowed: one CR is stripped) -- `EolOK` of Props/C19Crlf.lean
    let eol_ok = all.iter().enumerate().all(|(i, l)| !l.contains('\n') && (is_crlf(eol, i) || !l.ends_with('\r')));
    let complete = kk.is_none() && extra.is_empty();
    let (r, hist) = strip_twice(&text);
    if hist.is_some() {
        return Some(Resp::with(format!("{} {}", es(&text), show(&r)), hist));
    }
    // the property's oracle, applicable when the side conditions hold
    // complete message: `C19_unwrap_mixed` / `C19_unwrap_crlf` (EolOK lines, payload returned with LF
    // line ends whatever the line ends of the message); cuts and junk: `C19_truncate_crlf` /
    // `C19_junk_crlf` (LineOK lines)
    let side = if complete {
        eol_ok
            && hs.iter().all(|h| !h.is_empty())
            && ps.iter().all(|p| !p.starts_with('-'))
            && sg.iter().all(|s| s != END_SIG)
    } else {
        side_strict(&hs, &ps, &sg, &extra)
    };
    let mut fail = None;
    if side {
        let expected: Option<Result<(String, Option<String>), Error>> = match kk {
            None if extra.is_empty() => Some(Ok((
                ps.iter().map(|l| format!("{}\n", l)).collect(),
                Some(sg.concat()),
            ))),
            None => Some(Err(Error::JunkAfterPgpSignature)),
            Some(n) if n >= total && extra.is_empty() => None,
            Some(n) if extra.is_empty() => {
                if n == 0 {
                    Some(Ok((String::new(), None)))
                } else if n <= 1 + hs.len() {
                    Some(Err(Error::MissingPayload))
                } else if n <= 2 + hs.len() + ps.len() {
                    Some(Err(Error::MissingPgpSignature))
                } else {
                    Some(Err(Error::TruncatedPgpSignature))
                }
            }
            _ => None,
        };
        if let Some(e) = expected {
            if e != r {
                fail = Some(format!("expected {} got {}", show(&e), show(&r)));
            }
        }
    }
    Some(Resp::with(format!("{} {}", es(&text), show(&r)), fail))
}

pub fn handle(op: &str, a: &[&str]) -> Option<Resp> {
    match (op, a) {
        ("pgp.strip", [t]) => {
            let s = ds(t)?;
            let (r, hist) = strip_twice(&s);
            if hist.is_some() {
                return Some(Resp::with(show(&r), hist));
            }
            // oracle clauses that need no structure: a result without signature is the input;
            let fail = match &r {
                Ok((p, None)) if p != &s => Some("passthrough altered the text".to_string()),
                Ok((_, None)) if s.lines().next() == Some(BEGIN_MSG) => {
                    Some("signed-message marker but no signature returned".to_string())
                }
                Ok((_, Some(_))) if s.lines().next() != Some(BEGIN_MSG) => {
                    Some("signature reported for unsigned text".to_string())
                }
                _ => None,
            };
            Some(Resp::with(show(&r), fail))
        }
        ("pgp.wrap", [hs, ps, sg, k, extra]) => wrap_op(hs, ps, sg, k, extra, "lf"),
        ("pgp.wrap", [hs, ps, sg, k, extra, eol]) if ["lf", "crlf", "alt"].contains(eol) => wrap_op(hs, ps, sg, k, extra, eol),
        _ => None,
    }
}

/// one message of the `pgp.wrap` family: complete, cut after every line, with each tail
fn wrap_family(out: &mut Out, hs: &[&str], ps: &[&str], sg: &[&str], tails: &[&str], eol: &str) {
    let total = 3 + hs.len() + ps.len() + sg.len() + 1;
    let base = [elist(hs), elist(ps), elist(sg)];
    let mut req = |k: String, extra: String| {
        let mut a = vec![base[0].clone(), base[1].clone(), base[2].clone(), k, extra];
        if eol != "lf" {
            a.push(eol.to_string());
        }
        out.req("pgp.wrap", &a);
    };
    req("all".into(), "".into());
    for k in 0..total {
        req(k.to_string(), "".into());
    }
    for t in tails {
        req("all".into(), elist(&[*t]));
    }
}

pub fn generate(tier: &str, seed: u64, out: &mut Out) {
    let thorough = tier == "thorough";
    let hpool = ["Hash: SHA256", "Comment: x"];
    let ppool = [
        "",
        "a",
        " -----BEGIN PGP SIGNATURE-----",
        "-----BEGIN PGP SIGNATURE----- ",
        "Hash: x",
        "Origin: Debian",
        "é 😀",
        " -----END PGP SIGNATURE-----",
    ];
    // signature lines: blank, base64, a marker look-alike, and an old-GnuPG armour header line
    // ("Key: value") — every one of them is part of the returned signature
    let spool = ["", "iQIz", "=olY7", "-----BEGIN PGP SIGNATURE-----", "Version: GnuPG v1"];
    let tails = ["", "junk", "-----END PGP SIGNATURE-----"];
    let hss = lists_upto(&hpool, 2);
    let pss = lists_upto(&ppool, if thorough { 3 } else { 2 });
    let sgs = lists_upto(&spool, if thorough { 3 } else { 2 });
    // the whole enumeration twice: LF line ends, and CRLF line ends (`C19_unwrap_crlf`,
    // `C19_truncate_crlf`, `C19_junk_crlf`: same answers, the payload comes back with LF line ends)
    for eol in ["lf", "crlf"] {
        for hs in &hss {
            for ps in &pss {
                for sg in &sgs {
                    wrap_family(out, hs, ps, sg, &tails, eol);
                }
            }
        }
    }
    // dash-led lines outside the payload ("- " is the dash-escape prefix of RFC 4880, which only
    // applies to payload lines): armour headers and signature lines starting with "- ", a signature
    // line that would be the end marker once "unescaped" (after seeded change C19-r5m1)
    let hpool2 = ["- ", "- Hash: x"];
    let spool2 = ["- iQIz", "- -----END PGP SIGNATURE-----", "- ", "iQIz", "-"];
    let hss2 = lists_upto(&hpool2, 2);
    let pss2 = lists_upto(&["a"], 1);
    let sgs2 = lists_upto(&spool2, 2);
    for eol in ["lf", "crlf", "alt"] {
        for hs in &hss2 {
            for ps in &pss2 {
                for sg in &sgs2 {
                    wrap_family(out, hs, ps, sg, &["", "- ", "- -----END PGP SIGNATURE-----"], eol);
                }
            }
        }
    }
    // CR inside / at the end of lines and white-space-only lines in the separator position (a header
    // line for the code: ` `, `\t`, ` \r`; `\r` + LF IS the empty line, then the real empty line is
    // payload) x payloads with and without an empty line, with every line-end rule. The oracle applies
    // where `EolOK` holds (CRLF: any line without LF); everything is compared with the model.
    let hpool3 = ["Hash: x", " ", "\t", "\r", " \r", "Comment: a\rb"];
    let pss3: Vec<Vec<&str>> = vec![vec!["a"], vec!["a", "", "b"], vec!["a\r", "b"], vec!["\r"], vec!["a", " ", "b"]];
    let sgs3: Vec<Vec<&str>> = vec![vec!["s"], vec!["iQIz", "=olY7\r"], vec!["\r", "s"]];
    let hss3 = lists_upto(&hpool3, 2);
    for eol in ["lf", "crlf", "alt"] {
        for hs in &hss3 {
            for ps in &pss3 {
                for sg in &sgs3 {
                    wrap_family(out, hs, ps, sg, &["", "\r", " "], eol);
                }
            }
        }
    }
    // mixed line ends on the main pools, one payload / signature length
    for hs in &hss {
        for ps in pss.iter().filter(|p| p.len() <= 1) {
            for sg in sgs.iter().filter(|s| s.len() <= 1) {
                wrap_family(out, hs, ps, sg, &tails, "alt");
            }
        }
    }
    // marker look-alikes: trailing blank / TAB / other text after the marker, BOM or blank before it,
    // an empty line before it: the whole armour passes through as unsigned text
    // (`C19_passthrough_lookalikes`, `_prefixed`, `_leading_line`); marker + CR (+ LF) at end of input;
    // a CRLF message cut between CR and LF of each line (`C19_cut_cr_lf` for the END line)
    let body = "Hash: SHA256\n\nOrigin: Debian\n-----BEGIN PGP SIGNATURE-----\niQIz\n-----END PGP SIGNATURE-----\n";
    for first in [
        format!("{} ", BEGIN_MSG), format!("{}\t", BEGIN_MSG), format!("{}x", BEGIN_MSG), format!("{} \r", BEGIN_MSG),
        format!("{}\r\r", BEGIN_MSG), format!("{}\r", BEGIN_MSG), format!("\u{feff}{}", BEGIN_MSG), format!(" {}", BEGIN_MSG),
        format!("\n{}", BEGIN_MSG), format!("\r\n{}", BEGIN_MSG), format!(" \n{}", BEGIN_MSG), BEGIN_MSG.to_string(),
    ] {
        for b in [body.to_string(), body.replace('\n', "\r\n")] {
            out.req("pgp.strip", &[es(&format!("{}\n{}", first, b))]);
            out.req("pgp.strip", &[es(&format!("{}\r\n{}", first, b))]);
        }
        out.req("pgp.strip", &[es(&first)]);
    }
    let crlf_msg = format!("{}\n{}", BEGIN_MSG, body).replace('\n', "\r\n");
    for i in 0..=crlf_msg.len() {
        out.req("pgp.strip", &[es(&crlf_msg[..i])]);
    }
    for sep in [" ", "\t", "\r", " \r", "\u{a0}", "\u{c}"] {
        for payload in ["a\n", "a\n\nb\n", "\na\n"] {
            for eol in ["\n", "\r\n"] {
                let t = format!("{}\nHash: x\n{}\n{}-----BEGIN PGP SIGNATURE-----\ns\n-----END PGP SIGNATURE-----\n", BEGIN_MSG, sep, payload);
                out.req("pgp.strip", &[es(&t.replace('\n', eol))]);
            }
        }
    }
    // raw texts: the repo's InRelease file cut at every byte boundary that is a char boundary
    // (quick: every 7th), CRLF variants, missing final newline, marker look-alikes
    let inrelease = std::fs::read_to_string("/repo/debian-control/src/testdata/InRelease").unwrap_or_default();
    let step = if thorough { 1 } else { 7 };
    let mut i = 0;
    while i <= inrelease.len() {
        if inrelease.is_char_boundary(i) {
            out.req("pgp.strip", &[es(&inrelease[..i])]);
        }
        i += step;
    }
    out.req("pgp.strip", &[es(&inrelease.replace('\n', "\r\n"))]);
    let mut rng = Rng::new(seed);
    let frag = [
        BEGIN_MSG, BEGIN_SIG, END_SIG, "", "a", "\r", "Hash: x", " ", "-", "é", "Version: GnuPG v1",
        "- ", "- x", "- -----END PGP SIGNATURE-----", "- -----BEGIN PGP SIGNATURE-----",
    ];
    let n = if thorough { 200_000 } else { 20_000 };
    for _ in 0..n {
        let len = rng.below(9);
        let mut t = String::new();
        for j in 0..len {
            // bias towards a plausible message skeleton
            let f = if rng.chance(50) {
                match j {
                    0 => BEGIN_MSG,
                    1 => "",
                    3 => BEGIN_SIG,
                    5 => END_SIG,
                    _ => *rng.pick(&frag),
                }
            } else {
                *rng.pick(&frag)
            };
            t.push_str(f);
            match rng.below(10) {
                0 => {}
                1 => t.push_str("\r\n"),
                _ => t.push('\n'),
            }
        }
        out.req("pgp.strip", &[es(&t)]);
    }
}
