//! C19: debian_control::pgp::strip_pgp_signature
use crate::util::*;
use crate::Resp;
use debian_control::pgp::{strip_pgp_signature, Error};

const BEGIN_MSG: &str = "-----BEGIN PGP SIGNED MESSAGE-----";
const BEGIN_SIG: &str = "-----BEGIN PGP SIGNATURE-----";
const END_SIG: &str = "-----END PGP SIGNATURE-----";

fn show(r: &Result<(String, Option<String>), Error>) -> String {
    match r {
        Ok((p, s)) => format!("ok {} {}", es(p), eopt(s.as_deref())),
        Err(e) => format!("err {:?}", e),
    }
}

fn line_ok(l: &str) -> bool {
    !l.contains('\n') && !l.ends_with('\r')
}

/// the unwrapping is a function of its input: the same call after calls that ended in each of the
/// errors (and after a successful one) must give the same answer (after seeded change C19-r6m1: a
/// per-thread scratch buffer left dirty by the error paths)
fn strip_twice(s: &str) -> (Result<(String, Option<String>), Error>, Option<String>) {
    let r0 = strip_pgp_signature(s);
    for poison in [
        "-----BEGIN PGP SIGNED MESSAGE-----\nHash: SHA256\n\nstale payload\n",
        "-----BEGIN PGP SIGNED MESSAGE-----\n\np\n-----BEGIN PGP SIGNATURE-----\nstale signature\n",
        "-----BEGIN PGP SIGNED MESSAGE-----\n\np\n-----BEGIN PGP SIGNATURE-----\ns\n-----END PGP SIGNATURE-----\njunk\n",
        "-----BEGIN PGP SIGNED MESSAGE-----\nHash: x\n",
    ] {
        let _ = strip_pgp_signature(poison);
        let r = strip_pgp_signature(s);
        if r != r0 {
            let why = format!("the answer depends on earlier calls: {} on the first call, {} after an unrelated call", show(&r0), show(&r));
            return (r0, Some(why));
        }
    }
    (r0, None)
}

pub fn handle(op: &str, a: &[&str]) -> Option<Resp> {
    match (op, a) {
        ("pgp.strip", [t]) => {
            let s = ds(t)?;
            let (r, hist) = strip_twice(&s);
            if hist.is_some() {
                return Some(Resp::with(show(&r), hist));
            }
            // oracle clauses that need no structure: a result without signature is the input;
            let fail = match &r {
                Ok((p, None)) if p != &s => Some("passthrough altered the text".to_string()),
                Ok((_, None)) if s.lines().next() == Some(BEGIN_MSG) => {
                    Some("signed-message marker but no signature returned".to_string())
                }
                Ok((_, Some(_))) if s.lines().next() != Some(BEGIN_MSG) => {
                    Some("signature reported for unsigned text".to_string())
                }
                _ => None,
            };
            Some(Resp::with(show(&r), fail))
        }
        ("pgp.wrap", [hs, ps, sg, k, extra]) => {
            let hs = dlist(hs)?;
            let ps = dlist(ps)?;
            let sg = dlist(sg)?;
            let extra = dlist(extra)?;
            let mut all: Vec<String> = vec![BEGIN_MSG.to_string()];
            all.extend(hs.iter().cloned());
            all.push(String::new());
            all.extend(ps.iter().cloned());
            all.push(BEGIN_SIG.to_string());
            all.extend(sg.iter().cloned());
            all.push(END_SIG.to_string());
            let total = all.len();
            let kk: Option<usize> = k.parse().ok();
            if let Some(n) = kk {
                all.truncate(n);
            }
            all.extend(extra.iter().cloned());
            let text: String = all.iter().map(|l| format!("{}\n", l)).collect();
            let (r, hist) = strip_twice(&text);
            if hist.is_some() {
                return Some(Resp::with(format!("{} {}", es(&text), show(&r)), hist));
            }
            // the property's oracle, applicable when the side conditions hold
            let side = hs.iter().all(|h| line_ok(h) && !h.is_empty())
                // payload lines "that need no dash-escaping (none begins with '-')": the property
                // says nothing about a payload line starting with '-' (a reader may unescape it)
                && ps.iter().all(|p| line_ok(p) && !p.starts_with('-'))
                && sg.iter().all(|s| line_ok(s) && s != END_SIG)
                && extra.iter().all(|s| line_ok(s));
            let mut fail = None;
            if side {
                let expected: Option<Result<(String, Option<String>), Error>> = match kk {
                    None if extra.is_empty() => Some(Ok((
                        ps.iter().map(|l| format!("{}\n", l)).collect(),
                        Some(sg.concat()),
                    ))),
                    None => Some(Err(Error::JunkAfterPgpSignature)),
                    Some(n) if n >= total && extra.is_empty() => None,
                    Some(n) if extra.is_empty() => {
                        if n == 0 {
                            Some(Ok((String::new(), None)))
                        } else if n <= 1 + hs.len() {
                            Some(Err(Error::MissingPayload))
                        } else if n <= 2 + hs.len() + ps.len() {
                            Some(Err(Error::MissingPgpSignature))
                        } else {
                            Some(Err(Error::TruncatedPgpSignature))
                        }
                    }
                    _ => None,
                };
                if let Some(e) = expected {
                    if e != r {
                        fail = Some(format!("expected {} got {}", show(&e), show(&r)));
                    }
                }
            }
            Some(Resp::with(format!("{} {}", es(&text), show(&r)), fail))
        }
        _ => None,
    }
}

pub fn generate(tier: &str, seed: u64, out: &mut Out) {
    let thorough = tier == "thorough";
    let hpool = ["Hash: SHA256", "Comment: x"];
    let ppool = [
        "",
        "a",
        " -----BEGIN PGP SIGNATURE-----",
        "-----BEGIN PGP SIGNATURE----- ",
        "Hash: x",
        "Origin: Debian",
        "é 😀",
        " -----END PGP SIGNATURE-----",
    ];
    // signature lines: blank, base64, a marker look-alike, and an old-GnuPG armour header line
    // ("Key: value") — every one of them is part of the returned signature
    let spool = ["", "iQIz", "=olY7", "-----BEGIN PGP SIGNATURE-----", "Version: GnuPG v1"];
    let tails = ["", "junk", "-----END PGP SIGNATURE-----"];
    let hss = lists_upto(&hpool, 2);
    let pss = lists_upto(&ppool, if thorough { 3 } else { 2 });
    let sgs = lists_upto(&spool, if thorough { 3 } else { 2 });
    for hs in &hss {
        for ps in &pss {
            for sg in &sgs {
                let total = 3 + hs.len() + ps.len() + sg.len() + 1;
                let base = [elist(hs), elist(ps), elist(sg)];
                out.req("pgp.wrap", &[base[0].clone(), base[1].clone(), base[2].clone(), "all".into(), "".into()]);
                for k in 0..total {
                    out.req("pgp.wrap", &[base[0].clone(), base[1].clone(), base[2].clone(), k.to_string(), "".into()]);
                }
                for t in &tails {
                    out.req("pgp.wrap", &[base[0].clone(), base[1].clone(), base[2].clone(), "all".into(), elist(&[*t])]);
                }
            }
        }
    }
    // dash-led lines outside the payload ("- " is the dash-escape prefix of RFC 4880, which only
    // applies to payload lines): armour headers and signature lines starting with "- ", a signature
    // line that would be the end marker once "unescaped" (after seeded change C19-r5m1)
    let hpool2 = ["- ", "- Hash: x"];
    let spool2 = ["- iQIz", "- -----END PGP SIGNATURE-----", "- ", "iQIz", "-"];
    let hss2 = lists_upto(&hpool2, 2);
    let pss2 = lists_upto(&["a"], 1);
    let sgs2 = lists_upto(&spool2, 2);
    for hs in &hss2 {
        for ps in &pss2 {
            for sg in &sgs2 {
                let total = 3 + hs.len() + ps.len() + sg.len() + 1;
                let base = [elist(hs), elist(ps), elist(sg)];
                out.req("pgp.wrap", &[base[0].clone(), base[1].clone(), base[2].clone(), "all".into(), "".into()]);
                for k in 0..total {
                    out.req("pgp.wrap", &[base[0].clone(), base[1].clone(), base[2].clone(), k.to_string(), "".into()]);
                }
                for t in ["", "- ", "- -----END PGP SIGNATURE-----"] {
                    out.req("pgp.wrap", &[base[0].clone(), base[1].clone(), base[2].clone(), "all".into(), elist(&[t])]);
                }
            }
        }
    }
    // raw texts: the repo's InRelease file cut at every byte boundary that is a char boundary
    // (quick: every 7th), CRLF variants, missing final newline, marker look-alikes
    let inrelease = std::fs::read_to_string("/repo/debian-control/src/testdata/InRelease").unwrap_or_default();
    let step = if thorough { 1 } else { 7 };
    let mut i = 0;
    while i <= inrelease.len() {
        if inrelease.is_char_boundary(i) {
            out.req("pgp.strip", &[es(&inrelease[..i])]);
        }
        i += step;
    }
    out.req("pgp.strip", &[es(&inrelease.replace('\n', "\r\n"))]);
    let mut rng = Rng::new(seed);
    let frag = [
        BEGIN_MSG, BEGIN_SIG, END_SIG, "", "a", "\r", "Hash: x", " ", "-", "é", "Version: GnuPG v1",
        "- ", "- x", "- -----END PGP SIGNATURE-----", "- -----BEGIN PGP SIGNATURE-----",
    ];
    let n = if thorough { 200_000 } else { 20_000 };
    for _ in 0..n {
        let len = rng.below(9);
        let mut t = String::new();
        for j in 0..len {
            // bias towards a plausible message skeleton
            let f = if rng.chance(50) {
                match j {
                    0 => BEGIN_MSG,
                    1 => "",
                    3 => BEGIN_SIG,
                    5 => END_SIG,
                    _ => *rng.pick(&frag),
                }
            } else {
                *rng.pick(&frag)
            };
            t.push_str(f);
            match rng.below(10) {
                0 => {}
                1 => t.push_str("\r\n"),
                _ => t.push('\n'),
            }
        }
        out.req("pgp.strip", &[es(&t)]);
    }
}
