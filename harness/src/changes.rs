//! `debian_control::lossless::changes::Changes`: the four readers (`read`, `read_relaxed`,
//! `from_file`, `from_file_relaxed`) and `get_pool_path` (model: lean/Deb822Verif/Model/Changes.lean,
//! theorems: Props/C15Changes.lean).
//!
//!   chg.read <x-hex bytes>  -> `strict <class> [<idx> <paragraph dump> <getters>] | relaxed <class>
//!                               [<idx> <#errors> <last error is "multiple paragraphs found"> <root dump> <getters>]`
//!   chg.pool <x-hex text>   -> `some <x-hex>` | `none` | `PANIC files` | `PANIC path` | `bad-doc`
use crate::deb::{dump_node, gen_texts, ALPHABET};
use crate::util::*;
use crate::Resp;
use deb822_lossless::Paragraph;
use debian_control::lossless::changes::{Changes, ParseError};
use rowan::ast::AstNode;
use std::panic::{catch_unwind, AssertUnwindSafe};

const MULTIPLE: &str = "multiple paragraphs found";

// `Changes` is `pub struct Changes(deb822_lossless::Paragraph)` with a private field and neither
// `Display` nor `as_deb822()`: the paragraph it wraps (and through its parent pointer the document)
// can only be reached by reinterpreting the newtype. A one-field struct has the size and alignment
// of its field (checked here at compile time); the getters printed next to the dump go through the
// public API and would expose a wrong reinterpretation.
const _: () = assert!(std::mem::size_of::<Changes>() == std::mem::size_of::<Paragraph>());
const _: () = assert!(std::mem::align_of::<Changes>() == std::mem::align_of::<Paragraph>());
fn into_paragraph(c: Changes) -> Paragraph {
    unsafe { std::mem::transmute::<Changes, Paragraph>(c) }
}

/// `fmt=<format()> src=<source()> files=<none | number of files | PANIC>`
fn getters(c: &Changes) -> String {
    let files = match catch_unwind(AssertUnwindSafe(|| c.files())) {
        Ok(None) => "none".to_string(),
        Ok(Some(v)) => v.len().to_string(),
        Err(_) => "PANIC".to_string(),
    };
    format!("fmt={} src={} files={}", eopt(c.format().as_deref()), eopt(c.source().as_deref()), files)
}

struct Strict {
    class: String,
    /// index among the root's children, paragraph dump, paragraph text, getters
    value: Option<(usize, String, String, String)>,
}

fn strict_of(r: Result<Changes, ParseError>) -> Strict {
    match r {
        Ok(c) => {
            let g = getters(&c);
            let p = into_paragraph(c);
            let mut d = String::new();
            dump_node(p.syntax(), &mut d);
            Strict { class: "ok".into(), value: Some((p.syntax().index(), d, p.syntax().text().to_string(), g)) }
        }
        Err(ParseError::NoParagraphs) => Strict { class: "NoParagraphs".into(), value: None },
        Err(ParseError::MultipleParagraphs) => Strict { class: "MultipleParagraphs".into(), value: None },
        Err(ParseError::Deb822(deb822_lossless::Error::IoError(_))) => Strict { class: "io".into(), value: None },
        Err(ParseError::Deb822(_)) => Strict { class: "err".into(), value: None },
    }
}

fn show_strict(s: &Strict) -> String {
    match &s.value {
        Some((i, d, _, g)) => format!("strict {} {} {} {}", s.class, i, d, g),
        None => format!("strict {}", s.class),
    }
}

struct Relaxed {
    idx: usize,
    nerr: usize,
    last_multiple: bool,
    root: String,
    root_text: String,
    para: String,
    getters: String,
}

fn relaxed_of<E>(r: Result<(Changes, Vec<String>), E>) -> Option<Relaxed> {
    let (c, errs) = r.ok()?;
    let g = getters(&c);
    let p = into_paragraph(c);
    let root = p.syntax().ancestors().last().unwrap();
    let mut rd = String::new();
    dump_node(&root, &mut rd);
    let mut pd = String::new();
    dump_node(p.syntax(), &mut pd);
    Some(Relaxed {
        idx: p.syntax().index(),
        nerr: errs.len(),
        last_multiple: errs.last().map(|e| e == MULTIPLE).unwrap_or(false),
        root: rd,
        root_text: root.text().to_string(),
        para: pd,
        getters: g,
    })
}

fn show_relaxed(r: &Option<Relaxed>) -> String {
    match r {
        Some(r) => format!("relaxed ok {} {} {} {} {}", r.idx, r.nerr, ebool(r.last_multiple), r.root, r.getters),
        None => "relaxed io".to_string(),
    }
}

fn with_file<T>(bytes: &[u8], f: impl FnOnce(&std::path::Path) -> T) -> Option<T> {
    let path = std::env::temp_dir().join(format!("verif-chg-{}", std::process::id()));
    std::fs::write(&path, bytes).ok()?;
    let r = f(&path);
    let _ = std::fs::remove_file(&path);
    Some(r)
}

pub fn handle(op: &str, a: &[&str]) -> Option<Resp> {
    match (op, a) {
        ("chg.read", [t]) => {
            let bytes = dbytes(t)?;
            let text = std::str::from_utf8(&bytes).ok();
            let s = strict_of(Changes::read(&bytes[..]));
            let r = relaxed_of(Changes::read_relaxed(&bytes[..]));
            let obs = format!("{} | {}", show_strict(&s), show_relaxed(&r));
            // the property-level statements of Props/C15Changes.lean, evaluated on the real code
            let mut fail = None;
            if text.is_some() != r.is_some() {
                fail = Some("read_relaxed fails exactly on bytes that are not UTF-8: violated".to_string());
            } else if (s.class == "io") != text.is_none() {
                fail = Some("read: io error exactly on bytes that are not UTF-8: violated".to_string());
            }
            if let (None, Some(text), Some(r)) = (&fail, text, &r) {
                // reference: the deb822 reader itself on the same text
                let (doc, derrs) = deb822_lossless::Deb822::from_str_relaxed(text);
                let np = doc.paragraphs().count();
                let first = doc.paragraphs().next().map(|p| {
                    let mut d = String::new();
                    dump_node(p.syntax(), &mut d);
                    (p.syntax().index(), d)
                });
                let want_class = if !derrs.is_empty() {
                    "err"
                } else {
                    match np {
                        0 => "NoParagraphs",
                        1 => "ok",
                        _ => "MultipleParagraphs",
                    }
                };
                if s.class != want_class {
                    fail = Some(format!("read: expected class {}", want_class));
                } else if r.last_multiple != (np >= 2) || r.nerr != derrs.len() + (np >= 2) as usize {
                    fail = Some("read_relaxed: errors are not the deb822 errors plus the message for >= 2 paragraphs".to_string());
                } else if let Some((i, d)) = &first {
                    if *i != r.idx || d != &r.para {
                        fail = Some("read_relaxed does not wrap the first paragraph".to_string());
                    } else if r.root_text != text || r.root != crate::deb::dump_deb(&doc) {
                        fail = Some("read_relaxed altered a document that has a paragraph".to_string());
                    }
                } else if r.para != "(PARAGRAPH)" || !r.root_text.starts_with(text) {
                    fail = Some("no paragraph: the tolerant reader must wrap a new empty paragraph appended to the document".to_string());
                }
                if let (None, Some((i, d, ptext, g))) = (&fail, &s.value) {
                    if r.nerr != 0 || *i != r.idx || d != &r.para || g != &r.getters {
                        fail = Some("strict ok, but the tolerant reader wraps another paragraph or reports errors".to_string());
                    } else if !text.contains(ptext.as_str()) {
                        fail = Some("the wrapped paragraph's text is not a piece of the input".to_string());
                    }
                }
            }
            // from_file / from_file_relaxed on a file holding the same bytes
            if fail.is_none() {
                let fs = with_file(&bytes, |p| strict_of(Changes::from_file(p)));
                let fr = with_file(&bytes, |p| relaxed_of(Changes::from_file_relaxed(p)));
                match (fs, fr) {
                    (Some(fs), Some(fr)) => {
                        if show_strict(&fs) != show_strict(&s) {
                            fail = Some(format!("from_file differs from read: {}", show_strict(&fs)));
                        } else if show_relaxed(&fr) != show_relaxed(&r) {
                            fail = Some(format!("from_file_relaxed differs from read_relaxed: {}", show_relaxed(&fr)));
                        }
                    }
                    _ => fail = Some("could not write the temporary file".to_string()),
                }
            }
            Some(Resp::with(obs, fail))
        }
        ("chg.pool", [t]) => {
            let s = ds(t)?;
            let c = match Changes::read(s.as_bytes()) {
                Ok(c) => c,
                Err(_) => return Some(Resp::ok("bad-doc".to_string())),
            };
            if catch_unwind(AssertUnwindSafe(|| c.files())).is_err() {
                return Some(Resp::with("PANIC files".to_string(), Some("panic".to_string())));
            }
            match catch_unwind(AssertUnwindSafe(|| c.get_pool_path())) {
                Ok(Some(p)) => Some(Resp::ok(format!("some {}", es(&p)))),
                Ok(None) => Some(Resp::ok("none".to_string())),
                Err(_) => Some(Resp::with("PANIC path".to_string(), Some("panic".to_string()))),
            }
        }
        _ => None,
    }
}

const MD5: &str = "d41d8cd98f00b204e9800998ecf8427e";

/// Files values: well-formed (section with and without '/', several '/', empty halves), no line,
/// ill-formed lines (size, priority, too few words), a good line followed by a bad one
fn files_values() -> Vec<Option<String>> {
    let mut v: Vec<Option<String>> = vec![None, Some(String::new())];
    for sec in ["net", "non-free/net", "a/b/c", "/x", "x/", "/", "contrib/libs", "é/ü", "main"] {
        v.push(Some(format!("\n {} 0 {} optional a_1.0-1.dsc", MD5, sec)));
    }
    v.push(Some(format!("{} 12 non-free/x required a.dsc", MD5)));
    v.push(Some(format!("\n {} 1 net optional a.dsc\n {} 2 contrib/y extra b.deb", MD5, MD5)));
    v.push(Some(format!("\n {} 1 net optional a.dsc extra words", MD5)));
    v.push(Some(format!("\n {}  7\tnet   optional  a.dsc", MD5)));
    // ill-formed
    v.push(Some(format!("\n {} x net optional a.dsc", MD5)));
    v.push(Some(format!("\n {} -1 net optional a.dsc", MD5)));
    v.push(Some(format!("\n {} 1 net Optional a.dsc", MD5)));
    v.push(Some(format!("\n {} 1 net optional", MD5)));
    v.push(Some(format!("\n {} 1 contrib/y optional a.dsc\n bad", MD5)));
    v.push(Some("\n .".to_string()));
    v
}

fn source_values() -> Vec<Option<&'static str>> {
    vec![
        None, Some(""), Some("hello"), Some("Hello"), Some("libfoo"), Some("lib"), Some("li"), Some("Libfoo"),
        Some("LIBFOO"), Some("éclair"), Some("lib\u{e9}"), Some("Zed"), Some("1abc"), Some("+x"), Some("\u{130}x"),
        Some("\u{212a}elvin"), Some("x"), Some("liberty"), Some("a\n b"), Some("\u{7f}z"), Some("\u{80}z"),
    ]
}

fn field(name: &str, v: &str) -> String {
    if v.is_empty() {
        format!("{}:\n", name)
    } else if let Some(rest) = v.strip_prefix('\n') {
        format!("{}:\n{}\n", name, rest)
    } else {
        format!("{}: {}\n", name, v)
    }
}

fn changes_doc(rng: &mut Rng) -> String {
    let names = ["Format", "Source", "Files", "Binary", "Version", "X"];
    let vals = ["1.8", "hello", "libfoo", "", "a b", "é"];
    let mut s = String::new();
    for _ in 0..rng.below(3) {
        s.push_str(*rng.pick(&["\n", "# c\n", "#\n", " \n"]));
    }
    let np = rng.below(4);
    for p in 0..np {
        if p > 0 {
            s.push_str(*rng.pick(&["\n", "\n\n", "\n# between\n\n", "\n \n"]));
        }
        for _ in 0..1 + rng.below(3) {
            let n = *rng.pick(&names);
            if n == "Files" {
                let fv = files_values();
                let v = rng.pick(&fv).clone().unwrap_or_default();
                s.push_str(&field(n, &v));
            } else {
                s.push_str(&field(n, *rng.pick(&vals)));
            }
        }
    }
    if rng.chance(25) {
        s.pop();
    }
    if rng.chance(10) {
        s.push_str(*rng.pick(&["\n\n", "\n# tail", "bad line\n", ":x\n"]));
    }
    s
}

pub fn generate_c15(tier: &str, seed: u64, out: &mut Out) {
    let thorough = tier == "thorough";
    let mut rng = Rng::new(seed ^ 0xc4a6e5);
    // ---- chg.read
    // hand-picked: empty, blank / comment only, one / two / three paragraphs, errors in the first /
    // second paragraph, no final newline, comment between, leading blank lines
    let hand = [
        "", "\n", "\n\n", "# c\n", "# c", "#\n\n# d\n", " \n", "\t", "\r\n",
        "Format: 1.8\n", "Format: 1.8", "Format: 1.8\nSource: a\n", "\nFormat: 1.8\n", "# c\nFormat: 1.8\n", "\n# c\n\nSource: a\n\n",
        "Source: a\n\nSource: b\n", "Source: a\n\nSource: b", "Source: a\n\n\n# x\n\nSource: b\n", "Source: a\n\nSource: b\n\nSource: c\n",
        "Source: a\n# in\nFormat: 1.8\n", "Source: a\n\n# only a comment after\n", "Source: a\n\n",
        "bad\nSource: a\n", "Source: a\nbad\n", "Source: a\n\nbad\n", "Source: a\n\nSource: b\nbad\n", "bad\n", "bad", ": x\n", " orphan\n",
        "Source: a\n orphan\n\n : x\n", "Source: a\n\n-x: b\n", "bad\n\nSource: a\n", "bad\n\nworse\n", "\nbad", "# c\nbad",
        "Source: a\r\n\r\nSource: b\r\n", "Source: a\n \nSource: b\n", "Source: a\n\t\nSource: b\n",
        "Files:\n d41d8cd98f00b204e9800998ecf8427e 0 net optional a.dsc\nSource: a\n", "Files:\n bad\nSource: a\n", "Files:\nSource:\n",
        "Format: 1.8\nFormat: 2.0\n", "source: a\n", "Source: é\n\n# é\n",
    ];
    for t in hand.iter() {
        out.req("chg.read", &[es(t)]);
    }
    // not UTF-8, truncated multi-byte sequences, an overlong form, a surrogate
    for b in [&[0xffu8][..], &[0x41, 0x3a, 0x20, 0xc3], &[0xc3, 0xa9], &[0xc0, 0xaf], &[0xed, 0xa0, 0x80], &[0x41, 0x3a, 0x20, 0x62, 0x0a, 0x0a, 0xfe], &[0xf0, 0x9f, 0x98]] {
        out.req("chg.read", &[format!("x{}", hex(b))]);
    }
    // every string of length <= 3 over the lexer's character classes
    for t in strings_upto(&ALPHABET, 3) {
        out.req("chg.read", &[es(&t)]);
    }
    // a stride sample of the deb822 text generator (C01's: short strings, odd characters, mutated
    // random documents, truncations of the benchmark excerpt)
    let all = gen_texts("quick", seed);
    let want = if thorough { 30_000 } else { 3_000 };
    let stride = std::cmp::max(1, all.len() / want);
    let off = rng.below(stride);
    for t in all.iter().skip(off).step_by(stride) {
        out.req("chg.read", &[es(t)]);
    }
    // documents of 0-3 paragraphs over the field names the getters read
    for _ in 0..(if thorough { 20_000 } else { 2_000 }) {
        let d = changes_doc(&mut rng);
        let d = if rng.chance(20) { crate::deb::mutate(&mut rng, &d) } else { d };
        out.req("chg.read", &[es(&d)]);
    }
    // ---- chg.pool: every Files value x every Source value, both field orders, other fields around
    for f in files_values() {
        for s in source_values() {
            let ff = f.as_ref().map(|v| field("Files", v)).unwrap_or_default();
            let sf = s.map(|v| field("Source", v)).unwrap_or_default();
            for doc in [format!("Format: 1.8\n{}{}", sf, ff), format!("{}Version: 1\n{}", ff, sf)] {
                out.req("chg.pool", &[es(&doc)]);
            }
        }
    }
    // duplicated fields (the first one counts), odd layout, documents the strict reader refuses
    for doc in [
        "Source: a\nSource: libb\nFiles:\n d41d8cd98f00b204e9800998ecf8427e 0 x/y optional f\nFiles:\n bad\n",
        "Files:\n bad\nFiles:\n d41d8cd98f00b204e9800998ecf8427e 0 x/y optional f\nSource: a\n",
        "# c\nSource:   Spaced\nFiles:\n d41d8cd98f00b204e9800998ecf8427e 0 x/y optional f",
        "Source: a\n\nSource: b\n", "", "# c\n", "bad\n",
        "Source: a\nFiles:\n d41d8cd98f00b204e9800998ecf8427e 0 x/y optional f\r\n d41d8cd98f00b204e9800998ecf8427e 0 z optional g\r\n",
        "Source: a\nFiles:\n d41d8cd98f00b204e9800998ecf8427e 18446744073709551615 x optional f\n",
        "Source: a\nFiles:\n d41d8cd98f00b204e9800998ecf8427e 18446744073709551616 x optional f\n",
        "source: a\nfiles:\n d41d8cd98f00b204e9800998ecf8427e 0 x optional f\n",
    ] {
        out.req("chg.pool", &[es(doc)]);
    }
    // seeded one-paragraph documents: 1-4 fields drawn from Files / Source values and other fields
    let fv = files_values();
    let sv = source_values();
    for _ in 0..(if thorough { 5_000 } else { 500 }) {
        let mut d = String::from(*rng.pick(&["", "", "# c\n", "\n"]));
        for _ in 0..1 + rng.below(4) {
            match rng.below(4) {
                0 | 1 => d.push_str(&field("Files", rng.pick(&fv).as_deref().unwrap_or("\n ."))),
                2 => d.push_str(&field("Source", rng.pick(&sv).unwrap_or("lib"))),
                _ => d.push_str(&field(*rng.pick(&["Format", "X", "source", "Files-X"]), *rng.pick(&["1.8", "", "libz"]))),
            }
        }
        if rng.chance(20) {
            d.pop();
        }
        out.req("chg.pool", &[es(&d)]);
    }
}
