//! C02: every text-parsing entry point returns a value or an error (never panics, hangs or
//! exhausts memory). One op `total <entry> <text>` -> `ok` | `err`; a panic is caught by the worker
//! loop, a hang / abort by the supervisor.
use crate::deb;
use crate::util::*;
use crate::Resp;
use std::str::FromStr;

type Entry = (&'static str, fn(&str) -> bool);

pub fn entries() -> Vec<Entry> {
    use debian_control::lossless::relations as lrel;
    vec![
        // 1. deb822-lossless
        ("deb.strict", |s| deb822_lossless::Deb822::from_str(s).is_ok()),
        ("deb.relaxed", |s| {
            let _ = deb822_lossless::Deb822::from_str_relaxed(s);
            true
        }),
        ("deb.para", |s| deb822_lossless::Paragraph::from_str(s).is_ok()),
        ("deb.lossy", |s| deb822_lossless::lossy::Deb822::from_str(s).is_ok()),
        ("deb.lossypara", |s| deb822_lossless::lossy::Paragraph::from_str(s).is_ok()),
        // the std::io::Read entry points (UTF-8 decoding + the same readers)
        ("deb.read", |s| deb822_lossless::Deb822::read(s.as_bytes()).is_ok()),
        ("deb.readrelaxed", |s| deb822_lossless::Deb822::read_relaxed(s.as_bytes()).is_ok()),
        ("deb.lossyreader", |s| deb822_lossless::lossy::Deb822::from_reader(s.as_bytes()).is_ok()),
        // 2. relations, lossless
        ("rel.strict", |s| lrel::Relations::from_str(s).is_ok()),
        ("rel.relaxed0", |s| {
            let _ = lrel::Relations::parse_relaxed(s, false);
            true
        }),
        ("rel.relaxed1", |s| {
            let _ = lrel::Relations::parse_relaxed(s, true);
            true
        }),
        ("rel.entry", |s| lrel::Entry::from_str(s).is_ok()),
        ("rel.relation", |s| lrel::Relation::from_str(s).is_ok()),
        // 3. debian-control lossy
        ("lrel.relations", |s| debian_control::lossy::Relations::from_str(s).is_ok()),
        ("lrel.relation", |s| debian_control::lossy::Relation::from_str(s).is_ok()),
        ("lctl.control", |s| debian_control::lossy::Control::from_str(s).is_ok()),
        ("lctl.release", |s| {
            use deb822_lossless::FromDeb822Paragraph;
            match deb822_lossless::lossy::Paragraph::from_str(s) {
                Ok(p) => debian_control::lossy::apt::Release::from_paragraph(&p).is_ok(),
                Err(_) => false,
            }
        }),
        ("lctl.source", |s| debian_control::lossy::apt::Source::from_str(s).is_ok()),
        ("lctl.package", |s| debian_control::lossy::apt::Package::from_str(s).is_ok()),
        ("lctl.buildinfo", |s| debian_control::lossy::buildinfo::Buildinfo::from_str(s).is_ok()),
        ("lctl.removal", |s| debian_control::lossy::ftpmaster::Removal::from_str(s).is_ok()),
        // 4. debian-control lossless
        ("ctl.control", |s| debian_control::lossless::Control::from_str(s).is_ok()),
        ("ctl.source", |s| debian_control::lossless::apt::Source::from_str(s).is_ok()),
        ("ctl.package", |s| debian_control::lossless::apt::Package::from_str(s).is_ok()),
        ("ctl.release", |s| debian_control::lossless::apt::Release::from_str(s).is_ok()),
        ("ctl.buildinfo", |s| debian_control::lossless::buildinfo::Buildinfo::from_str(s).is_ok()),
        ("ctl.changes", |s| debian_control::lossless::changes::Changes::read(s.as_bytes()).is_ok()),
        ("ctl.changes_relaxed", |s| debian_control::lossless::changes::Changes::read_relaxed(s.as_bytes()).is_ok()),
        ("ctl.changesfile", |s| debian_control::lossless::changes::File::from_str(s).is_ok()),
        ("ctl.read", |s| debian_control::lossless::Control::read(s.as_bytes()).is_ok()),
        ("ctl.read_relaxed", |s| debian_control::lossless::Control::read_relaxed(s.as_bytes()).is_ok()),
        // 4b. the file front ends (`std::fs::read_to_string` + the same readers), on a temporary
        //     file holding the text
        ("deb.from_file", |s| with_file(s, |p| deb822_lossless::Deb822::from_file(p).is_ok())),
        ("deb.from_file_relaxed", |s| with_file(s, |p| deb822_lossless::Deb822::from_file_relaxed(p).is_ok())),
        ("ctl.from_file", |s| with_file(s, |p| debian_control::lossless::Control::from_file(p).is_ok())),
        ("ctl.from_file_relaxed", |s| with_file(s, |p| debian_control::lossless::Control::from_file_relaxed(p).is_ok())),
        ("ctl.changes_from_file", |s| with_file(s, |p| debian_control::lossless::changes::Changes::from_file(p).is_ok())),
        ("ctl.changes_from_file_relaxed", |s| with_file(s, |p| debian_control::lossless::changes::Changes::from_file_relaxed(p).is_ok())),
        ("cpr.from_file", |s| with_file(s, |p| debian_copyright::lossless::Copyright::from_file(p).is_ok())),
        ("cpr.from_file_relaxed", |s| with_file(s, |p| debian_copyright::lossless::Copyright::from_file_relaxed(p).is_ok())),
        // 5. pgp, vcs, identity, typed field values
        ("pgp.strip", |s| debian_control::pgp::strip_pgp_signature(s).is_ok()),
        ("vcs.parsed", |s| debian_control::vcs::ParsedVcs::from_str(s).is_ok()),
        ("vcs.git", |s| debian_control::vcs::Vcs::from_field("Git", s).is_ok()),
        ("vcs.svn", |s| debian_control::vcs::Vcs::from_field("Svn", s).is_ok()),
        ("vcs.bzr", |s| debian_control::vcs::Vcs::from_field("Bzr", s).is_ok()),
        ("vcs.hg", |s| debian_control::vcs::Vcs::from_field("Hg", s).is_ok()),
        ("vcs.cvs", |s| debian_control::vcs::Vcs::from_field("Cvs", s).is_ok()),
        ("vcs.other", |s| debian_control::vcs::Vcs::from_field(s, s).is_ok()),
        ("identity", |s| debian_control::parse_identity(s).is_ok()),
        ("f.priority", |s| debian_control::fields::Priority::from_str(s).is_ok()),
        ("f.multiarch", |s| debian_control::fields::MultiArch::from_str(s).is_ok()),
        ("f.urgency", |s| debian_control::fields::Urgency::from_str(s).is_ok()),
        ("f.md5", |s| debian_control::fields::Md5Checksum::from_str(s).is_ok()),
        ("f.sha1", |s| debian_control::fields::Sha1Checksum::from_str(s).is_ok()),
        ("f.sha256", |s| debian_control::fields::Sha256Checksum::from_str(s).is_ok()),
        ("f.sha512", |s| debian_control::fields::Sha512Checksum::from_str(s).is_ok()),
        ("f.pkglist", |s| debian_control::fields::PackageListEntry::from_str(s).is_ok()),
        ("f.vc", |s| debian_control::relations::VersionConstraint::from_str(s).is_ok()),
        ("f.profile", |s| debian_control::relations::BuildProfile::from_str(s).is_ok()),
        // 6. debian-copyright
        ("cpr.lossless", |s| debian_copyright::lossless::Copyright::from_str(s).is_ok()),
        ("cpr.relaxed", |s| debian_copyright::lossless::Copyright::from_str_relaxed(s).is_ok()),
        ("cpr.lossy", |s| debian_copyright::lossy::Copyright::from_str(s).is_ok()),
        ("cpr.license", |s| debian_copyright::License::from_str(s).is_ok()),
        // 7. dep3, apt-sources
        ("dep3.lossless", |s| dep3::lossless::PatchHeader::from_str(s).is_ok()),
        ("dep3.lossy", |s| dep3::lossy::PatchHeader::from_str(s).is_ok()),
        ("dep3.forwarded", |s| dep3::Forwarded::from_str(s).is_ok()),
        ("dep3.origincat", |s| dep3::OriginCategory::from_str(s).is_ok()),
        ("dep3.origin", |s| dep3::Origin::from_str(s).is_ok()),
        ("dep3.applied", |s| dep3::AppliedUpstream::from_str(s).is_ok()),
        ("apt.repos", |s| apt_sources::Repositories::from_str(s).is_ok()),
        ("apt.type", |s| apt_sources::RepositoryType::from_str(s).is_ok()),
        ("apt.ynf", |s| apt_sources::YesNoForce::from_str(s).is_ok()),
        ("apt.signature", |s| apt_sources::signature::Signature::from_str(s).is_ok()),
    ]
}

/// run `f` on the path of a temporary file holding `text` (one file per worker process)
fn with_file(text: &str, f: fn(&std::path::Path) -> bool) -> bool {
    let path = std::env::temp_dir().join(format!("verif-total-{}", std::process::id()));
    if std::fs::write(&path, text.as_bytes()).is_err() {
        panic!("cannot write {:?}", path);
    }
    let r = f(&path);
    let _ = std::fs::remove_file(&path);
    r
}

/// the nine lossy typed document readers are modelled by `Model/TypedDoc.lean`; their requests carry
/// a third argument, the E column of `typed.<kind>` (answers of the leaf codecs external to the model)
pub fn typed_kind(entry: &str) -> Option<&'static str> {
    Some(match entry {
        "lctl.control" => "control",
        "lctl.release" => "release",
        "lctl.source" => "source",
        "lctl.package" => "package",
        "lctl.buildinfo" => "buildinfo",
        "lctl.removal" => "removal",
        "cpr.lossy" => "copyright",
        "dep3.lossy" => "dep3",
        "apt.repos" => "repos",
        _ => return None,
    })
}

/// emit a `total` request: 3-argument form for the typed document readers, 2-argument form otherwise
fn req_total(out: &mut Out, entry: &str, text: &str) {
    match typed_kind(entry).and_then(|k| crate::typeddoc::ext_column_kind(k, text)) {
        Some(e) => out.req("total", &[entry.to_string(), es(text), e]),
        None => out.req("total", &[entry.to_string(), es(text)]),
    }
}

pub fn handle(op: &str, a: &[&str]) -> Option<Resp> {
    match (op, a) {
        ("total", [entry, t]) | ("total", [entry, t, _]) => {
            let s = ds(t)?;
            let f = entries().into_iter().find(|(n, _)| n == entry)?.1;
            Some(Resp::ok(if f(&s) { "ok".to_string() } else { "err".to_string() }))
        }
        ("total.time", [entry, shape, size, cmp]) | ("total.time", [entry, shape, size, cmp, _]) => {
            // time clause: the call must finish well within a generous bound on large inputs;
            // acceptance class on the large input when `cmp` = 1 (the model answers it too)
            let n: usize = size.parse().ok()?;
            let s = shape_text(shape, n)?;
            let f = entries().into_iter().find(|(n, _)| n == entry)?.1;
            let t0 = std::time::Instant::now();
            let ok = f(&s);
            let dt = t0.elapsed().as_secs_f64();
            let fail = if dt > 10.0 { Some(format!("{} took {:.1}s on {} bytes ({})", entry, dt, s.len(), shape)) } else { None };
            // the observable deliberately excludes the time itself
            let obs = if *cmp == "1" { if ok { "ok" } else { "err" } } else { "done" };
            Some(Resp::with(obs.to_string(), fail))
        }
        _ => None,
    }
}

/// the large inputs of `total.time`: `prefix ++ unit x k ++ suffix`, `k` the least number of
/// repetitions with `k * |unit| >= n` (bytes) -- the same table as `shapeParts` in Driver/Total.lean
pub const SHAPES: [&str; 9] = ["valid", "errors", "long", "value1", "contlines", "archlist", "alts", "pgp", "files"];

fn shape_parts(shape: &str) -> Option<(&'static str, &'static str, &'static str)> {
    Some(match shape {
        // repeated units (no prefix)
        "valid" => ("", "Package: a\nDepends: b (>= 1), c | d [amd64] <x>\n x\n\n", ""),
        "errors" => ("", ":: \u{e9}(([[<<${ -\n", ""),
        "long" => ("", "a", ""),
        // one paragraph with one huge value line
        "value1" => ("Package: a\nDepends: ", "b (>= 1), ", "c\n"),
        // one field with n/3 continuation lines
        "contlines" => ("Package: a\nDescription: x\n", " y\n", ""),
        // one relation with a huge architecture list
        "archlist" => ("a [", "b ", "]"),
        // n/4 alternatives
        "alts" => ("a", " | a", ""),
        // one signed message with n/2 payload lines
        "pgp" => ("-----BEGIN PGP SIGNED MESSAGE-----\nHash: SHA256\n\n", "x\n", "-----BEGIN PGP SIGNATURE-----\nabc\n-----END PGP SIGNATURE-----\n"),
        // a copyright file whose Files field has n/3 patterns
        "files" => ("Format: https://www.debian.org/doc/packaging-manuals/copyright-format/1.0/\n\nFiles: ", "*a ", "\nCopyright: x\nLicense: MIT\n"),
        _ => return None,
    })
}

pub fn shape_text(shape: &str, n: usize) -> Option<String> {
    let (pre, unit, suf) = shape_parts(shape)?;
    let k = (n + unit.len() - 1) / unit.len();
    let mut s = String::with_capacity(pre.len() + k * unit.len() + suf.len());
    s.push_str(pre);
    for _ in 0..k {
        s.push_str(unit);
    }
    s.push_str(suf);
    Some(s)
}

/// is the acceptance class on this large input compared with the model? Not where the Lean model's
/// *representation* is quadratic although its round count is linear (`Props/C02More`): the lossy deb822
/// reader appends every continuation line to a `List Char` accumulator.
fn compared(entry: &str, shape: &str, n: usize) -> bool {
    !(shape == "contlines" && n > 32_000 && LOSSY_DEB.contains(&entry))
}

const LOSSY_DEB: [&str; 12] = [
    "deb.lossy", "deb.lossypara", "deb.lossyreader", "lctl.control", "lctl.release", "lctl.source", "lctl.package", "lctl.buildinfo", "lctl.removal",
    "cpr.lossy", "dep3.lossy", "apt.repos",
];

/// the relation alphabet of generators (b), (c): one character per token class of the relation lexer,
/// plus `-` `.` (identifier characters that are not alphanumeric), tab and CR (blank characters other
/// than the space) and a non-ASCII character
const REL_ALPHABET: [&str; 23] = [
    "a", "1", ":", "|", ",", "(", ")", "[", "]", "!", "<", ">", "=", "$", "{", "}", " ", "\n", "\u{e9}", "\r", "\t", "-", ".",
];
/// the first 18 symbols (the alphabet of earlier runs): enumerated one symbol longer in the thorough tier
const REL_ALPHABET_OLD: usize = 18;

pub fn generate_c02(tier: &str, seed: u64, out: &mut Out) {
    let thorough = tier == "thorough";
    let mut rng = Rng::new(seed);
    let es_all = entries();
    let deb_like: Vec<&str> = es_all
        .iter()
        .map(|e| e.0)
        .filter(|n| n.starts_with("deb.") || n.starts_with("ctl.") || n.starts_with("lctl.") || n.starts_with("cpr.l") || *n == "cpr.relaxed" || n.starts_with("cpr.from_file") || n.starts_with("dep3.lo") || *n == "apt.repos" || *n == "pgp.strip")
        .collect();
    let small: Vec<&str> = es_all.iter().map(|e| e.0).filter(|n| !deb_like.contains(n)).collect();
    // (f) time clause on large inputs (generous bound; only catches blow-ups), and the acceptance
    //     class on them: repeated units and prefix + unit x k + suffix shapes. The requests are
    //     spread over block (b) so that the supervisor's contiguous slices share the slow ones.
    let sizes: &[usize] = if thorough { &[1_000, 32_000, 1_000_000] } else { &[1_000, 32_000, 200_000] };
    let mut time_reqs: Vec<Vec<String>> = vec![];
    for e in es_all.iter() {
        for shape in SHAPES {
            for sz in sizes {
                let cmp = if compared(e.0, shape, *sz) { "1" } else { "0" };
                let mut args = vec![e.0.to_string(), shape.to_string(), sz.to_string(), cmp.to_string()];
                if cmp == "1" {
                    if let Some(k) = typed_kind(e.0) {
                        let text = shape_text(shape, *sz).unwrap();
                        if let Some(col) = crate::typeddoc::ext_column_kind(k, &text) {
                            args.push(col);
                        }
                    }
                }
                time_reqs.push(args);
            }
        }
    }
    let mut next_time = 0usize;
    // (a) deb822-shaped entry points: all strings over the deb822 class alphabet
    for t in strings_upto(&deb::ALPHABET, if thorough { 4 } else { 3 }) {
        for e in &deb_like {
            req_total(out, e, &t);
        }
    }
    // (a2) realistic documents through the deb822-shaped entry points: seeded well-formed documents,
    //      the same with ragged continuation indentation (deeper first, shallower later, tab after
    //      spaces, whitespace-only first continuation line), and single-character mutations of them
    //      (after seeded change C02-r7m1: an offset taken from one line and applied to another)
    {
        let mut docs: Vec<String> = vec![
            "Package: hello\nDescription: example\n  $ hello --greeting\n prints a greeting\n".to_string(),
            "Source: foo\nBuild-Depends:\n    debhelper-compat (= 13),\n  foo,\n bar\n".to_string(),
            "Source: foo\nBuild-Depends:\n        a,\n\tb\n".to_string(),
            "Field: x\n   \n y\n".to_string(),
            "A: b\n\t\t c\n \td\n  e\n f".to_string(),
        ];
        let n = if thorough { 6000 } else { 600 };
        for _ in 0..n {
            let ls = crate::docspec::random_lines(&mut rng, false);
            let t = crate::docspec::render(&ls, rng.chance(80));
            if rng.chance(50) {
                // ragged: every second indentation loses or gains a column
                let mut out_t = String::new();
                for (i, l) in t.split('\n').enumerate() {
                    if i > 0 {
                        out_t.push('\n');
                    }
                    if l.starts_with(' ') && i % 2 == 0 {
                        out_t.push_str(&l[1..]);
                    } else if l.starts_with(' ') {
                        out_t.push_str("  ");
                        out_t.push_str(l);
                    } else {
                        out_t.push_str(l);
                    }
                }
                docs.push(out_t);
            }
            docs.push(t);
        }
        for t in &docs {
            for e in &deb_like {
                req_total(out, e, t);
            }
        }
    }
    // (b) value-shaped entry points: all strings over the relation alphabet
    for (i, t) in strings_upto(&REL_ALPHABET, 3).iter().enumerate() {
        for e in &small {
            req_total(out, e, t);
        }
        if i % 6 == 0 && next_time < time_reqs.len() {
            out.req("total.time", &time_reqs[next_time]);
            next_time += 1;
        }
    }
    if thorough {
        for t in strings_upto(&REL_ALPHABET[..REL_ALPHABET_OLD], 4) {
            if t.chars().count() == 4 {
                for e in &small {
                    req_total(out, e, &t);
                }
            }
        }
    }
    // (b2) realistic values of the value-shaped entry points, with the white-space variants a field
    //      accessor or a hand-written file can deliver (leading / trailing / doubled blanks, tabs,
    //      a line break at either end)
    let vals = [
        "https://salsa.debian.org/foo/bar.git [debian]",
        "https://x/y.git -b main [sub]",
        "https://x/y.git -b main",
        "d41d8cd98f00b204e9800998ecf8427e 0 net optional a_1.0-1.dsc",
        "da39a3ee5e6b4b0d3255bfef95601890afd80709 12 a_1.0-1.dsc",
        "A B <a@b.c>",
        "a deb net optional arch=any profile=!stage1",
        "!nocheck",
        ">=",
        "upstream, commit:abc",
        "not-needed",
        "commit:abc",
        "/usr/share/keyrings/x.gpg",
        "\n-----BEGIN PGP PUBLIC KEY BLOCK-----\n.\nmQ==\n-----END PGP PUBLIC KEY BLOCK-----",
        "GPL-2+\n text",
        "deb-src",
        "force",
        "optional",
        "same",
        "medium",
        "a (>= 1:2~) [!amd64] <!x> | b:any",
    ];
    for v in vals.iter() {
        let variants = [
            v.to_string(),
            format!(" {}", v),
            format!("{} ", v),
            format!("  {}  ", v),
            format!("\t{}", v),
            format!("{}\n", v),
            format!("\n{}", v),
            v.replace(' ', "  "),
            v.replace(' ', "\t"),
        ];
        for t in variants.iter() {
            for e in &small {
                req_total(out, e, &t);
            }
        }
        // every prefix of the value (a flag without its argument, an unclosed bracket, ...), also
        // followed by a blank or a multi-byte character
        let cs: Vec<char> = v.chars().collect();
        for n in 1..cs.len() {
            let pre: String = cs[..n].iter().collect();
            for t in [pre.clone(), format!("{} ", pre), format!("{}\u{e9}", pre)] {
                for e in &small {
                    req_total(out, e, &t);
                }
            }
        }
    }
    // (b3) the generated documents of the typed lossy readers (C20's generator: every field with
    //      every text of its value pool, accepted and rejected, missing fields, structural cases)
    //      through the corresponding entry point
    {
        let mut tmp = Out::new();
        crate::typeddoc::generate_c20("quick", seed, &mut tmp);
        let map = [
            ("typed.control", "lctl.control"),
            ("typed.release", "lctl.release"),
            ("typed.source", "lctl.source"),
            ("typed.package", "lctl.package"),
            ("typed.buildinfo", "lctl.buildinfo"),
            ("typed.removal", "lctl.removal"),
            ("typed.copyright", "cpr.lossy"),
            ("typed.dep3", "dep3.lossy"),
            ("typed.repos", "apt.repos"),
        ];
        let stride = if thorough { 1 } else { 3 };
        for (i, l) in tmp.lines.iter().enumerate() {
            if i % stride != 0 {
                continue;
            }
            let parts: Vec<&str> = l.split('\t').collect();
            if parts.len() != 3 {
                continue;
            }
            if let Some((_, entry)) = map.iter().find(|(op, _)| *op == parts[0]) {
                out.lines.push(format!("total\t{}\t{}\t{}", entry, parts[1], parts[2]));
            }
        }
    }
    // (c) relation strings routed through the composite document readers
    let rels = strings_upto(&REL_ALPHABET, 2);
    for r in &rels {
        let doc = format!("Source: a\nBuild-Depends: {}\n\nPackage: b\nDepends: {}\nDescription: c\n {}\n", r, r, r);
        for e in ["ctl.control", "lctl.control", "ctl.source", "lctl.source", "ctl.package", "lctl.package", "deb.strict", "deb.lossy"] {
            req_total(out, e, &doc);
        }
    }
    // (d) truncations and mutations of realistic documents for every entry point
    let mut seeds: Vec<String> = vec![];
    for p in [
        "/repo/debian-control/src/testdata/InRelease",
        "/repo/bench/Sources",
    ] {
        if let Ok(s) = std::fs::read_to_string(p) {
            seeds.push(s.chars().take(3000).collect());
        }
    }
    seeds.push("Format: https://www.debian.org/doc/packaging-manuals/copyright-format/1.0/\nUpstream-Name: x\n\nFiles: *\nCopyright: 2020 a\nLicense: GPL-2+\n text\n .\n more\n\nLicense: MIT\n text\n".to_string());
    seeds.push("Description: fix\n more\nOrigin: upstream, https://x/y\nBug-Debian: https://bugs.debian.org/1\nForwarded: not-needed\nAuthor: A <a@b>\nLast-Update: 2020-01-01\nApplied-Upstream: 1.2, commit:abc\n".to_string());
    seeds.push("Types: deb deb-src\nURIs: http://a/b https://c/d\nSuites: stable\nComponents: main contrib\nSigned-By: /usr/share/keyrings/x.gpg\nEnabled: yes\n\nTypes: deb\nURIs: http://e\nSuites: s/\nTrusted: force\n".to_string());
    seeds.push("Source: a\nSection: net\nPriority: optional\nMaintainer: A B <a@b.c>\nBuild-Depends: debhelper-compat (= 13), x [!amd64] <!nocheck> | y:any (>> 1:2~)\nVcs-Git: https://x/y.git -b main [sub]\nRules-Requires-Root: no\n\nPackage: a\nArchitecture: any\nMulti-Arch: same\nDepends: ${misc:Depends}, b (<< 2)\nDescription: short\n long\n .\n more\n".to_string());
    seeds.push("Format: 1.8\nDate: Mon, 01 Jan 2020 00:00:00 +0000\nSource: a\nBinary: a\nArchitecture: source\nVersion: 1.0-1\nDistribution: unstable\nUrgency: medium\nMaintainer: A <a@b>\nChanged-By: A <a@b>\nChanges:\n a (1.0-1) unstable; urgency=medium\n .\n   * x\nChecksums-Sha1:\n da39a3ee5e6b4b0d3255bfef95601890afd80709 0 a_1.0-1.dsc\nChecksums-Sha256:\n e3b0c44298fc1c149afbf4c8996fb92427ae41e4649b934ca495991b7852b855 0 a_1.0-1.dsc\nFiles:\n d41d8cd98f00b204e9800998ecf8427e 0 net optional a_1.0-1.dsc\n".to_string());
    let n = if thorough { 60 } else { 12 };
    for s in &seeds {
        let chars: Vec<char> = s.chars().collect();
        for _ in 0..n {
            let cut = rng.below(chars.len() + 1);
            let mut t: String = chars[..cut].iter().collect();
            if rng.chance(50) {
                t = deb::mutate(&mut rng, &t);
            }
            for e in es_all.iter() {
                req_total(out, e.0, &t);
            }
        }
        for e in es_all.iter() {
            req_total(out, e.0, &s);
        }
    }
    // (e) unterminated groups at every nesting, through the relation entry points
    for open in ["(", "[", "<", "${", "a (", "a [", "a <", "a (>= ", "a [!", "a <!", "a | ", "a, ", "a:"] {
        for tail in ["", "b", " ", "\n", "b c", "((", "[[", "<<", "${", ")", "]", ">", "}"] {
            let t = format!("{}{}", open, tail);
            for e in small.iter().filter(|n| n.starts_with("rel.") || n.starts_with("lrel.")) {
                req_total(out, e, &t);
            }
        }
    }
    // (f) the rest of the large-input requests (see `time_reqs` above)
    while next_time < time_reqs.len() {
        out.req("total.time", &time_reqs[next_time]);
        next_time += 1;
    }
}
