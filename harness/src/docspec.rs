//! The deb822 grammar of C03 as data (mirror of lean/Deb822Verif/Spec/DocGrammar.lean):
//! line lists, their rendering, the content a reader must expose, and generators.
use crate::util::*;

#[derive(Clone, Debug, PartialEq)]
pub enum Line {
    Blank,
    Comment(String),
    Field(String, String, String),
    Cont(String, String),
    Raw(String),
}

impl Line {
    pub fn text(&self) -> String {
        match self {
            Line::Blank => String::new(),
            Line::Comment(t) => format!("#{}", t),
            Line::Field(k, w, v) => format!("{}:{}{}", k, w, v),
            Line::Cont(i, v) => format!("{}{}", i, v),
            Line::Raw(t) => t.clone(),
        }
    }
    pub fn enc(&self) -> String {
        match self {
            Line::Blank => "b".to_string(),
            Line::Comment(t) => format!("c.{}", es(t)),
            Line::Field(k, w, v) => format!("f.{}.{}.{}", es(k), es(w), es(v)),
            Line::Cont(i, v) => format!("k.{}.{}", es(i), es(v)),
            Line::Raw(t) => format!("r.{}", es(t)),
        }
    }
}

pub fn enc_lines(ls: &[Line]) -> String {
    ls.iter().map(|l| l.enc()).collect::<Vec<_>>().join(",")
}

pub fn dec_lines(f: &str) -> Option<Vec<Line>> {
    if f.is_empty() {
        return Some(vec![]);
    }
    f.split(',')
        .map(|l| {
            let p: Vec<&str> = l.split('.').collect();
            match p.as_slice() {
                ["b"] => Some(Line::Blank),
                ["c", t] => Some(Line::Comment(ds(t)?)),
                ["f", k, w, v] => Some(Line::Field(ds(k)?, ds(w)?, ds(v)?)),
                ["k", i, v] => Some(Line::Cont(ds(i)?, ds(v)?)),
                ["r", t] => Some(Line::Raw(ds(t)?)),
                _ => None,
            }
        })
        .collect()
}

pub fn render(ls: &[Line], final_newline: bool) -> String {
    let mut s = String::new();
    for (i, l) in ls.iter().enumerate() {
        s.push_str(&l.text());
        if i + 1 < ls.len() || final_newline {
            s.push('\n');
        }
    }
    s
}

/// paragraphs x (name, value); value = its non-empty lines joined by "\n"
pub fn content(ls: &[Line]) -> Vec<Vec<(String, String)>> {
    let mut done: Vec<Vec<(String, Vec<String>)>> = vec![];
    let mut cur: Vec<(String, Vec<String>)> = vec![];
    for l in ls {
        match l {
            Line::Blank => {
                if !cur.is_empty() {
                    done.push(std::mem::take(&mut cur));
                }
            }
            Line::Comment(_) | Line::Raw(_) => {}
            Line::Field(k, _, v) => cur.push((k.clone(), if v.is_empty() { vec![] } else { vec![v.clone()] })),
            Line::Cont(_, v) => {
                if let Some(last) = cur.last_mut() {
                    if !v.is_empty() {
                        last.1.push(v.clone());
                    }
                }
            }
        }
    }
    if !cur.is_empty() {
        done.push(cur);
    }
    done.into_iter()
        .map(|p| p.into_iter().map(|(k, ls)| (k, ls.join("\n"))).collect())
        .collect()
}

fn is_indent(c: char) -> bool {
    c == ' ' || c == '\t'
}
fn is_nl(c: char) -> bool {
    c == '\n' || c == '\r'
}
pub fn valid_key(k: &str) -> bool {
    let mut cs = k.chars();
    match cs.next() {
        None => false,
        Some(c) => {
            c != '-' && c != '#' && c.is_ascii_graphic() && c != ':' && cs.all(|c| c.is_ascii_graphic() && c != ':')
        }
    }
}

/// the domain of C03 (well-formed documents). Raw lines are never well-formed.
pub fn wf(ls: &[Line]) -> bool {
    let mut prev_fieldish = false;
    for l in ls {
        match l {
            Line::Blank => prev_fieldish = false,
            Line::Comment(t) => {
                if t.chars().any(is_nl) {
                    return false;
                }
                prev_fieldish = false;
            }
            Line::Field(k, w, v) => {
                if !valid_key(k) || !w.chars().all(is_indent) || v.chars().any(is_nl) {
                    return false;
                }
                if v.chars().next().map(is_indent).unwrap_or(false) {
                    return false;
                }
                prev_fieldish = true;
            }
            Line::Cont(i, v) => {
                if !prev_fieldish || i.is_empty() || !i.chars().all(is_indent) || v.is_empty() || v.chars().any(is_nl) {
                    return false;
                }
                let c = v.chars().next().unwrap();
                if is_indent(c) || c == '#' {
                    return false;
                }
            }
            Line::Raw(_) => return false,
        }
    }
    true
}

/// well-formed once the raw (corrupted) lines are set aside; a raw line does not interrupt a
/// field/continuation group for this purpose only if removing it keeps the rest well-formed
pub fn wf_ignoring_raw(ls: &[Line]) -> bool {
    // the corrupted line replaces or is inserted before line i: the remaining lines must form a
    // well-formed document both with the raw line removed and with continuation lines after it
    // re-attached (a continuation directly after the corrupted line has nothing to continue, so
    // such documents are excluded from the rejection clause)
    let mut prev_raw = false;
    for l in ls {
        if let Line::Cont(_, _) = l {
            if prev_raw {
                return false;
            }
        }
        prev_raw = matches!(l, Line::Raw(_));
    }
    let rest: Vec<Line> = ls.iter().filter(|l| !matches!(l, Line::Raw(_))).cloned().collect();
    wf(&rest)
}

pub const KEYS: [&str; 10] = ["A", "Source", "X-Y", "~k", "a1", "Foo_bar", "!b#c", "A", "a", "SOURCE"];
pub const FIRSTS: [&str; 12] = ["b", "1.0-1", "é 😀", "x: y", "a # b", "", "foo, ", ":c", "#d", "\u{a0}José", "\u{3000}x\u{b}", "\u{feff}y"];
pub const CONTS: [&str; 11] = ["b", ".", "é 😀", "x: y", "a # b", "foo,", "~ ", "-- ", "\u{a0}z", "\u{c}w", "\u{2028}v"];
pub const WSS: [&str; 5] = ["", " ", "  ", "\t", " \t"];
pub const INDENTS: [&str; 4] = [" ", "  ", "\t", " \t "];
pub const COMMENTS: [&str; 4] = ["", " c", " A: b", "#"];

pub fn random_field(rng: &mut Rng, out: &mut Vec<Line>, colon_conts: bool) {
    out.push(Line::Field(
        rng.pick(&KEYS).to_string(),
        rng.pick(&WSS).to_string(),
        rng.pick(&FIRSTS).to_string(),
    ));
    for _ in 0..rng.below(3) {
        let v = if colon_conts && rng.chance(8) { ":x".to_string() } else { rng.pick(&CONTS).to_string() };
        out.push(Line::Cont(rng.pick(&INDENTS).to_string(), v));
    }
}

/// a random well-formed document
pub fn random_lines(rng: &mut Rng, colon_conts: bool) -> Vec<Line> {
    let mut ls = vec![];
    for _ in 0..rng.below(3) {
        if rng.chance(50) {
            ls.push(Line::Blank)
        } else {
            ls.push(Line::Comment(rng.pick(&COMMENTS).to_string()))
        }
    }
    let np = rng.below(4);
    for p in 0..np {
        if p > 0 {
            ls.push(Line::Blank);
            for _ in 0..rng.below(3) {
                if rng.chance(60) {
                    ls.push(Line::Blank)
                } else {
                    ls.push(Line::Comment(rng.pick(&COMMENTS).to_string()))
                }
            }
        }
        for _ in 0..1 + rng.below(4) {
            if rng.chance(20) {
                ls.push(Line::Comment(rng.pick(&COMMENTS).to_string()));
            }
            random_field(rng, &mut ls, colon_conts);
        }
        if rng.chance(15) {
            ls.push(Line::Comment(rng.pick(&COMMENTS).to_string()));
        }
    }
    for _ in 0..rng.below(3) {
        if rng.chance(60) {
            ls.push(Line::Blank)
        } else {
            ls.push(Line::Comment(rng.pick(&COMMENTS).to_string()))
        }
    }
    ls
}

/// orphan continuation lines: indentation followed by text, with no field to continue. They are
/// corrupt (rejected) as the first line of the document or directly after a blank line.
pub const ORPHAN_LINES: [&str; 7] = [" x", "\tfoo: bar", "  .", " \t é", " Source: a", " -", "  a b"];

/// position rule for a corrupted line that begins with indentation: it must be the first line or
/// directly follow a blank line (after a field it would be a continuation line, after a comment
/// line it is the unsupported 'comment inside a value' construct), its text must be non-empty and
/// must not begin with '#'.
pub fn raw_positions_ok(ls: &[Line]) -> bool {
    for (i, l) in ls.iter().enumerate() {
        if let Line::Raw(t) = l {
            if t.chars().next().map(is_indent).unwrap_or(false) {
                let rest = t.trim_start_matches(is_indent);
                if rest.is_empty() || rest.starts_with('#') || rest.chars().any(is_nl) {
                    return false;
                }
                if i > 0 && ls[i - 1] != Line::Blank {
                    return false;
                }
            }
        }
    }
    true
}

pub const BAD_LINES: [&str; 8] = ["foo", "-x: y", "é: x", ": x", "a b: c", "~", "=", "Ünï: x"];
