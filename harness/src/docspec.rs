//! The deb822 grammar of C03 as data (mirror of lean/Deb822Verif/Spec/DocGrammar.lean):
//! line lists, their rendering, the content a reader must expose, and generators.
use crate::util::*;

#[derive(Clone, Debug, PartialEq)]
pub enum Line {
    Blank,
    Comment(String),
    Field(String, String, String),
    Cont(String, String),
    Raw(String),
}

impl Line {
    pub fn text(&self) -> String {
        match self {
            Line::Blank => String::new(),
            Line::Comment(t) => format!("#{}", t),
            Line::Field(k, w, v) => format!("{}:{}{}", k, w, v),
            Line::Cont(i, v) => format!("{}{}", i, v),
            Line::Raw(t) => t.clone(),
        }
    }
    pub fn enc(&self) -> String {
        match self {
            Line::Blank => "b".to_string(),
            Line::Comment(t) => format!("c.{}", es(t)),
            Line::Field(k, w, v) => format!("f.{}.{}.{}", es(k), es(w), es(v)),
            Line::Cont(i, v) => format!("k.{}.{}", es(i), es(v)),
            Line::Raw(t) => format!("r.{}", es(t)),
        }
    }
}

pub fn enc_lines(ls: &[Line]) -> String {
    ls.iter().map(|l| l.enc()).collect::<Vec<_>>().join(",")
}

pub fn dec_lines(f: &str) -> Option<Vec<Line>> {
    if f.is_empty() {
        return Some(vec![]);
    }
    f.split(',')
        .map(|l| {
            let p: Vec<&str> = l.split('.').collect();
            match p.as_slice() {
                ["b"] => Some(Line::Blank),
                ["c", t] => Some(Line::Comment(ds(t)?)),
                ["f", k, w, v] => Some(Line::Field(ds(k)?, ds(w)?, ds(v)?)),
                ["k", i, v] => Some(Line::Cont(ds(i)?, ds(v)?)),
                ["r", t] => Some(Line::Raw(ds(t)?)),
                _ => None,
            }
        })
        .collect()
}

pub fn render(ls: &[Line], final_newline: bool) -> String {
    let mut s = String::new();
    for (i, l) in ls.iter().enumerate() {
        s.push_str(&l.text());
        if i + 1 < ls.len() || final_newline {
            s.push('\n');
        }
    }
    s
}

/// paragraphs x (name, value); value = its non-empty lines joined by "\n"
pub fn content(ls: &[Line]) -> Vec<Vec<(String, String)>> {
    let mut done: Vec<Vec<(String, Vec<String>)>> = vec![];
    let mut cur: Vec<(String, Vec<String>)> = vec![];
    for l in ls {
        match l {
            Line::Blank => {
                if !cur.is_empty() {
                    done.push(std::mem::take(&mut cur));
                }
            }
            Line::Comment(_) | Line::Raw(_) => {}
            Line::Field(k, _, v) => cur.push((k.clone(), if v.is_empty() { vec![] } else { vec![v.clone()] })),
            Line::Cont(_, v) => {
                if let Some(last) = cur.last_mut() {
                    if !v.is_empty() {
                        last.1.push(v.clone());
                    }
                }
            }
        }
    }
    if !cur.is_empty() {
        done.push(cur);
    }
    done.into_iter()
        .map(|p| p.into_iter().map(|(k, ls)| (k, ls.join("\n"))).collect())
        .collect()
}

fn is_indent(c: char) -> bool {
    c == ' ' || c == '\t'
}
fn is_nl(c: char) -> bool {
    c == '\n' || c == '\r'
}
pub fn valid_key(k: &str) -> bool {
    let mut cs = k.chars();
    match cs.next() {
        None => false,
        Some(c) => {
            c != '-' && c != '#' && c.is_ascii_graphic() && c != ':' && cs.all(|c| c.is_ascii_graphic() && c != ':')
        }
    }
}

/// the domain of C03 (well-formed documents). Raw lines are never well-formed.
pub fn wf(ls: &[Line]) -> bool {
    let mut prev_fieldish = false;
    for l in ls {
        match l {
            Line::Blank => prev_fieldish = false,
            Line::Comment(t) => {
                if t.chars().any(is_nl) {
                    return false;
                }
                prev_fieldish = false;
            }
            Line::Field(k, w, v) => {
                if !valid_key(k) || !w.chars().all(is_indent) || v.chars().any(is_nl) {
                    return false;
                }
                if v.chars().next().map(is_indent).unwrap_or(false) {
                    return false;
                }
                prev_fieldish = true;
            }
            Line::Cont(i, v) => {
                if !prev_fieldish || i.is_empty() || !i.chars().all(is_indent) || v.is_empty() || v.chars().any(is_nl) {
                    return false;
                }
                let c = v.chars().next().unwrap();
                if is_indent(c) || c == '#' {
                    return false;
                }
            }
            Line::Raw(_) => return false,
        }
    }
    true
}

pub const KEYS: [&str; 10] = ["A", "Source", "X-Y", "~k", "a1", "Foo_bar", "!b#c", "A", "a", "SOURCE"];
pub const FIRSTS: [&str; 12] = ["b", "1.0-1", "é 😀", "x: y", "a # b", "", "foo, ", ":c", "#d", "\u{a0}José", "\u{3000}x\u{b}", "\u{feff}y"];
pub const CONTS: [&str; 11] = ["b", ".", "é 😀", "x: y", "a # b", "foo,", "~ ", "-- ", "\u{a0}z", "\u{c}w", "\u{2028}v"];
pub const WSS: [&str; 5] = ["", " ", "  ", "\t", " \t"];
pub const INDENTS: [&str; 4] = [" ", "  ", "\t", " \t "];
pub const COMMENTS: [&str; 4] = ["", " c", " A: b", "#"];

pub fn random_field(rng: &mut Rng, out: &mut Vec<Line>, colon_conts: bool) {
    out.push(Line::Field(
        rng.pick(&KEYS).to_string(),
        rng.pick(&WSS).to_string(),
        rng.pick(&FIRSTS).to_string(),
    ));
    for _ in 0..rng.below(3) {
        let v = if colon_conts && rng.chance(8) { ":x".to_string() } else { rng.pick(&CONTS).to_string() };
        out.push(Line::Cont(rng.pick(&INDENTS).to_string(), v));
    }
}

/// a random well-formed document
pub fn random_lines(rng: &mut Rng, colon_conts: bool) -> Vec<Line> {
    let mut ls = vec![];
    for _ in 0..rng.below(3) {
        if rng.chance(50) {
            ls.push(Line::Blank)
        } else {
            ls.push(Line::Comment(rng.pick(&COMMENTS).to_string()))
        }
    }
    let np = rng.below(4);
    for p in 0..np {
        if p > 0 {
            ls.push(Line::Blank);
            for _ in 0..rng.below(3) {
                if rng.chance(60) {
                    ls.push(Line::Blank)
                } else {
                    ls.push(Line::Comment(rng.pick(&COMMENTS).to_string()))
                }
            }
        }
        for _ in 0..1 + rng.below(4) {
            if rng.chance(20) {
                ls.push(Line::Comment(rng.pick(&COMMENTS).to_string()));
            }
            random_field(rng, &mut ls, colon_conts);
        }
        if rng.chance(15) {
            ls.push(Line::Comment(rng.pick(&COMMENTS).to_string()));
        }
    }
    for _ in 0..rng.below(3) {
        if rng.chance(60) {
            ls.push(Line::Blank)
        } else {
            ls.push(Line::Comment(rng.pick(&COMMENTS).to_string()))
        }
    }
    ls
}

/// orphan continuation lines: indentation followed by text, with no field to continue. They are
/// corrupt (rejected) as the first line of the document, directly after a blank line or after a
/// comment line; after a field / continuation line they continue the value (`lenient` decides).
pub const ORPHAN_LINES: [&str; 7] = [" x", "\tfoo: bar", "  .", " \t é", " Source: a", " -", "  a b"];

/// `BadLine`s (neither empty, comment, indented, field nor spaced-colon line): rejected at any
/// position of any document (C03_reject_replace / C03_reject_insert)
pub const BAD_LINES: [&str; 8] = ["foo", "-x: y", "é: x", ": x", "a b: c", "~", "=", "Ünï: x"];

/// lines the strict lossless reader accepts although the stated grammar (`wf`) has no such line:
/// white-space-only lines and field lines with blanks before the colon. Placed at every position
/// of small documents; the oracle for them is `lenient`.
pub const LENIENT_LINES: [&str; 6] = [" ", "\t", " \t ", "A : b", "A\t: b", "A :"];

/// the kind of a CR/LF-free line (mirror of `lineClass`, lean/Deb822Verif/Lemmas/DocLinesClass.lean)
#[derive(Clone, Debug, PartialEq)]
pub enum LineClass {
    Empty,
    Comment,
    WsOnly,
    /// indentation, then text (the text, indentation removed)
    Indented(String),
    /// `NAME:` or `NAME` blanks `:` (name, text after the colon)
    Field(String, String),
    Bad,
}

fn is_initial_key_char(c: char) -> bool {
    c.is_ascii_graphic() && c != '-' && c != '#' && c != ':'
}
fn is_key_char(c: char) -> bool {
    c.is_ascii_graphic() && c != ':'
}

pub fn line_class(l: &str) -> LineClass {
    let c = match l.chars().next() {
        None => return LineClass::Empty,
        Some(c) => c,
    };
    if c == '#' {
        return LineClass::Comment;
    }
    if is_indent(c) {
        let rest = l.trim_start_matches(is_indent);
        return if rest.is_empty() { LineClass::WsOnly } else { LineClass::Indented(rest.to_string()) };
    }
    if !is_initial_key_char(c) {
        return LineClass::Bad;
    }
    let tail = &l[c.len_utf8()..];
    let after_name = tail.trim_start_matches(is_key_char);
    let name = &l[..l.len() - after_name.len()];
    // `NAME:` (field line) or `NAME` blanks `:` (spaced-colon line); anything else is a BadLine
    let after_ws = after_name.trim_start_matches(is_indent);
    match after_ws.strip_prefix(':') {
        Some(v) => LineClass::Field(name.to_string(), v.to_string()),
        None => LineClass::Bad,
    }
}

/// The lenient line grammar of the strict lossless reader (`Deb822::from_str`), decided line by
/// line. `None`: the document must be rejected; `Some(content)`: it must be accepted with exactly
/// this content (paragraphs x (name, value)). The lines must be CR/LF free.
/// `prev`: a value can be continued (the previous line is a field line, a continuation line, a
/// white-space-only line or an indented '#' line).
pub fn lenient(lines: &[String]) -> Option<Vec<Vec<(String, String)>>> {
    let mut done: Vec<Vec<(String, Vec<String>)>> = vec![];
    let mut cur: Vec<(String, Vec<String>)> = vec![];
    let mut prev = false;
    for l in lines {
        match line_class(l) {
            LineClass::Empty => {
                if !cur.is_empty() {
                    done.push(std::mem::take(&mut cur));
                }
                prev = false;
            }
            LineClass::Comment => prev = false,
            LineClass::Field(k, v) => {
                let v = v.trim_start_matches(is_indent);
                cur.push((k, if v.is_empty() { vec![] } else { vec![v.to_string()] }));
                prev = true;
            }
            LineClass::WsOnly => {
                if !prev {
                    return None;
                }
            }
            LineClass::Indented(rest) => {
                if !prev {
                    return None;
                }
                if !rest.starts_with('#') {
                    cur.last_mut()?.1.push(rest);
                }
            }
            LineClass::Bad => return None,
        }
    }
    if !cur.is_empty() {
        done.push(cur);
    }
    Some(
        done.into_iter()
            .map(|p| p.into_iter().map(|(k, ls)| (k, ls.join("\n"))).collect())
            .collect(),
    )
}

/// the lines of a rendered document as the reader sees them (an unterminated empty last line is no
/// line at all); `None` if a line contains CR or LF
pub fn text_lines(ls: &[Line], final_newline: bool) -> Option<Vec<String>> {
    let mut v: Vec<String> = ls.iter().map(|l| l.text()).collect();
    if v.iter().any(|l| l.chars().any(is_nl)) {
        return None;
    }
    if !final_newline && v.last().map(|l| l.is_empty()).unwrap_or(false) {
        v.pop();
    }
    Some(v)
}
