//! Encoding helpers for the line protocol and the single PRNG all generators draw from.

pub fn hex(bytes: &[u8]) -> String {
    const D: &[u8; 16] = b"0123456789abcdef";
    let mut s = String::with_capacity(bytes.len() * 2);
    for b in bytes {
        s.push(D[(b >> 4) as usize] as char);
        s.push(D[(b & 15) as usize] as char);
    }
    s
}

/// string -> `x<hex>`
pub fn es(s: &str) -> String {
    format!("x{}", hex(s.as_bytes()))
}

pub fn eopt(s: Option<&str>) -> String {
    match s {
        Some(s) => es(s),
        None => "none".to_string(),
    }
}

pub fn elist<S: AsRef<str>>(l: &[S]) -> String {
    l.iter().map(|s| es(s.as_ref())).collect::<Vec<_>>().join(",")
}

pub fn ebool(b: bool) -> &'static str {
    if b {
        "1"
    } else {
        "0"
    }
}

pub fn ds(h: &str) -> Option<String> {
    let h = h.strip_prefix('x')?;
    if h.len() % 2 != 0 {
        return None;
    }
    let mut out = Vec::with_capacity(h.len() / 2);
    let b = h.as_bytes();
    for i in (0..b.len()).step_by(2) {
        let v = |c: u8| -> Option<u8> {
            match c {
                b'0'..=b'9' => Some(c - b'0'),
                b'a'..=b'f' => Some(c - b'a' + 10),
                b'A'..=b'F' => Some(c - b'A' + 10),
                _ => None,
            }
        };
        out.push(v(b[i])? * 16 + v(b[i + 1])?);
    }
    String::from_utf8(out).ok()
}

/// `x<hex>` -> raw bytes (not required to be UTF-8)
pub fn dbytes(h: &str) -> Option<Vec<u8>> {
    let h = h.strip_prefix('x')?;
    if h.len() % 2 != 0 {
        return None;
    }
    let v = |c: u8| -> Option<u8> {
        match c {
            b'0'..=b'9' => Some(c - b'0'),
            b'a'..=b'f' => Some(c - b'a' + 10),
            _ => None,
        }
    };
    let b = h.as_bytes();
    (0..b.len()).step_by(2).map(|i| Some(v(b[i])? * 16 + v(b[i + 1])?)).collect()
}

pub fn dlist(f: &str) -> Option<Vec<String>> {
    if f.is_empty() {
        return Some(vec![]);
    }
    f.split(',').map(ds).collect()
}

/// SplitMix64: every random choice of every generator comes from one stream seeded by VERIF_SEED.
pub struct Rng(pub u64);
impl Rng {
    pub fn new(seed: u64) -> Self {
        Rng(seed.wrapping_mul(0x9E3779B97F4A7C15).wrapping_add(0x1234567))
    }
    pub fn next(&mut self) -> u64 {
        self.0 = self.0.wrapping_add(0x9E3779B97F4A7C15);
        let mut z = self.0;
        z = (z ^ (z >> 30)).wrapping_mul(0xBF58476D1CE4E5B9);
        z = (z ^ (z >> 27)).wrapping_mul(0x94D049BB133111EB);
        z ^ (z >> 31)
    }
    pub fn below(&mut self, n: usize) -> usize {
        if n == 0 {
            0
        } else {
            (self.next() % n as u64) as usize
        }
    }
    pub fn chance(&mut self, pct: usize) -> bool {
        self.below(100) < pct
    }
    pub fn pick<'a, T>(&mut self, v: &'a [T]) -> &'a T {
        &v[self.below(v.len())]
    }
}

/// all lists over `pool` of length 0..=max
pub fn lists_upto<T: Clone>(pool: &[T], max: usize) -> Vec<Vec<T>> {
    let mut out: Vec<Vec<T>> = vec![vec![]];
    let mut layer: Vec<Vec<T>> = vec![vec![]];
    for _ in 0..max {
        let mut next = vec![];
        for l in &layer {
            for p in pool {
                let mut n = l.clone();
                n.push(p.clone());
                next.push(n);
            }
        }
        out.extend(next.iter().cloned());
        layer = next;
    }
    out
}

/// all strings over `alphabet` with length 0..=max
pub fn strings_upto(alphabet: &[&str], max: usize) -> Vec<String> {
    lists_upto(alphabet, max).into_iter().map(|l| l.concat()).collect()
}

pub struct Out {
    pub lines: Vec<String>,
    /// `harness gen`: write the requests to stdout in blocks instead of holding millions of lines
    /// (the thorough tier of some generators would otherwise reach the address-space limit)
    stream: bool,
}
impl Out {
    pub fn new() -> Self {
        Out { lines: vec![], stream: false }
    }
    pub fn streaming() -> Self {
        Out { lines: vec![], stream: true }
    }
    pub fn flush(&mut self) {
        use std::io::Write;
        let stdout = std::io::stdout();
        let mut w = std::io::BufWriter::new(stdout.lock());
        for l in self.lines.drain(..) {
            writeln!(w, "{}", l).unwrap();
        }
        w.flush().unwrap();
    }
    pub fn req(&mut self, op: &str, args: &[String]) {
        let mut l = String::from(op);
        for a in args {
            l.push('\t');
            l.push_str(a);
        }
        self.lines.push(l);
        if self.stream && self.lines.len() >= 1 << 16 {
            self.flush();
        }
    }
}
