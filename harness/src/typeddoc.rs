//! C20: typed lossy documents are stable under print/reparse and match the lossless view.
//!
//! op `typed.<kind> <text> <E>` with kind one of
//!   control   debian_control::lossy::Control            (lossless Deb822 reader + Source/Binary)
//!   copyright debian_copyright::lossy::Copyright        (`Format:` gate, lossless reader, Header/Files/License)
//!   release   debian_control::lossy::apt::Release       (lossy Paragraph reader; no FromStr/Display in the crate: composed)
//!   source    debian_control::lossy::apt::Source        (lossy Paragraph reader)
//!   package   debian_control::lossy::apt::Package       (lossy Paragraph reader)
//!   removal   debian_control::lossy::ftpmaster::Removal (lossless Paragraph reader; print composed: lossy paragraph)
//!   dep3      dep3::lossy::PatchHeader                  (lossless Paragraph reader, From/Subject fall-backs)
//!   repos     apt_sources::Repositories                 (lossless Deb822 reader, one Repository per paragraph)
//!   buildinfo debian_control::lossy::buildinfo::Buildinfo (lossless Paragraph reader; print composed) — extra, not in the property's list
//! response: `p1=<V|err …> t1=<x…|-> p2=<same|V|err …|-> t2=<same|x…|-> ll=<same|diff|err|->`
//!   V   = the structs of the value, each `id:[K]:[V]` (its to_paragraph items), joined by `;`
//!   err = `err reader` when the deb822 reader itself rejects the text, else `err x<exact message>`
//!   ll  = (lossy-reader kinds) the value obtained from the lossless reader on the same text
//! E: answers of the leaf codecs external to the Lean model, `x<key>:x<text>:o<hex>|e<hex>` joined by `,`.
//!
//! Worker-side oracle (the property): p2 = p1 and t2 = t1; ll = same on text
//! both readers accept; apt Package: the typed lossless accessor shows the same Description-md5.
use crate::derive::{external_for_key, struct_row, LL, LP};
use crate::util::*;
use crate::Resp;
use deb822_lossless::{FromDeb822Paragraph, ToDeb822Paragraph};
use std::str::FromStr;

fn items_lp(p: &LP) -> Vec<(String, String)> {
    p.iter().map(|(k, v)| (k.to_string(), v.to_string())).collect()
}

fn show_struct(id: &str, items: &[(String, String)]) -> String {
    format!(
        "{}:[{}]:[{}]",
        id,
        elist(&items.iter().map(|x| x.0.clone()).collect::<Vec<_>>()),
        elist(&items.iter().map(|x| x.1.clone()).collect::<Vec<_>>())
    )
}

/// a parsed value: its structs (id, to_paragraph items) in print order, and its printed text
pub struct TV {
    pub structs: Vec<(&'static str, Vec<(String, String)>)>,
    pub text: String,
}
impl TV {
    fn show(&self) -> String {
        if self.structs.is_empty() {
            return "empty".to_string();
        }
        self.structs.iter().map(|(id, it)| show_struct(id, it)).collect::<Vec<_>>().join(";")
    }
}

#[derive(Debug, PartialEq)]
pub enum PErr {
    Reader,
    Msg(String),
}
fn show_err(e: &PErr) -> String {
    match e {
        PErr::Reader => "err reader".to_string(),
        PErr::Msg(m) => format!("err {}", es(m)),
    }
}

fn lossless_doc_ok(t: &str) -> bool {
    deb822_lossless::Deb822::from_str(t).is_ok()
}

fn lp_text<T: ToDeb822Paragraph<LP>>(v: &T) -> (Vec<(String, String)>, String) {
    let p: LP = v.to_paragraph();
    (items_lp(&p), p.to_string())
}

pub fn parse_kind(kind: &str, t: &str) -> Option<Result<TV, PErr>> {
    use debian_control::lossy::apt;
    Some(match kind {
        "control" => match debian_control::lossy::Control::from_str(t) {
            Ok(c) => {
                let mut structs = vec![("control.Source", lp_text(&c.source).0)];
                for b in &c.binaries {
                    structs.push(("control.Binary", lp_text(b).0));
                }
                Ok(TV { structs, text: c.to_string() })
            }
            Err(_) if !lossless_doc_ok(t) => Err(PErr::Reader),
            Err(m) => Err(PErr::Msg(m)),
        },
        "copyright" => match debian_copyright::lossy::Copyright::from_str(t) {
            Ok(c) => {
                let mut structs = vec![("debiancopyright.Header", lp_text(&c.header).0)];
                for f in &c.files {
                    structs.push(("debiancopyright.FilesParagraph", lp_text(f).0));
                }
                for l in &c.licenses {
                    structs.push(("debiancopyright.LicenseParagraph", lp_text(l).0));
                }
                Ok(TV { structs, text: c.to_string() })
            }
            Err(m) if m == "Not machine readable" => Err(PErr::Msg(m)),
            Err(_) if !lossless_doc_ok(t) => Err(PErr::Reader),
            Err(m) => Err(PErr::Msg(m)),
        },
        "release" => match LP::from_str(t) {
            Err(e) => Err(PErr::Msg(e.to_string())),
            Ok(p) => match apt::Release::from_paragraph(&p) {
                Ok(v) => {
                    let (it, text) = lp_text(&v);
                    Ok(TV { structs: vec![("apt.Release", it)], text })
                }
                Err(m) => Err(PErr::Msg(m)),
            },
        },
        "source" => match apt::Source::from_str(t) {
            Ok(v) => Ok(TV { structs: vec![("apt.Source", lp_text(&v).0)], text: v.to_string() }),
            Err(m) => Err(PErr::Msg(m)),
        },
        "package" => match apt::Package::from_str(t) {
            Ok(v) => Ok(TV { structs: vec![("apt.Package", lp_text(&v).0)], text: v.to_string() }),
            Err(m) => Err(PErr::Msg(m)),
        },
        "removal" => match debian_control::lossy::ftpmaster::Removal::from_str(t) {
            Ok(v) => {
                let (it, text) = lp_text(&v);
                Ok(TV { structs: vec![("ftpmaster.Removal", it)], text })
            }
            Err(_) if !lossless_doc_ok(t) => Err(PErr::Reader),
            Err(m) => Err(PErr::Msg(m)),
        },
        "dep3" => match dep3::lossy::PatchHeader::from_str(t) {
            Ok(v) => Ok(TV { structs: vec![("dep3.PatchHeader", lp_text(&v).0)], text: v.to_string() }),
            Err(_) if !lossless_doc_ok(t) => Err(PErr::Reader),
            Err(m) => Err(PErr::Msg(m)),
        },
        "repos" => match apt_sources::Repositories::from_str(t) {
            Ok(v) => {
                let structs = v.iter().map(|r| ("aptsources.Repository", lp_text(r).0)).collect();
                Ok(TV { structs, text: v.to_string() })
            }
            Err(_) if !lossless_doc_ok(t) => Err(PErr::Reader),
            Err(m) => Err(PErr::Msg(m)),
        },
        "buildinfo" => match debian_control::lossy::buildinfo::Buildinfo::from_str(t) {
            Ok(v) => {
                let (it, text) = lp_text(&v);
                Ok(TV { structs: vec![("buildinfo.Buildinfo", it)], text })
            }
            Err(_) if !lossless_doc_ok(t) => Err(PErr::Reader),
            Err(m) => Err(PErr::Msg(m)),
        },
        _ => return None,
    })
}

/// the lossy-reader kinds, read through the lossless paragraph instead
fn lossless_view(kind: &str, t: &str) -> Option<Result<String, String>> {
    use debian_control::lossy::apt;
    if !matches!(kind, "release" | "source" | "package") {
        return None;
    }
    let p = match LL::from_str(t) {
        Ok(p) => p,
        Err(e) => return Some(Err(e.to_string())),
    };
    Some(match kind {
        "release" => apt::Release::from_paragraph(&p).map(|v| show_struct("apt.Release", &lp_text(&v).0)),
        "source" => apt::Source::from_paragraph(&p).map(|v| show_struct("apt.Source", &lp_text(&v).0)),
        "package" => apt::Package::from_paragraph(&p).map(|v| show_struct("apt.Package", &lp_text(&v).0)),
        _ => return None,
    })
}

/// outside the C03 grammar although both readers accept it: a whitespace-only continuation line, or
/// an indented `#` line (a comment for both readers by design; the lossy reader leaves an empty line
/// in the value where it stood, the lossless one drops it: the blank-line normalisation of C06)
fn not_c03_wellformed(t: &str) -> bool {
    t.split('\n').any(|l| {
        (l.starts_with(' ') || l.starts_with('\t')) && (l.trim().is_empty() || l.trim_start_matches([' ', '\t']).starts_with('#'))
    })
}

/// the text with every `Name:` + empty first line + continuation line rewritten to the inline layout
/// `Name: <first continuation line>`; None when the text has no such field
fn inline_layout(t: &str) -> Option<String> {
    let lines: Vec<&str> = t.split('\n').collect();
    let mut out: Vec<String> = vec![];
    let mut changed = false;
    let mut i = 0;
    while i < lines.len() {
        let l = lines[i];
        let is_key_line = !l.is_empty() && !l.starts_with([' ', '\t', '#']) && match l.split_once(':') {
            Some((k, rest)) => !k.is_empty() && !k.contains([' ', '\t']) && rest.chars().all(|c| c == ' ' || c == '\t'),
            None => false,
        };
        if is_key_line && i + 1 < lines.len() && lines[i + 1].starts_with([' ', '\t']) {
            let cont = lines[i + 1].trim_start_matches([' ', '\t']);
            if !cont.is_empty() && !cont.starts_with('#') {
                let k = l.split_once(':').unwrap().0;
                out.push(format!("{}: {}", k, cont));
                changed = true;
                i += 2;
                continue;
            }
        }
        out.push(l.to_string());
        i += 1;
    }
    if changed { Some(out.join("\n")) } else { None }
}

pub fn handle(op: &str, a: &[&str]) -> Option<Resp> {
    let kind = op.strip_prefix("typed.")?;
    let (t, _e) = match a {
        [t, e] => (ds(t)?, e),
        _ => return None,
    };
    let r1 = parse_kind(kind, &t)?;
    let mut fail: Option<String> = None;
    let (p1, t1, p2, t2) = match &r1 {
        Err(e) => (show_err(e), "-".to_string(), "-".to_string(), "-".to_string()),
        Ok(v1) => {
            let p1 = v1.show();
            let r2 = parse_kind(kind, &v1.text)?;
            match r2 {
                Err(e) => {
                    fail = Some(format!("printed text does not parse back: {} ; text {:?}", show_err(&e), v1.text));
                    (p1, es(&v1.text), show_err(&e), "-".to_string())
                }
                Ok(v2) => {
                    let p2 = v2.show();
                    if p2 != p1 {
                        fail = Some(format!("printed text parses to a different value; text {:?}", v1.text));
                    } else if v2.text != v1.text {
                        fail = Some(format!("second print differs: {:?} vs {:?}", v1.text, v2.text));
                    }
                    let same_t = v2.text == v1.text;
                    (
                        p1.clone(),
                        es(&v1.text),
                        if p2 == p1 { "same".to_string() } else { p2 },
                        if same_t { "same".to_string() } else { es(&v2.text) },
                    )
                }
            }
        }
    };
    // relationship fields: the typed (lossy) value is what the LOSSLESS relation reader shows for the
    // raw field text — compared through the crate's lossless -> lossy conversion of single relations,
    // which does not use the lossy parser (after seeded change C20-r7m1: a negation flag never reset
    // in the lossy relation parser). Only on C03-well-formed text without substitution variables.
    if let Ok(v1) = &r1 {
        if fail.is_none() && !not_c03_wellformed(&t) && !t.contains('$') {
            use debian_control::lossless::relations::Relations as LRels;
            let canon_of = |raw: &str| -> Option<String> {
                let l = LRels::from_str(raw).ok()?;
                std::panic::catch_unwind(std::panic::AssertUnwindSafe(|| {
                    l.entries()
                        .map(|e| {
                            e.relations()
                                .map(|r| {
                                    let y: debian_control::lossy::Relation = r.into();
                                    y.to_string()
                                })
                                .collect::<Vec<_>>()
                                .join(" | ")
                        })
                        .filter(|e| !e.is_empty())
                        .collect::<Vec<_>>()
                        .join(", ")
                }))
                .ok()
            };
            let (doc, errs) = deb822_lossless::Deb822::from_str_relaxed(&t);
            if errs.is_empty() {
                'outer: for (sid, fields) in &v1.structs {
                    let row = match crate::derive::struct_row(sid) {
                        Some(r) => r,
                        None => continue,
                    };
                    for (k, printed) in fields {
                        if !row.fields.iter().any(|f| &f.key == k && f.ty == "Relations") {
                            continue;
                        }
                        // the raw texts of field k anywhere in the document, read by the lossless reader
                        let shown: Vec<String> = doc.paragraphs().filter_map(|p| p.get(k)).filter_map(|raw| canon_of(&raw)).collect();
                        let raws: usize = doc.paragraphs().filter_map(|p| p.get(k)).count();
                        if raws > 0 && shown.len() == raws && !shown.iter().any(|c| c == printed) {
                            fail = Some(format!("relationship field {}: the typed value prints {:?}, the lossless relation reader shows {:?}", k, printed, shown));
                            break 'outer;
                        }
                    }
                }
            }
        }
    }
    // the lossless view of the same text (lossy-reader kinds)
    let ll = match lossless_view(kind, &t) {
        None => "-".to_string(),
        Some(l) => match (&r1, l) {
            (Ok(v1), Ok(s)) => {
                if s == v1.show() {
                    "same".to_string()
                } else {
                    // the clause is about well-formed input: a whitespace-only continuation line is
                    // not (C03 grammar); there the two readers differ by the documented blank-line
                    // normalisation of C06 (lossy keeps it as an empty line, lossless drops it)
                    let blank_cont = not_c03_wellformed(&t);
                    if fail.is_none() && !blank_cont {
                        fail = Some(format!("lossless reader shows a different value: {} vs {}", s, v1.show()));
                    }
                    "diff".to_string()
                }
            }
            (Err(e), Ok(s)) => {
                // the clause is "the typed value -- or the error -- is the same": a stanza the lossy-reader
                // struct rejects although the lossless view of the same (single, well-formed) paragraph
                // is accepted.  Two stanzas are no such case: the lossy paragraph reader wants exactly
                // one, the lossless one takes the first.
                if fail.is_none() && !not_c03_wellformed(&t) && LP::from_str(&t).is_ok() {
                    fail = Some(format!("rejected ({}) although the lossless view of the same text is accepted: {}", show_err(e), s));
                }
                "diff".to_string()
            }
            (Ok(v1), Err(e)) => {
                if fail.is_none() && !not_c03_wellformed(&t) {
                    fail = Some(format!("accepted ({}) although the lossless view of the same text is rejected: {}", v1.show(), e));
                }
                "err".to_string()
            }
            (Err(_), Err(_)) => "err".to_string(),
        },
    };
    // the six kinds read through the LOSSLESS reader: a field written `Name:` + empty first line +
    // continuation lines reads exactly like the inline layout `Name: first` + the other lines (that is
    // what the lossless reader shows; for the lossy-reader kinds this is finding F-C20-9, seen above)
    if !matches!(kind, "release" | "source" | "package") && !not_c03_wellformed(&t) {
        if let Some(inline) = inline_layout(&t) {
            let a = match &r1 {
                Ok(v) => Ok(v.show()),
                Err(e) => Err(show_err(e)),
            };
            let b = match parse_kind(kind, &inline)? {
                Ok(v) => Ok(v.show()),
                Err(e) => Err(show_err(&e)),
            };
            if fail.is_none() && a != b {
                fail = Some(format!("`Name:` + continuation layout reads differently from the inline layout: {:?} vs {:?}", a, b));
            }
        }
    }
    // apt Packages stanza: the typed lossless accessor and the lossy struct must show the same md5
    if kind == "package" {
        if let (Ok(v1), Ok(p)) = (&r1, LL::from_str(&t)) {
            let lossless_md5 = p.get("Description-md5");
            let lossy_md5 = v1.structs[0].1.iter().find(|(k, _)| k.eq_ignore_ascii_case("Description-md5")).map(|x| x.1.clone());
            let blank_cont = not_c03_wellformed(&t);
            if lossless_md5 != lossy_md5 && fail.is_none() && !blank_cont {
                fail = Some(format!(
                    "lossless Package::description_md5() reads field Description-md5 = {:?}; the lossy struct shows {:?}",
                    lossless_md5, lossy_md5
                ));
            }
        }
    }
    // control file: paragraphs are assigned by their distinguishing fields -- a paragraph with a
    // Package field is a binary paragraph (whatever else it has), one without Package but with Source
    // is the source paragraph; exactly one source paragraph, no paragraph of neither kind
    if kind == "control" {
        if let Ok(d) = deb822_lossless::Deb822::from_str(&t) {
            let paras: Vec<deb822_lossless::Paragraph> = d.paragraphs().collect();
            let nbin = paras.iter().filter(|p| p.get("Package").is_some()).count();
            let nsrc = paras.iter().filter(|p| p.get("Package").is_none() && p.get("Source").is_some()).count();
            let nnone = paras.len() - nbin - nsrc;
            match &r1 {
                Ok(v1) => {
                    let got_bin = v1.structs.iter().filter(|s| s.0 == "control.Binary").count();
                    let got_src = v1.structs.iter().filter(|s| s.0 == "control.Source").count();
                    if fail.is_none() && (nsrc != 1 || nnone != 0) {
                        fail = Some(format!("accepted although the text has {} source paragraph(s) and {} paragraph(s) of neither kind", nsrc, nnone));
                    } else if fail.is_none() && (got_bin != nbin || got_src != 1) {
                        fail = Some(format!("paragraph roles: {} binary / {} source in the value, {} / {} by the distinguishing fields", got_bin, got_src, nbin, nsrc));
                    }
                }
                Err(_) => {}
            }
        }
    }
    // removal record: the Sources / Binaries lists are the LINES of the field (an entry such as
    // `foo_1.0-1 [amd64, i386]` has blanks inside): printed back they are the raw value
    if kind == "removal" {
        let blank_cont = not_c03_wellformed(&t);
        if let (Ok(v1), Ok(p)) = (&r1, LL::from_str(&t)) {
            for key in ["Sources", "Binaries"] {
                let raw = p.get(key);
                let typed = v1.structs[0].1.iter().find(|(k, _)| k == key).map(|x| x.1.clone());
                if let (Some(raw), Some(typed)) = (raw, typed) {
                    if fail.is_none() && !blank_cont && !raw.contains('\r') && typed != raw {
                        fail = Some(format!("typed {} {:?} is not the list of lines of the field {:?}", key, typed, raw));
                    }
                }
            }
        }
    }
    // DEP-3 header: the typed author / description are what the lossless view of the same text
    // shows (Author, else From; Description, else Subject) -- on well-formed input
    if kind == "dep3" {
        let blank_cont = not_c03_wellformed(&t);
        if let (Ok(v1), Ok(h)) = (&r1, dep3::lossless::PatchHeader::from_str(&t)) {
            let field = |k: &str| v1.structs[0].1.iter().find(|(kk, _)| kk == k).map(|x| x.1.clone());
            let ll_author = h.author();
            let ll_desc = h.description().map(|d| match h.long_description() {
                Some(l) if !l.is_empty() => format!("{}\n{}", d, l),
                _ => d,
            });
            if fail.is_none() && !blank_cont {
                if field("Author") != ll_author {
                    fail = Some(format!("typed author {:?} differs from the lossless view {:?}", field("Author"), ll_author));
                } else if field("Description") != ll_desc {
                    fail = Some(format!("typed description {:?} differs from the lossless view {:?}", field("Description"), ll_desc));
                }
            }
        }
    }
    Some(Resp::with(format!("p1={} t1={} p2={} t2={} ll={}", p1, t1, p2, t2, ll), fail))
}

// ------------------------------------------------------------------ generators

struct KindSpec {
    kind: &'static str,
    /// struct ids a paragraph of this document can be
    structs: &'static [&'static str],
    comments: bool,
}
const KINDS: &[KindSpec] = &[
    KindSpec { kind: "control", structs: &["control.Source", "control.Binary"], comments: true },
    KindSpec { kind: "copyright", structs: &["debiancopyright.Header", "debiancopyright.FilesParagraph", "debiancopyright.LicenseParagraph"], comments: true },
    KindSpec { kind: "release", structs: &["apt.Release"], comments: true },
    KindSpec { kind: "source", structs: &["apt.Source"], comments: true },
    KindSpec { kind: "package", structs: &["apt.Package"], comments: true },
    KindSpec { kind: "removal", structs: &["ftpmaster.Removal"], comments: true },
    KindSpec { kind: "dep3", structs: &["dep3.PatchHeader"], comments: true },
    KindSpec { kind: "repos", structs: &["aptsources.Repository"], comments: true },
    KindSpec { kind: "buildinfo", structs: &["buildinfo.Buildinfo"], comments: true },
];

type Entries = Vec<(String, String)>;

/// `layout[i]` for field i: 0 (or absent) = inline first line, 1 = `Name:` + every line of the value as a
/// continuation line (the layout of Package-List / Files / Checksums-* / Build-Depends in real indices;
/// finding F-C20-9 for the lossy-reader kinds), 2 = the same with a blank after the colon
fn render_para_l(e: &Entries, comments: bool, rng: &mut Rng, layout: &[u8]) -> String {
    let mut t = String::new();
    for (i, (k, v)) in e.iter().enumerate() {
        if comments && rng.chance(12) {
            t.push_str("# comment\n");
        }
        let mode = layout.get(i).copied().unwrap_or(0);
        if mode != 0 && v.split('\n').any(|l| !l.is_empty()) {
            t.push_str(k);
            t.push_str(if mode == 2 { ": \n" } else { ":\n" });
            for (j, l) in v.split('\n').enumerate() {
                if l.is_empty() {
                    if j > 0 {
                        t.push_str(" .\n");
                    }
                } else {
                    t.push_str(&format!(" {}\n", l));
                }
            }
            continue;
        }
        let mut lines = v.split('\n');
        let first = lines.next().unwrap_or("");
        if first.is_empty() {
            t.push_str(&format!("{}:\n", k));
        } else {
            t.push_str(&format!("{}: {}\n", k, first));
        }
        for l in lines {
            if l.is_empty() {
                // an empty line of a value: usually the conventional ` .`, sometimes a
                // whitespace-only continuation line (the lossy reader keeps it as an empty line)
                t.push_str(if rng.chance(30) { " \n" } else { " .\n" });
            } else {
                t.push_str(&format!(" {}\n", l));
            }
            // an indented comment line between the lines of a value
            if comments && rng.chance(6) {
                t.push_str(" # inside a value\n");
            }
        }
    }
    t
}

fn render_doc(paras: &[Entries], comments: bool, rng: &mut Rng) -> String {
    render_doc_l(paras, comments, rng, &[])
}

fn render_doc_l(paras: &[Entries], comments: bool, rng: &mut Rng, layouts: &[Vec<u8>]) -> String {
    let mut t = String::new();
    if rng.chance(5) {
        t.push('\n');
    }
    for (i, p) in paras.iter().enumerate() {
        if i > 0 {
            t.push('\n');
            if rng.chance(8) {
                t.push('\n');
            }
            if comments && rng.chance(8) {
                t.push_str("# between paragraphs\n\n");
            }
        }
        t.push_str(&render_para_l(p, comments, rng, layouts.get(i).map(|v| v.as_slice()).unwrap_or(&[])));
    }
    if rng.chance(6) && t.ends_with('\n') {
        t.pop();
    }
    t
}

/// the E column: every (key, value) the readers see in the text whose key is an external-codec field
/// of one of the kind's structs
/// the E column for a document kind by name (used by the C02 `total` requests of the typed readers)
pub fn ext_column_kind(kind: &str, text: &str) -> Option<String> {
    KINDS.iter().find(|k| k.kind == kind).map(|ks| ext_column(ks, text))
}

/// the E column; computed with the real readers, so a panic there (which the worker will report
/// with its input) must not take the generator down: the column is then empty
fn ext_column(ks: &KindSpec, text: &str) -> String {
    std::panic::catch_unwind(std::panic::AssertUnwindSafe(|| ext_column_inner(ks, text))).unwrap_or_default()
}

fn ext_column_inner(ks: &KindSpec, text: &str) -> String {
    let mut seen: Vec<(String, String)> = vec![];
    if let Ok(d) = deb822_lossless::Deb822::from_str(text) {
        for p in d.paragraphs() {
            seen.extend(p.items());
        }
    }
    if let Ok(d) = deb822_lossless::lossy::Deb822::from_str(text) {
        for p in d.iter() {
            seen.extend(p.iter().map(|(k, v)| (k.to_string(), v.to_string())));
        }
    }
    seen.sort();
    seen.dedup();
    let mut out = vec![];
    for (k, v) in seen {
        for id in ks.structs {
            if let Some(r) = external_for_key(id, &k, &v) {
                let r = match r {
                    Ok(c) => format!("o{}", hex(c.as_bytes())),
                    Err(e) => format!("e{}", hex(e.as_bytes())),
                };
                let item = format!("{}:{}:{}", es(&k), es(&v), r);
                if !out.contains(&item) {
                    out.push(item);
                }
            }
        }
    }
    out.join(",")
}

fn para_for(id: &str, rng: &mut Rng, variant: usize, drop_optional_pct: usize, bad_pct: usize) -> Entries {
    let row = struct_row(id).expect("struct row");
    let mut e = vec![];
    for f in &row.fields {
        if f.optional && rng.chance(drop_optional_pct) {
            continue;
        }
        let (good, bad) = crate::derive::pool(f);
        // values a text can carry: trimmed lines
        let pick = |rng: &mut Rng, pool: &Vec<&'static str>, variant: usize| -> String {
            if pool.is_empty() {
                return "x".to_string();
            }
            let raw = if variant == usize::MAX { *rng.pick(pool) } else { pool[variant % pool.len()] };
            raw.to_string()
        };
        let v = if !bad.is_empty() && rng.chance(bad_pct) { pick(rng, &bad, usize::MAX) } else { pick(rng, &good, variant) };
        e.push((f.key.clone(), v));
    }
    e
}

pub fn generate_c20(tier: &str, seed: u64, out: &mut Out) {
    let thorough = tier == "thorough";
    let mut rng = Rng::new(seed);
    let per_kind = if thorough { 100_000 } else { 5_000 };
    for ks in KINDS {
        let op = format!("typed.{}", ks.kind);
        let emit = |out: &mut Out, text: String| {
            let e = ext_column(ks, &text);
            out.req(&op, &[es(&text), e]);
        };
        // ---- structural cases first
        let mut r0 = Rng::new(1);
        let full = |id: &str, variant: usize, r: &mut Rng| para_for(id, r, variant, 0, 0);
        let minimal = |id: &str, r: &mut Rng| para_for(id, r, 0, 100, 0);
        match ks.kind {
            "control" => {
                let s = full("control.Source", 0, &mut r0);
                let b = full("control.Binary", 0, &mut r0);
                let b2 = full("control.Binary", 1, &mut r0);
                let docs: Vec<Vec<Entries>> = vec![
                    vec![s.clone()],
                    vec![s.clone(), b.clone()],
                    vec![s.clone(), b.clone(), b2.clone()],
                    vec![b.clone(), s.clone(), b2.clone()],
                    vec![b.clone(), b2.clone(), s.clone()],
                    vec![b.clone()],
                    vec![b.clone(), b2.clone()],
                    vec![s.clone(), s.clone()],
                    vec![s.clone(), b.clone(), s.clone()],
                    vec![s.clone(), vec![("X-Other".into(), "v".into())]],
                    vec![vec![("X-Other".into(), "v".into())]],
                    vec![],
                    // a paragraph with both Source and Package is a binary
                    vec![s.clone(), { let mut x = s.clone(); x.push(("Package".into(), "p".into())); x }],
                    // a binary paragraph that names its source: alone it leaves the file without a
                    // source paragraph; before / after the source paragraph it is one more binary
                    vec![{ let mut x = b.clone(); x.push(("Source".into(), "zz".into())); x }],
                    vec![{ let mut x = vec![("Source".to_string(), "zz".to_string())]; x.extend(b.clone()); x }],
                    vec![{ let mut x = b.clone(); x.push(("Source".into(), "zz".into())); x }, s.clone()],
                    vec![s.clone(), { let mut x = vec![("Source".to_string(), "zz".to_string())]; x.extend(b.clone()); x }, b.clone()],
                    vec![minimal("control.Source", &mut r0), minimal("control.Binary", &mut r0)],
                ];
                for d in &docs {
                    for c in [false, true] {
                        emit(out, render_doc(d, c, &mut r0));
                    }
                }
                // Vcs-Git values around the ` [subpath]` / ` -b branch` syntax (F-C20-7: more than one
                // bracket group, a group or ` -b ` left inside the URL or the branch)
                for v in ["https://e.org/r [x] [y]", "https://e.org/r [x] -b m [y]", "https://e.org/r -b m [x] [y]",
                    "https://e.org/r -b m -b n", "https://e.org/r [x]", "https://e.org/r -b m [x]", "https://e.org/r [x] -b m",
                    "https://e.org/r [x y]", "https://e.org/r [] [x]", "https://e.org/r  [x]", "[x]", " [x]", "u [x] ", "u -b  m"] {
                    emit(out, format!("Source: a\nVcs-Git: {}\n", v));
                }
            }
            "copyright" => {
                let h = full("debiancopyright.Header", 0, &mut r0);
                let f = full("debiancopyright.FilesParagraph", 0, &mut r0);
                let f2 = full("debiancopyright.FilesParagraph", 1, &mut r0);
                let l = full("debiancopyright.LicenseParagraph", 0, &mut r0);
                let l2 = full("debiancopyright.LicenseParagraph", 1, &mut r0);
                let docs: Vec<Vec<Entries>> = vec![
                    vec![h.clone()],
                    vec![h.clone(), f.clone()],
                    vec![h.clone(), f.clone(), l.clone()],
                    vec![h.clone(), l.clone(), f.clone()],
                    vec![h.clone(), l.clone(), f.clone(), l2.clone(), f2.clone()],
                    vec![f.clone(), h.clone()],
                    vec![h.clone(), vec![("Comment".into(), "neither".into())]],
                    vec![h.clone(), h.clone()],
                    vec![minimal("debiancopyright.Header", &mut r0), minimal("debiancopyright.FilesParagraph", &mut r0), minimal("debiancopyright.LicenseParagraph", &mut r0)],
                    vec![],
                ];
                for d in &docs {
                    for c in [false, true] {
                        emit(out, render_doc(d, c, &mut r0));
                    }
                }
                // the `Format:` gate
                emit(out, "\nFormat: x\n".to_string());
                emit(out, "# c\nFormat: x\n".to_string());
                emit(out, "format: x\n".to_string());
                emit(out, "Format:".to_string());
                emit(out, "Format".to_string());
                emit(out, "This is not machine readable.\n".to_string());
                // reordered header fields: Format must be the very first bytes
                let mut hr = h.clone();
                hr.reverse();
                emit(out, render_doc(&[hr], false, &mut r0));
            }
            "repos" => {
                let a = full("aptsources.Repository", 0, &mut r0);
                let b = full("aptsources.Repository", 1, &mut r0);
                let m = minimal("aptsources.Repository", &mut r0);
                for d in [vec![], vec![a.clone()], vec![a.clone(), b.clone()], vec![m.clone(), a.clone(), m.clone()], vec![a.clone(), vec![("X".into(), "y".into())]]] {
                    for c in [false, true] {
                        emit(out, render_doc(&d, c, &mut r0));
                    }
                }
            }
            _ => {
                let id = ks.structs[0];
                let a = full(id, 0, &mut r0);
                let b = full(id, 1, &mut r0);
                for d in [vec![], vec![a.clone()], vec![b.clone()], vec![a.clone(), b.clone()], vec![minimal(id, &mut r0)], vec![vec![("X".into(), "y".into())]]] {
                    for c in [false, ks.comments] {
                        emit(out, render_doc(&d, c, &mut r0));
                    }
                }
                if ks.kind == "dep3" {
                    // From / Subject fall-backs
                    emit(out, "From: A <a@e.org>\nSubject: s1\n s2\n".to_string());
                    emit(out, "From: A <a@e.org>\nAuthor: B\nSubject: s\nDescription: d\n".to_string());
                    emit(out, "Subject: only\n".to_string());
                    // every combination of the four fields the fall-backs look at
                    for m in 0..16u32 {
                        let mut t = String::new();
                        if m & 1 != 0 {
                            t.push_str("From: F <f@e.org>\n");
                        }
                        if m & 2 != 0 {
                            t.push_str("Author: A <a@e.org>\n");
                        }
                        if m & 4 != 0 {
                            t.push_str("Subject: subj\n more subj\n");
                        }
                        if m & 8 != 0 {
                            t.push_str("Description: desc\n more desc\n");
                        }
                        t.push_str("Forwarded: no\n");
                        emit(out, t);
                    }
                }
                if ks.kind == "buildinfo" {
                    // Environment: variable names around '#' (F-C20-8: a '#' name that does not sort first)
                    for env in ["#a=\"1\"\n !b=\"2\"", "#a=\"1\"\n b=\"2\"", "b=\"2\"\n a=\"#1\"", "#a=\"1\"", "A=\"1\"\n #B=\"2\"\n C=\"3\""] {
                        emit(out, format!("Format: 1.0\nBuild-Architecture: amd64\nSource: s\nArchitecture: all\nVersion: 1.0\nEnvironment: {}\n", env));
                    }
                }
                if ks.kind == "package" {
                    emit(out, "Package: p\nVersion: 1.0\nArchitecture: all\nDescription-md5: 0123\n".to_string());
                    emit(out, "Package: p\nVersion: 1.0\nArchitecture: all\nDescription-MD5: 0123\n".to_string());
                }
            }
        }
        // every single missing mandatory field, every single rejected value, per struct
        for id in ks.structs {
            let row = struct_row(id).expect("row");
            let base: Vec<Entries> = match (ks.kind, *id) {
                ("control", "control.Binary") => vec![full("control.Source", 0, &mut r0)],
                ("copyright", "debiancopyright.FilesParagraph") | ("copyright", "debiancopyright.LicenseParagraph") => vec![full("debiancopyright.Header", 0, &mut r0)],
                _ => vec![],
            };
            for (i, f) in row.fields.iter().enumerate() {
                let mut p = full(id, 0, &mut r0);
                p.remove(i);
                let mut d = base.clone();
                d.push(p);
                emit(out, render_doc(&d, false, &mut r0));
                let (good, bad) = crate::derive::pool(f);
                for t in good.iter().chain(bad.iter()) {
                    let mut p = full(id, 0, &mut r0);
                    p[i].1 = t.to_string();
                    let mut d = base.clone();
                    d.push(p);
                    emit(out, render_doc(&d, false, &mut r0));
                }
            }
        }
        // ---- the layout `Name:` + empty first line + continuation lines, for every field of every
        // struct (finding F-C20-9 for the lossy-reader kinds release / source / package; for the six
        // kinds read through the lossless reader the typed value must be that of the inline layout: a
        // positive test, see `inline_layout`)
        for id in ks.structs {
            let row = struct_row(id).expect("row");
            let base: Vec<Entries> = match (ks.kind, *id) {
                ("control", "control.Binary") => vec![full("control.Source", 0, &mut r0)],
                ("copyright", "debiancopyright.FilesParagraph") | ("copyright", "debiancopyright.LicenseParagraph") => vec![full("debiancopyright.Header", 0, &mut r0)],
                _ => vec![],
            };
            let nbase = base.len();
            for (i, f) in row.fields.iter().enumerate() {
                let (good, bad) = crate::derive::pool(f);
                for (n, t) in good.iter().chain(bad.iter()).enumerate() {
                    for mode in [1u8, 2u8] {
                        if mode == 2 && n > 0 {
                            continue;
                        }
                        let mut p = full(id, 0, &mut r0);
                        p[i].1 = t.to_string();
                        let mut lay = vec![0u8; p.len()];
                        lay[i] = mode;
                        let mut d = base.clone();
                        d.push(p);
                        let mut lays: Vec<Vec<u8>> = vec![vec![]; nbase];
                        lays.push(lay);
                        emit(out, render_doc_l(&d, false, &mut r0, &lays));
                    }
                }
            }
            // every field of the paragraph in that layout at once
            let p = full(id, 0, &mut r0);
            let lay = vec![1u8; p.len()];
            let mut d = base.clone();
            d.push(p);
            let mut lays: Vec<Vec<u8>> = vec![vec![]; nbase];
            lays.push(lay);
            emit(out, render_doc_l(&d, false, &mut r0, &lays));
            // ---- field names: a key differing only in letter case is another field (names are matched
            // exactly), a duplicated field (the first one is read), for every struct
            for i in 0..row.fields.len() {
                if i > 2 && !row.fields[i].optional {
                    continue;
                }
                for variant in 0..3 {
                    let mut p = full(id, 0, &mut r0);
                    match variant {
                        0 => p[i].0 = p[i].0.to_lowercase(),
                        1 => p[i].0 = p[i].0.to_uppercase(),
                        _ => {
                            let dup = (p[i].0.clone(), full(id, 1, &mut r0)[i].1.clone());
                            p.push(dup.clone());
                            let mut q = full(id, 0, &mut r0);
                            q.insert(0, dup);
                            let mut d = base.clone();
                            d.push(q);
                            emit(out, render_doc(&d, false, &mut r0));
                        }
                    }
                    let mut d = base.clone();
                    d.push(p);
                    emit(out, render_doc(&d, false, &mut r0));
                }
            }
        }
        match ks.kind {
            "copyright" => {
                let h = full("debiancopyright.Header", 0, &mut r0);
                let f = full("debiancopyright.FilesParagraph", 0, &mut r0);
                let l = full("debiancopyright.LicenseParagraph", 0, &mut r0);
                // a header that also carries Files / License / Copyright; a later paragraph that carries
                // Format (roles go by Files / License only); `files:` / `license:` in lower case
                let mut hf = h.clone();
                hf.extend(f.clone());
                let mut ff = f.clone();
                ff.push(("Format".into(), "x".into()));
                let mut lf = vec![("Format".to_string(), "x".to_string())];
                lf.extend(l.clone());
                let mut fl = f.clone();
                fl.extend(l.clone().into_iter().filter(|e| e.0 != "License"));
                let lower = |p: &Entries| -> Entries { p.iter().map(|e| (e.0.to_lowercase(), e.1.clone())).collect() };
                for d in [vec![hf.clone()], vec![hf.clone(), f.clone()], vec![h.clone(), ff.clone()], vec![h.clone(), lf.clone()],
                    vec![h.clone(), fl.clone()], vec![h.clone(), lower(&f)], vec![h.clone(), lower(&l)], vec![lower(&h)]] {
                    emit(out, render_doc(&d, false, &mut r0));
                }
            }
            "control" => {
                let s = full("control.Source", 0, &mut r0);
                let b = full("control.Binary", 0, &mut r0);
                let lower = |p: &Entries| -> Entries { p.iter().map(|e| (e.0.to_lowercase(), e.1.clone())).collect() };
                for d in [vec![lower(&s)], vec![lower(&s), b.clone()], vec![s.clone(), lower(&b)], vec![lower(&b), s.clone()]] {
                    emit(out, render_doc(&d, false, &mut r0));
                }
            }
            "dep3" => {
                // F-C20-4: a header none of whose fields is a struct key (names are matched exactly:
                // `from:` / `subject:` in lower case are unknown fields, no fall-back applies)
                for t in ["from: F <f@e.org>\n", "subject: s\n", "from: f\nsubject: s\n", "author: a\n", "From: F <f@e.org>\nsubject: s\n"] {
                    emit(out, t.to_string());
                }
            }
            "repos" => {
                // F-C20-10: a Signed-By key block whose first line starts with '#'
                let a = full("aptsources.Repository", 0, &mut r0);
                for v in ["#a\nb", "#a", "a\nb", "\na\nb", "\n#a\nb", "#a\n#b"] {
                    let mut p = a.clone();
                    for e in p.iter_mut() {
                        if e.0 == "Signed-By" {
                            e.1 = v.to_string();
                        }
                    }
                    emit(out, render_doc(&[p], false, &mut r0));
                }
            }
            _ => {}
        }
        // ---- seeded random documents
        for _ in 0..per_kind {
            let variant = usize::MAX;
            let drop = 10 + rng.below(80);
            let bad = if rng.chance(15) { 10 } else { 0 };
            let paras: Vec<Entries> = match ks.kind {
                "control" => {
                    let nb = rng.below(4);
                    let mut v = vec![para_for("control.Source", &mut rng, variant, drop, bad)];
                    for _ in 0..nb {
                        v.push(para_for("control.Binary", &mut rng, variant, drop, bad));
                    }
                    if rng.chance(25) {
                        let i = rng.below(v.len());
                        let j = rng.below(v.len());
                        v.swap(i, j);
                    }
                    if rng.chance(4) {
                        v.remove(0);
                    }
                    if rng.chance(4) {
                        v.push(para_for("control.Source", &mut rng, variant, drop, bad));
                    }
                    v
                }
                "copyright" => {
                    let mut v = vec![para_for("debiancopyright.Header", &mut rng, variant, drop, bad)];
                    for _ in 0..rng.below(5) {
                        if rng.chance(60) {
                            v.push(para_for("debiancopyright.FilesParagraph", &mut rng, variant, drop, bad));
                        } else {
                            v.push(para_for("debiancopyright.LicenseParagraph", &mut rng, variant, drop, bad));
                        }
                    }
                    v
                }
                "repos" => (0..rng.below(4)).map(|_| para_for("aptsources.Repository", &mut rng, variant, drop, bad)).collect(),
                _ => {
                    let mut v = vec![para_for(ks.structs[0], &mut rng, variant, drop, bad)];
                    if rng.chance(4) {
                        v.push(para_for(ks.structs[0], &mut rng, variant, drop, bad));
                    }
                    v
                }
            };
            // occasionally drop one mandatory field / add a foreign field
            let mut paras = paras;
            if rng.chance(6) && !paras.is_empty() {
                let i = rng.below(paras.len());
                if !paras[i].is_empty() {
                    let j = rng.below(paras[i].len());
                    paras[i].remove(j);
                }
            }
            if rng.chance(15) && !paras.is_empty() {
                let i = rng.below(paras.len());
                let j = rng.below(paras[i].len() + 1);
                paras[i].insert(j, ("X-Foreign".to_string(), "kept".to_string()));
            }
            // a duplicated field (another value, anywhere in the paragraph), a key in another letter case
            if rng.chance(5) && !paras.is_empty() {
                let i = rng.below(paras.len());
                if !paras[i].is_empty() {
                    let j = rng.below(paras[i].len());
                    let k = paras[i][j].0.clone();
                    let at = rng.below(paras[i].len() + 1);
                    let v = if rng.chance(50) { paras[i][j].1.clone() } else { "dup".to_string() };
                    paras[i].insert(at, (k, v));
                }
            }
            if rng.chance(5) && !paras.is_empty() {
                let i = rng.below(paras.len());
                if !paras[i].is_empty() {
                    let j = rng.below(paras[i].len());
                    paras[i][j].0 = if rng.chance(50) { paras[i][j].0.to_lowercase() } else { paras[i][j].0.to_uppercase() };
                }
            }
            // a later paragraph carrying the first paragraph's first field (copyright: Format)
            if rng.chance(3) && paras.len() > 1 && !paras[0].is_empty() {
                let e = paras[0][0].clone();
                let i = 1 + rng.below(paras.len() - 1);
                paras[i].push(e);
            }
            // some documents in the `Name:` + continuation layout (a third of their fields)
            let layouts: Vec<Vec<u8>> = if rng.chance(12) {
                paras.iter().map(|p| p.iter().map(|_| if rng.chance(35) { 1 + (rng.below(4) == 0) as u8 } else { 0 }).collect()).collect()
            } else {
                vec![]
            };
            let text = render_doc_l(&paras, ks.comments && rng.chance(40), &mut rng, &layouts);
            emit(out, text);
        }
    }
}
