//! relationship fields (debian-control relations): C09 reader round-trip
use crate::util::*;
use crate::Resp;
use debian_control::lossless::relations::{Entry, Relation, Relations};
use std::str::FromStr;

pub fn handle(op: &str, a: &[&str]) -> Option<Resp> {
    match (op, a) {
        ("rel.read", [allow, t]) => {
            let s = ds(t)?;
            let allow = *allow == "1";
            let (r, errs) = Relations::parse_relaxed(&s, allow);
            let printed = r.to_string();
            let mut fail = None;
            if printed != s {
                fail = Some("parse_relaxed(s).to_string() != s".to_string());
            }
            let strict = if !allow {
                let st = Relations::from_str(&s);
                if st.is_ok() != errs.is_empty() {
                    fail = Some("from_str.is_ok() != parse_relaxed(s,false) errors.is_empty()".to_string());
                }
                match st {
                    Ok(r2) => {
                        if r2.to_string() != s {
                            fail = Some("from_str(s).to_string() != s".to_string());
                        } else if r2.verif_dump() != r.verif_dump() {
                            fail = Some("from_str(s) tree != parse_relaxed(s,false) tree".to_string());
                        }
                        "ok"
                    }
                    Err(_) => "err",
                }
            } else {
                "-"
            };
            let dump = r.verif_dump();
            if fail.is_none() && dump.matches("(ERROR").count() != errs.len() {
                fail = Some("number of errors != number of ERROR nodes".to_string());
            }
            // the readers are functions of (text, allow_substvar): the same call gives the same tree
            // and errors whatever was read before (other setting of the flag, the strict reader,
            // another text in between) — after seeded change C09-r5m2 (a cache keyed by the text only)
            if fail.is_none() && s.contains('$') {
                let key = |x: &(Relations, Vec<String>)| (x.0.verif_dump(), x.1.len());
                let other = Relations::parse_relaxed(&s, !allow);
                let again = Relations::parse_relaxed(&s, allow);
                let _ = Relations::parse_relaxed("zz, y", false);
                let other2 = Relations::parse_relaxed(&s, !allow);
                let st1 = Relations::from_str(&s).is_ok();
                let _ = Relations::parse_relaxed(&s, true);
                let st2 = Relations::from_str(&s).is_ok();
                if key(&again) != (dump.clone(), errs.len()) || key(&other) != key(&other2) || st1 != st2 {
                    fail = Some("the reader's answer for the same (text, allow_substvar) depends on what was read before".to_string());
                } else if st1 != Relations::parse_relaxed(&s, false).1.is_empty() {
                    fail = Some("from_str.is_ok() != parse_relaxed(s,false) errors.is_empty() (after reading with substvars allowed)".to_string());
                }
            }
            Some(Resp::with(format!("{} {} {} {}", es(&printed), errs.len(), strict, dump), fail))
        }
        ("rel.entry", [t]) => {
            let s = ds(t)?;
            match Entry::from_str(&s) {
                Ok(e) => {
                    let printed = e.to_string();
                    let mut fail = None;
                    if !s.contains(&printed) {
                        fail = Some("Entry::from_str(s).to_string() is not a substring of s".to_string());
                    } else if Relations::from_str(&s).is_err() {
                        fail = Some("Entry::from_str(s) is Ok but Relations::from_str(s) is Err".to_string());
                    }
                    Some(Resp::with(format!("ok {} {}", es(&printed), e.verif_dump()), fail))
                }
                Err(_) => Some(Resp::ok("err".to_string())),
            }
        }
        ("rel.relation", [t]) => {
            let s = ds(t)?;
            match Relation::from_str(&s) {
                Ok(r) => {
                    let printed = r.to_string();
                    let mut fail = None;
                    if !s.contains(&printed) {
                        fail = Some("Relation::from_str(s).to_string() is not a substring of s".to_string());
                    } else {
                        match Entry::from_str(&s) {
                            Ok(e) => {
                                if !e.to_string().contains(&printed) {
                                    fail = Some("Relation::from_str(s) does not print a substring of Entry::from_str(s)".to_string());
                                }
                            }
                            Err(_) => {
                                fail = Some("Relation::from_str(s) is Ok but Entry::from_str(s) is Err".to_string());
                            }
                        }
                    }
                    Some(Resp::with(format!("ok {} {}", es(&printed), r.verif_dump()), fail))
                }
                Err(_) => Some(Resp::ok("err".to_string())),
            }
        }
        ("rel.field", [h]) => {
            let f = crate::relspec::FieldA::dec(h)?;
            let text = f.text();
            let written = format!("{} {}", f.view_entries(), f.view_substvars());
            let t1 = lossless_view(&text, true);
            let t0 = lossless_view(&text, false);
            let l = lossy_view(&text);
            let wf = f.wf();
            let mut fail = None;
            if wf {
                let want = format!("0 {}", written);
                if !t1.starts_with("0 ") {
                    fail = Some(format!("well-formed field rejected by the lossless reader (allow_substvar=true): {}", t1));
                } else if t1 != want {
                    fail = Some(format!("lossless accessors do not expose what was written: got {} want {}", t1, want));
                } else if !f.has_substvar() {
                    if t0 != t1 {
                        fail = Some("substvar-free field read differently with allow_substvar=false".to_string());
                    } else if l == "err" {
                        fail = Some("well-formed substvar-free field rejected by the lossy reader".to_string());
                    } else if l != format!("ok {}", f.view_entries()) {
                        fail = Some(format!("lossy reader yields a different structure: got {} want ok {}", l, f.view_entries()));
                    }
                }
            }
            Some(Resp::with(
                format!("{} W[{}] T1:{} T0:{} L:{} wf={}", es(&text), written, t1, t0, l, ebool(wf)),
                fail,
            ))
        }
        ("rel.lprint", [t]) => {
            let s = ds(t)?;
            match debian_control::lossy::Relations::from_str(&s) {
                Ok(r) => Some(Resp::ok(format!("ok {}", es(&r.to_string())))),
                Err(_) => Some(Resp::ok("err".to_string())),
            }
        }
        ("rel.lossy", [t]) => {
            let s = ds(t)?;
            Some(Resp::ok(lossy_view(&s)))
        }
        ("rel.view", [allow, t]) => {
            let s = ds(t)?;
            let (r, errs) = Relations::parse_relaxed(&s, *allow == "1");
            let view = view_root(&r);
            // reader agreement (Props/C10Agree, oracle form): a text that BOTH the strict lossless reader
            // and the lossy reader accept, on which no accessor panics, is read as the same structure —
            // unless a name is directly followed by `!` inside a `<…>` group (`a <x!y>`: one term `x!y`
            // for the lossless accessors, `x` and `!y` for the lossy reader; outside the Policy grammar)
            let mut fail = None;
            if *allow == "0" && errs.is_empty() && !view.contains("PANIC") && !bang_inside_term(&s) {
                let l = lossy_view(&s);
                if let Some(lv) = l.strip_prefix("ok E[").and_then(|x| x.strip_suffix(']')) {
                    let lossless: String = r
                        .entries()
                        .map(|e| format!("{{{}}}", e.relations().map(|r| view_rel(&r)).collect::<Vec<_>>().join("|")))
                        .collect();
                    if lossless != lv {
                        fail = Some(format!(
                            "both readers accept the text and expose different structures: lossless {} lossy {}",
                            lossless, lv
                        ));
                    }
                }
            }
            Some(Resp::with(view, fail))
        }
        ("rel.version", [t]) => {
            let s = ds(t)?;
            match debversion::Version::from_str(&s) {
                Ok(v) => Some(Resp::ok(format!("ok {}", enc_version(&v)))),
                Err(_) => Some(Resp::ok("err".to_string())),
            }
        }
        _ => None,
    }
}

/// `bangInsideTerm` of Props/C10Agree.lean on the characters: an identifier character directly
/// followed by `!` while inside `<…>` (`<` opens; `>`, `)`, `,`, `|` close — the last three so that
/// the `<` of a version operator does not count)
pub fn bang_inside_term(s: &str) -> bool {
    let mut inside = false;
    let cs: Vec<char> = s.chars().collect();
    for (i, &c) in cs.iter().enumerate() {
        match c {
            '<' => inside = true,
            '>' | ')' | ',' | '|' => inside = false,
            _ => {
                let ident = c.is_ascii_alphanumeric() || matches!(c, '.' | '+' | '~' | '-');
                if inside && ident && cs.get(i + 1) == Some(&'!') {
                    return true;
                }
            }
        }
    }
    false
}

pub fn enc_version(v: &debversion::Version) -> String {
    format!(
        "{}:{}:{}:{}",
        v.epoch.map(|e| e.to_string()).unwrap_or_else(|| "none".to_string()),
        es(&v.upstream_version),
        eopt(v.debian_revision.as_deref()),
        es(&v.to_string())
    )
}

pub fn guarded<T>(f: impl FnOnce() -> T) -> Option<T> {
    std::panic::catch_unwind(std::panic::AssertUnwindSafe(f)).ok()
}

/// canonical view of one relation through the read accessors; an accessor that panics prints PANIC
pub fn view_rel(r: &Relation) -> String {
    use debian_control::relations::BuildProfile;
    let nm = guarded(|| r.name()).map(|n| es(&n)).unwrap_or_else(|| "PANIC".to_string());
    let aq = guarded(|| r.archqual()).map(|a| eopt(a.as_deref())).unwrap_or_else(|| "PANIC".to_string());
    let ver = match guarded(|| r.version()) {
        None => "PANIC".to_string(),
        Some(None) => "none".to_string(),
        Some(Some((vc, v))) => format!("{}:{}", vc, enc_version(&v)),
    };
    let arch = match guarded(|| r.architectures().map(|it| it.collect::<Vec<_>>())) {
        None => "PANIC".to_string(),
        Some(None) => "none".to_string(),
        Some(Some(l)) => format!("[{}]", elist(&l)),
    };
    let prof = match guarded(|| r.profiles().collect::<Vec<_>>()) {
        None => "PANIC".to_string(),
        Some(groups) => groups
            .iter()
            .map(|g| {
                format!(
                    "<{}>",
                    g.iter()
                        .map(|p| match p {
                            BuildProfile::Enabled(s) => format!("E{}", es(s)),
                            BuildProfile::Disabled(s) => format!("D{}", es(s)),
                        })
                        .collect::<Vec<_>>()
                        .join(",")
                )
            })
            .collect::<Vec<_>>()
            .join("/"),
    };
    format!("name={};aq={};ver={};arch={};prof={}", nm, aq, ver, arch, prof)
}

/// lossless reader + accessors: `<#errors> E[{rel|rel}{rel}] S[<substvars>]`
pub fn lossless_view(text: &str, allow: bool) -> String {
    let (r, errs) = Relations::parse_relaxed(text, allow);
    let mut s = format!("{} E[", errs.len());
    for e in r.entries() {
        s.push('{');
        s.push_str(&e.relations().map(|r| view_rel(&r)).collect::<Vec<_>>().join("|"));
        s.push('}');
    }
    let subst: Vec<String> = r.substvars().collect();
    s.push_str(&format!("] S[{}]", elist(&subst)));
    s
}

/// `lossy::Relations::from_str`: `ok E[…]` (same relation format as `view_rel`) or `err`
pub fn lossy_view(text: &str) -> String {
    use debian_control::relations::BuildProfile;
    match debian_control::lossy::Relations::from_str(text) {
        Err(_) => "err".to_string(),
        Ok(rs) => {
            let mut s = String::from("ok E[");
            for e in rs.0.iter() {
                s.push('{');
                s.push_str(
                    &e.iter()
                        .map(|r| {
                            let ver = match &r.version {
                                None => "none".to_string(),
                                Some((vc, v)) => format!("{}:{}", vc, enc_version(v)),
                            };
                            let arch = match &r.architectures {
                                None => "none".to_string(),
                                Some(l) => format!("[{}]", elist(l)),
                            };
                            let prof = r
                                .profiles
                                .iter()
                                .map(|g| {
                                    format!(
                                        "<{}>",
                                        g.iter()
                                            .map(|p| match p {
                                                BuildProfile::Enabled(s) => format!("E{}", es(s)),
                                                BuildProfile::Disabled(s) => format!("D{}", es(s)),
                                            })
                                            .collect::<Vec<_>>()
                                            .join(",")
                                    )
                                })
                                .collect::<Vec<_>>()
                                .join("/");
                            format!(
                                "name={};aq={};ver={};arch={};prof={}",
                                es(&r.name),
                                eopt(r.archqual.as_deref()),
                                ver,
                                arch,
                                prof
                            )
                        })
                        .collect::<Vec<_>>()
                        .join("|"),
                );
                s.push('}');
            }
            s.push(']');
            s
        }
    }
}

pub fn view_root(r: &Relations) -> String {
    let subst: Vec<String> = r.substvars().collect();
    let entries: Vec<Entry> = r.entries().collect();
    let mut s = format!("subst=[{}] entries={}", elist(&subst), entries.len());
    for e in entries {
        s.push_str(" {");
        s.push_str(&e.relations().map(|r| view_rel(&r)).collect::<Vec<_>>().join("|"));
        s.push('}');
    }
    s
}

/// one representative per lexer arm (14 punctuation arms, newline), three whitespace characters,
/// three identifier characters, four "anything else" characters: ASCII, multi-byte, and two that
/// Unicode calls White_Space although the lossless lexer does not — U+00A0 and the control
/// character form feed; `str::trim()` of the lossy reader strips both (audit C09/C10: the texts
/// sent to `rel.lossy` / `rel.lprint` / `rel.view` must contain them)
pub const ALPHABET_FULL: [&str; 25] = [
    "a", "1", "-", ":", "|", ",", "(", ")", "[", "]", "!", "<", ">", "=", "$", "{", "}", " ", "\t", "\r",
    "\n", "@", "é", "\u{a0}", "\u{c}",
];
/// merged classes: one identifier character, one whitespace character, one error character
pub const ALPHABET_MERGED: [&str; 18] = [
    "a", ":", "|", ",", "(", ")", "[", "]", "!", "<", ">", "=", "$", "{", "}", " ", "\n", "é",
];
/// token pool of the token-level enumeration: one text per token kind (two for IDENT-like kinds
/// whose length matters to nothing, so one), rendered by concatenation. Adjacent IDENT / WHITESPACE
/// tokens merge in the lexer, which is intended (longer tokens).
pub const TOKENS: [&str; 18] = [
    "ab", ":", "|", ",", "(", ")", "[", "]", "!", "<", ">", "=", "$", "{", "}", " \t", "\n", "@",
];
/// contexts that put the parser inside each nested construct before the enumerated tail starts
pub const PREFIXES: [&str; 24] = [
    "a (>= 1:",
    "a (>= 1:2",
    "a ",
    "a:",
    "a: b",
    "a (",
    "a (>",
    "a (>= ",
    "a (>= 1",
    "a (>= 1)",
    "a [",
    "a [!b",
    "a [b] ",
    "a <",
    "a <!",
    "a <!b",
    "a <b> ",
    "a <b> <",
    "a |",
    "a | b",
    "a,",
    "${",
    "${a:",
    "a:any (= 1) [c] <d>",
];

fn with_dollar(s: &str) -> bool {
    s.contains('$')
}

/// a random, mostly well-formed relationship field
pub fn random_field(rng: &mut Rng) -> String {
    let names = ["libc6", "a", "python3-foo", "g++", "x.y~1", "0ad"];
    let archs = ["amd64", "i386", "any", "linux-any", "native"];
    let vers = ["1", "2.3-4", "1:2.0~rc1+b2", "0"];
    let ops = [">=", "<=", "=", ">>", "<<", "<", ">", ""];
    let profs = ["nocheck", "cross", "stage1", "pkg.foo.bar"];
    let sp = |rng: &mut Rng| -> &'static str { *rng.pick(&["", "", " ", " ", "  ", "\n ", "\t", "\r\n "]) };
    let mut s = String::new();
    if rng.chance(15) {
        s.push_str(sp(rng));
    }
    let ne = 1 + rng.below(4);
    for e in 0..ne {
        if e > 0 {
            s.push(',');
            s.push_str(sp(rng));
        }
        if rng.chance(15) {
            s.push_str(*rng.pick(&["${misc:Depends}", "${shlibs:Depends}", "${a}", "${}"]));
            continue;
        }
        if rng.chance(5) {
            continue; // empty entry
        }
        let nr = 1 + rng.below(3);
        for r in 0..nr {
            if r > 0 {
                s.push_str(sp(rng));
                s.push('|');
                s.push_str(sp(rng));
            }
            s.push_str(*rng.pick(&names));
            if rng.chance(25) {
                s.push_str(sp(rng));
                s.push(':');
                s.push_str(sp(rng));
                s.push_str(*rng.pick(&archs));
            }
            if rng.chance(50) {
                s.push_str(sp(rng));
                s.push('(');
                s.push_str(sp(rng));
                s.push_str(*rng.pick(&ops));
                s.push_str(sp(rng));
                s.push_str(*rng.pick(&vers));
                s.push_str(sp(rng));
                s.push(')');
            }
            if rng.chance(30) {
                s.push_str(sp(rng));
                s.push('[');
                for i in 0..1 + rng.below(3) {
                    if i > 0 {
                        s.push(' ');
                    }
                    if rng.chance(40) {
                        s.push('!');
                    }
                    s.push_str(*rng.pick(&archs));
                }
                s.push(']');
            }
            for _ in 0..rng.below(3) {
                if rng.chance(70) {
                    s.push_str(sp(rng));
                    s.push('<');
                    for i in 0..1 + rng.below(3) {
                        if i > 0 {
                            s.push_str(sp(rng));
                            if rng.chance(80) {
                                s.push(' ');
                            }
                        }
                        if rng.chance(50) {
                            s.push('!');
                            if rng.chance(10) {
                                s.push(' ');
                            }
                        }
                        s.push_str(*rng.pick(&profs));
                    }
                    s.push('>');
                }
            }
        }
    }
    if rng.chance(20) {
        s.push_str(*rng.pick(&[",", ", ", "\n", " ,\n"]));
    }
    s
}

/// reduced token pool for the longest tails
pub const TOKENS_SMALL: [&str; 10] = ["ab", ":", "|", ",", "(", "[", "<", ">", "!", " "];

fn exact_len(alphabet: &[&str], n: usize) -> Vec<String> {
    strings_upto(alphabet, n).into_iter().filter(|s| s.chars().count() == n).collect()
}

/// the texts of the C09 exploration
pub fn gen_c09_texts(tier: &str, seed: u64) -> Vec<String> {
    let thorough = tier == "thorough";
    let mut v: Vec<String> = vec![];
    // 1. exhaustive character level: every string over the per-class alphabet
    if thorough {
        v.extend(strings_upto(&ALPHABET_FULL, 4));
        v.extend(exact_len(&ALPHABET_MERGED, 5));
    } else {
        v.extend(strings_upto(&ALPHABET_FULL, 3));
        v.extend(exact_len(&ALPHABET_MERGED, 4));
        // length 4 over the characters the merged alphabet drops, with their neighbours
        let extra = ["a", "1", "-", " ", "\t", "\r", "\n", "@", "é", ",", "\u{a0}", "\u{c}"];
        v.extend(exact_len(&extra, 4));
    }
    // 2. token level: a context prefix that puts the parser inside a nested construct, followed
    //    by every tail of <= 3 tokens (thorough: <= 4 over the reduced pool as well)
    let tails = strings_upto(&TOKENS, if thorough { 3 } else { 2 });
    let tails_small = exact_len(&TOKENS_SMALL, if thorough { 4 } else { 3 });
    for p in PREFIXES.iter() {
        for t in tails.iter().chain(tails_small.iter()) {
            v.push(format!("{}{}", p, t));
        }
    }
    // sequences of 5 (thorough: 6) tokens over the sub-pools that drive one construct each
    let pools: [&[&str]; 6] = [
        &["a", " ", "(", ")", ">", "=", ":"], // version / constraint / epoch
        &["a", " ", "[", "]", "!", ","], // architectures
        &["a", " ", "<", ">", "!", "|"], // profiles
        &["a", " ", ":", "|", ",", "@"], // archqual, separators, junk
        &["$", "{", "}", "a", ":", ","], // substvars
        &["a", ",", "|", "(", "[", "<"], // unterminated blocks
    ];
    for pool in pools.iter() {
        v.extend(exact_len(pool, 5));
        if thorough {
            v.extend(exact_len(pool, 6));
        }
    }
    // 2b. characters a "lenient" rewrite is likely to special-case (BOM, Unicode white space other
    //     than space/tab/CR/LF, NUL, DEL): at every position of every short string over the core
    //     classes, and at the joints of realistic fields
    let core = ["a", " ", ",", "|", "(", "\n", "$"];
    for base in strings_upto(&core, if thorough { 3 } else { 2 }) {
        let chars: Vec<char> = base.chars().collect();
        for odd in crate::deb::ODD_CHARS.iter() {
            for i in 0..=chars.len() {
                let mut t: String = chars[..i].iter().collect();
                t.push_str(odd);
                t.extend(chars[i..].iter());
                v.push(t);
            }
        }
    }
    for odd in crate::deb::ODD_CHARS.iter() {
        for t in [
            format!("{}a (>= 1), b", odd),
            format!("a{}(>= 1), b", odd),
            format!("a (>={}1), b", odd),
            format!("a (>= 1),{}b", odd),
            format!("a (>= 1), b{}", odd),
            format!("a [{}i386] <{}x>", odd, odd),
            format!("a |{}b,\n{}c", odd, odd),
            format!("${{{}x}}, a", odd),
        ] {
            v.push(t);
        }
    }
    // 2c. layouts the strict parser accepts although the field grammar of C10 does not generate them:
    //     blanks between '!' and the name it negates, between the operator characters and around
    //     the epoch colon; every accessor reading (rel.view) and normalisation (rel.wrap) sees them
    for t in [
        "a [! b]",
        "a [! b !\n c]",
        "a [!b ! c d]",
        "a [ ! b ]",
        "a <! x>",
        "a <! x y>",
        "a <x ! y> <!\n z>",
        "libc6-dev [! hurd-i386 !\n kfreebsd-amd64], foo [!amd64]",
        "a (>=\n1)",
        "a ( >= 1 )",
        "a (>= 1 : 2)",
        "a : any",
        "a:any(>= 1)[b]<c>",
        // the table of the C10 audit (section 4): strictly accepted outside `FieldA.WF`, and the
        // neighbouring texts on which the readers differ or all reject
        "a :any",
        "a: any",
        "a\n:\nany",
        "a [! x]",
        "a [!]",
        "a [x !]",
        "a [!!x]",
        "a [! !x]",
        "a [x!y]",
        "a [x x]",
        "a []",
        "a <>",
        "a <x!y>",
        "a <!x!y>",
        "a <x !y> <z!w>",
        "a (1)",
        "a (> 1)",
        "a (< 1)",
        "a (== 1)",
        "a (<> 1)",
        "a (=> 1)",
        "a (>>= 1)",
        "a (= x:1)",
        "a (= 4294967296:1)",
        "a (= 4294967295:1)",
        "a (= 01:1)",
        "a (= 1:)",
        "a (= :1)",
        "a (= ::)",
        "a(=:)",
        "\u{a0}a",
        "a\u{c}, b",
        "a (>> 1)\u{b}",
        "a |\u{2003}b",
        "${}",
        "${:}",
        "${a:}",
        "${:a}",
        "${a::b}",
        "${}, a",
        "a (= ${binary:Version})",
        "${a:b} | c",
        "a | ${b}",
        "a ${b}",
        "a:any:any",
        "a (= 1) (= 2)",
        "a [x] [y]",
        "a <y> [x]",
        "a [x] (>= 1)",
    ] {
        v.push(t.to_string());
    }
    // 2d. volume of errors: many stray characters / unterminated constructs followed by relations
    //     (an "error limit" that gives up, a recovery path that only runs after N errors); the tail
    //     is not a palindrome at token level
    for unit in ["@ ", "@", "é", "$ ", "} ", "( ", ") ", "a b ", "% %", "[ ", "a (", "${", "< ", "a:: "] {
        for k in [2usize, 15, 16, 17, 31, 32, 33, 63, 64, 65, 99, 100, 101, 127, 128, 129, 255, 256, 257, 600] {
            if !thorough && k > 260 && unit.len() > 2 {
                continue;
            }
            for tail in ["", "foo (>= 1.0), bar | baz", ", a [b] <c>"] {
                let mut t = unit.repeat(k);
                t.push_str(tail);
                v.push(t);
            }
        }
    }
    // 3. seeded random well-formed fields, truncated at every position, plus one mutation each
    let mut rng = Rng::new(seed);
    let n = if thorough { 2000 } else { 300 };
    for _ in 0..n {
        let f = random_field(&mut rng);
        let idx: Vec<usize> = f.char_indices().map(|(i, _)| i).collect();
        for i in idx {
            v.push(f[..i].to_string());
        }
        v.push(f.clone());
        if !f.is_empty() {
            let cs: Vec<char> = f.chars().collect();
            let i = rng.below(cs.len());
            let c = rng.pick(&ALPHABET_FULL).chars().next().unwrap();
            let mut m = cs.clone();
            if rng.chance(50) {
                m[i] = c;
            } else {
                m.insert(i, c);
            }
            v.push(m.into_iter().collect());
        }
    }
    v.sort();
    v.dedup();
    v
}

pub fn generate_c09(tier: &str, seed: u64, out: &mut Out) {
    let texts = gen_c09_texts(tier, seed);
    for (i, t) in texts.iter().enumerate() {
        out.req("rel.read", &["0".to_string(), es(t)]);
        // `allow_substvar` is only consulted when a `$` is met (relations.rs:308): every text
        // with a `$` is read under both values, the others under allow=1 for a 1-in-16 sample
        // (same tree expected) and all of them up to length 3
        if with_dollar(t) || i % 16 == 0 || t.chars().count() <= 3 {
            out.req("rel.read", &["1".to_string(), es(t)]);
        }
    }
    // single-entry / single-relation readers: they only accept error-free texts, so take the
    // texts free of the characters that always produce an error (1 in 2 of them, all the short
    // ones) plus a thin sample of the rest
    for (i, t) in texts.iter().enumerate() {
        let plausible = !t.contains(['$', '{', '}', '@', 'é']);
        if t.chars().count() <= 3 || (plausible && i % 2 == 0) || i % 40 == 0 {
            out.req("rel.entry", &[es(t)]);
            out.req("rel.relation", &[es(t)]);
        }
    }
}

/// `every`-th text of the C09 exploration, the residue chosen by the seed (so that successive seeds
/// cover the whole set); `every = 1` keeps everything. All texts of <= 3 characters are kept.
fn sampled_c09_texts(tier: &str, seed: u64, every: usize) -> Vec<String> {
    let r = (seed as usize) % every.max(1);
    gen_c09_texts(tier, seed)
        .into_iter()
        .enumerate()
        .filter(|(i, t)| every <= 1 || i % every == r || t.chars().count() <= 3)
        .map(|(_, t)| t)
        .collect()
}

/// lossy reader + printer over the rendered C10 fields and the C09 texts — part of `check C14`
/// (also alone: `harness gen C14pre <tier> <seed>`, every text). Quick tier inside the check: every
/// third text; thorough: every text of the quick enumeration.
pub fn generate_c14pre(tier: &str, seed: u64, out: &mut Out) {
    generate_c14pre_every(tier, seed, out, 1)
}

pub fn generate_c14pre_every(tier: &str, seed: u64, out: &mut Out, every: usize) {
    let mut tmp = Out::new();
    generate_c10(tier, seed, &mut tmp);
    for l in tmp.lines {
        if let Some(h) = l.strip_prefix("rel.field\t") {
            if let Some(f) = crate::relspec::FieldA::dec(h) {
                out.req("rel.lprint", &[es(&f.text())]);
            }
        }
    }
    for t in sampled_c09_texts("quick", seed, every) {
        out.req("rel.lprint", &[es(&t)]);
        out.req("rel.lossy", &[es(&t)]);
    }
}

/// accessor views over the C09 texts, and `debversion::Version::from_str` over its own alphabet —
/// part of `check C10` (also alone: `harness gen C10pre <tier> <seed>`, every text). Quick tier
/// inside the check: every second text, every version text of <= 4 characters and every second one
/// of 5; thorough: every fourth text of the thorough enumeration, version texts to 6 likewise.
pub fn generate_c10pre(tier: &str, seed: u64, out: &mut Out) {
    generate_c10pre_every(tier, seed, out, 1)
}

pub fn generate_c10pre_every(tier: &str, seed: u64, out: &mut Out, every: usize) {
    for t in sampled_c09_texts(tier, seed, every) {
        out.req("rel.view", &[if with_dollar(&t) { "1" } else { "0" }.to_string(), es(&t)]);
    }
    let valpha = ["1", "0", "a", ":", "-", ".", "+", "~", "_", "é", "٣"];
    let r = (seed as usize) % every.max(1);
    let vmax = if tier == "thorough" { 6 } else { 5 };
    for (i, t) in strings_upto(&valpha, vmax).into_iter().enumerate() {
        if every <= 1 || t.chars().count() < vmax || i % every == r {
            out.req("rel.version", &[es(&t)]);
        }
    }
    for t in ["4294967295:1", "4294967296:1", "00000000001:1", "99999999999999999999:1", "1:-", "1:-1", "1:a-", "a--b", "-a-b"] {
        out.req("rel.version", &[es(t)]);
    }
}

/// C10: structured well-formed fields (harness/src/relspec.rs) in every layout
pub fn generate_c10(tier: &str, seed: u64, out: &mut Out) {
    use crate::relspec::*;
    let thorough = tier == "thorough";
    let mut rng = Rng::new(seed);
    let layouts = [Layout::Canonical, Layout::Minimal, Layout::Spaces, Layout::Folded];
    let mut emit = |f: &FieldA, out: &mut Out| out.req("rel.field", &[f.enc()]);
    // 1. exhaustive: one relation with each subset of optional parts, in every layout and every
    //    context (alone / before `,` / before and after `|` / with trailing whitespace)
    let reps = if thorough { 6 } else { 1 };
    for _ in 0..reps {
        for &layout in &layouts {
            for wild in [false, true] {
                if wild && (layout == Layout::Canonical || layout == Layout::Minimal) && !thorough {
                    // the finding constructs that do not depend on whitespace are covered once
                }
                let pol = Policy { layout, wild };
                for archqual in [false, true] {
                    for (version, epoch) in [(false, false), (true, false), (true, true)] {
                        for archs in [0usize, 1, 2] {
                            for groups in [0usize, 1, 2] {
                                // clean cases outnumber wild ones 3:1 (wild ones lie in trigger regions)
                                let n = if wild { 1 } else { 3 };
                                for _ in 0..n {
                                    let r = make_rel(&mut rng, &pol, &Parts { archqual, version, epoch, archs, groups });
                                    for f in contexts(&mut rng, &pol, &r) {
                                        emit(&f, out);
                                    }
                                }
                            }
                        }
                    }
                }
            }
        }
    }
    // 2. seeded random fields x layout policies
    let n = if thorough { 930_000 } else { 18_000 };
    for i in 0..n {
        let pol = Policy { layout: layouts[i % 4], wild: rng.chance(22) };
        let sv = rng.chance(35);
        let f = random_field(&mut rng, &pol, sv);
        emit(&f, out);
    }
    // 3. the degenerate fields
    for f in [
        FieldA { segs: vec![] },
        FieldA { segs: vec![Seg { pre: " ".to_string(), entry: EntryA::Empty, post: String::new() }] },
        FieldA {
            segs: vec![
                Seg { pre: String::new(), entry: EntryA::Empty, post: String::new() },
                Seg { pre: String::new(), entry: EntryA::Empty, post: String::new() },
            ],
        },
    ] {
        emit(&f, out);
    }
}

#[allow(unused)]
fn _types(_: Entry, _: Relation) {}
