//! relationship fields (debian-control relations): C09 reader round-trip
use crate::util::*;
use crate::Resp;
use debian_control::lossless::relations::{Entry, Relation, Relations};
use std::str::FromStr;

pub fn handle(op: &str, a: &[&str]) -> Option<Resp> {
    match (op, a) {
        ("rel.read", [allow, t]) => {
            let s = ds(t)?;
            let allow = *allow == "1";
            let (r, errs) = Relations::parse_relaxed(&s, allow);
            let printed = r.to_string();
            let mut fail = None;
            if printed != s {
                fail = Some("parse_relaxed(s).to_string() != s".to_string());
            }
            let strict = if !allow {
                let st = Relations::from_str(&s);
                if st.is_ok() != errs.is_empty() {
                    fail = Some("from_str.is_ok() != parse_relaxed(s,false) errors.is_empty()".to_string());
                }
                match st {
                    Ok(r2) => {
                        if r2.to_string() != s {
                            fail = Some("from_str(s).to_string() != s".to_string());
                        }
                        "ok"
                    }
                    Err(_) => "err",
                }
            } else {
                "-"
            };
            Some(Resp::with(format!("{} {} {}", es(&printed), errs.len(), strict), fail))
        }
        _ => None,
    }
}

#[allow(unused)]
fn _types(_: Entry, _: Relation) {}
