//! C07: wrap-and-sort at the deb822 level (Entry / Paragraph / Deb822) and through the control-file
//! wrappers (formatter `c`: Control / Source / Binary::wrap_and_sort of debian-control)
use crate::deb::{dump_node, enc_items};
use crate::docspec;
use crate::util::*;
use crate::Resp;
use deb822_lossless::lossless::Entry;
use deb822_lossless::{Deb822, Indentation, Paragraph};
use rowan::ast::AstNode;
use std::str::FromStr;

#[derive(Clone)]
struct Cfg {
    ind: Indentation,
    imm: bool,
    max: Option<usize>,
    ecmp: String,
    pcmp: String,
    fmt: String,
}

fn dec_cfg(f: &str) -> Option<Cfg> {
    let p: Vec<&str> = f.split('/').collect();
    if p.len() != 6 {
        return None;
    }
    Some(Cfg {
        ind: if p[0] == "f" { Indentation::FieldNameLength } else { Indentation::Spaces(p[0].parse().ok()?) },
        imm: p[1] == "1",
        max: if p[2] == "n" { None } else { Some(p[2].parse().ok()?) },
        ecmp: p[3].to_string(),
        pcmp: p[4].to_string(),
        fmt: p[5].to_string(),
    })
}

fn fmt_identity(_k: &str, v: &str) -> String {
    v.to_string()
}
fn fmt_comma_lines(_k: &str, v: &str) -> String {
    v.split(',').map(|s| s.trim().to_string()).collect::<Vec<_>>().join(",\n")
}

pub const REL_FIELDS: [&str; 12] = [
    "Build-Depends",
    "Build-Depends-Indep",
    "Build-Depends-Arch",
    "Build-Conflicts",
    "Build-Conflicts-Indep",
    "Build-Conflics-Arch",
    "Depends",
    "Recommends",
    "Suggests",
    "Enhances",
    "Pre-Depends",
    "Breaks",
];

/// what the control-file formatter (private `format_field` of debian-control) is expected to return,
/// computed from public API: Uploaders one per line; relationship fields normalised by
/// `Relations::wrap_and_sort` (read with substitution variables allowed; a field that does not parse
/// is left alone); every other field unchanged. `None` = the normalisation itself panics (a relation
/// such as `a (> 1)` whose operator the accessors cannot read).
fn fmt_control(k: &str, v: &str) -> Option<String> {
    use debian_control::lossless::relations::Relations;
    if k == "Uploaders" {
        return Some(fmt_comma_lines(k, v));
    }
    if REL_FIELDS.contains(&k) {
        let (r, errs) = Relations::parse_relaxed(v, true);
        if !errs.is_empty() {
            return Some(v.to_string());
        }
        return std::panic::catch_unwind(std::panic::AssertUnwindSafe(|| r.wrap_and_sort().to_string())).ok();
    }
    Some(v.to_string())
}

/// a formatter that rewrites its value: the comma-separated items trimmed, sorted, joined by ", "
fn fmt_sort_items(_k: &str, v: &str) -> String {
    let mut items: Vec<String> = v.split(',').map(|s| s.trim().to_string()).collect();
    items.sort();
    items.join(", ")
}

fn wrap_para(c: &Cfg, p: &Paragraph) -> Paragraph {
    if c.fmt == "c" {
        // through the typed wrappers: Source for a paragraph with a Source field, Binary otherwise
        return if p.get("Source").is_some() {
            let mut s = debian_control::lossless::control::Source::from(Paragraph::cast(p.syntax().clone()).unwrap());
            s.wrap_and_sort(c.ind, c.imm, c.max);
            s.into()
        } else {
            let mut b = debian_control::lossless::control::Binary::from(Paragraph::cast(p.syntax().clone()).unwrap());
            b.wrap_and_sort(c.ind, c.imm, c.max);
            b.into()
        };
    }
    let by_key = |a: &Entry, b: &Entry| a.key().cmp(&b.key());
    let by_val = |a: &Entry, b: &Entry| a.value().cmp(&b.value());
    let ecmp: Option<&dyn Fn(&Entry, &Entry) -> std::cmp::Ordering> = match c.ecmp.as_str() {
        "k" => Some(&by_key),
        "v" => Some(&by_val),
        _ => None,
    };
    let fmt: Option<&dyn Fn(&str, &str) -> String> = match c.fmt.as_str() {
        "i" => Some(&fmt_identity),
        "u" => Some(&fmt_comma_lines),
        "s" => Some(&fmt_sort_items),
        _ => None,
    };
    p.wrap_and_sort(c.ind, c.imm, c.max, ecmp, fmt)
}

fn wrap_entry(c: &Cfg, e: &Entry) -> Entry {
    let fmt: Option<&dyn Fn(&str, &str) -> String> = match c.fmt.as_str() {
        "i" => Some(&fmt_identity),
        "u" => Some(&fmt_comma_lines),
        "s" => Some(&fmt_sort_items),
        _ => None,
    };
    e.wrap_and_sort(c.ind, c.imm, c.max, fmt)
}

fn wrap_doc(c: &Cfg, d: &Deb822) -> Deb822 {
    if c.fmt == "c" {
        let mut ctl = debian_control::lossless::Control::from(Deb822::cast(d.syntax().clone()).unwrap());
        ctl.wrap_and_sort(c.ind, c.imm, c.max);
        return ctl.into();
    }
    let by_pkg = |a: &Paragraph, b: &Paragraph| a.get("Package").cmp(&b.get("Package"));
    // a comparator on a value the formatters rewrite: the order is that of the REFORMATTED paragraphs
    let by_dep = |a: &Paragraph, b: &Paragraph| a.get("Depends").cmp(&b.get("Depends"));
    let pcmp: Option<&dyn Fn(&Paragraph, &Paragraph) -> std::cmp::Ordering> =
        if c.pcmp == "p" { Some(&by_pkg) } else if c.pcmp == "d" { Some(&by_dep) } else { None };
    let wp = |p: &Paragraph| wrap_para(c, p);
    if c.fmt == "x" {
        // no per-paragraph callback at all
        d.wrap_and_sort(pcmp, None)
    } else {
        d.wrap_and_sort(pcmp, Some(&wp))
    }
}

type Items = Vec<(String, String)>;

/// what one application returns: printed text, live content, tree dump
struct Out1 {
    text: String,
    content: Vec<Items>,
    dump: String,
}

enum Obj {
    D(Deb822),
    P(Paragraph),
    E(Entry),
    Empty,
}

fn first_entry(p: &Paragraph) -> Option<Entry> {
    // Entry handles are not exposed by an iterator; reach the first ENTRY through the syntax tree
    p.syntax().children().find_map(Entry::cast)
}

fn apply(level: &str, c: &Cfg, o: &Obj) -> Obj {
    match (level, o) {
        ("d", Obj::D(d)) => Obj::D(wrap_doc(c, d)),
        ("p", Obj::P(p)) => Obj::P(wrap_para(c, p)),
        ("e", Obj::E(e)) => Obj::E(wrap_entry(c, e)),
        _ => Obj::Empty,
    }
}

fn describe(o: &Obj) -> Out1 {
    fn dump<N: AstNode>(n: &N) -> String
    where
        <N::Language as rowan::Language>::Kind: std::fmt::Debug,
    {
        let mut s = String::new();
        dump_node(n.syntax(), &mut s);
        s
    }
    match o {
        Obj::D(d) => Out1 { text: d.to_string(), content: d.paragraphs().map(|p| p.items().collect()).collect(), dump: dump(d) },
        Obj::P(p) => Out1 { text: p.to_string(), content: vec![p.items().collect()], dump: format!("(ROOT {})", dump(p)) },
        Obj::E(e) => Out1 {
            text: e.to_string(),
            content: vec![e.key().map(|k| vec![(k, e.value())]).unwrap_or_default()],
            dump: format!("(ROOT (PARAGRAPH {}))", dump(e)),
        },
        Obj::Empty => Out1 { text: String::new(), content: vec![], dump: "(ROOT)".to_string() },
    }
}

fn nb_trim(v: &str) -> Vec<String> {
    v.split('\n').map(|l| l.trim().to_string()).filter(|l| !l.is_empty()).collect()
}

fn comment_lines(text: &str) -> Vec<String> {
    text.split('\n').filter(|l| l.starts_with('#')).map(|l| l.to_string()).collect()
}

pub fn handle(op: &str, a: &[&str]) -> Option<Resp> {
    match (op, a) {
        ("deb.wrap", [level, t, cfg]) => {
            let s = ds(t)?;
            let c = dec_cfg(cfg)?;
            let (doc, errs) = Deb822::from_str_relaxed(&s);
            let start = match *level {
                "d" => Obj::D(doc),
                "p" => match doc.paragraphs().next() {
                    Some(p) => Obj::P(p),
                    None => Obj::Empty,
                },
                "e" => match doc.paragraphs().next().and_then(|p| first_entry(&p)) {
                    Some(e) => Obj::E(e),
                    None => Obj::Empty,
                },
                _ => return None,
            };
            let before = describe(&start);
            // control formatter: a relationship field with a version component above i32::MAX may make
            // debversion's Version::cmp panic inside the sort (F-C12-1); which comparisons the sort
            // makes is not modelled: both sides answer BIGNUM, the call is still made and a panic is
            // reported under the open finding F-C07-8
            if c.fmt == "c" {
                use debian_control::lossless::relations::Relations;
                let big = before.content.iter().any(|p| {
                    p.iter().any(|(k, v)| {
                        REL_FIELDS.contains(&k.as_str()) && {
                            let (r, e) = Relations::parse_relaxed(v, true);
                            e.is_empty() && crate::reledit::has_big_number(&r)
                        }
                    })
                });
                if big {
                    let panicked = std::panic::catch_unwind(std::panic::AssertUnwindSafe(|| describe(&apply(level, &c, &start)).text)).is_err();
                    return Some(Resp::with(
                        "BIGNUM".to_string(),
                        if panicked { Some("wrap_and_sort panics comparing a numeric version component above i32::MAX".to_string()) } else { None },
                    ));
                }
            }
            // a panic is a violation only inside the property's domain (error-free documents,
            // indentation of at least one column)
            // control formatter: a relationship field whose normalisation itself panics (an operator
            // the accessors cannot read, `a (> 1)`) is outside the domain
            let fmt_c_ok = c.fmt != "c" || before.content.iter().all(|p| p.iter().all(|(k, v)| fmt_control(k, v).is_some()));
            let in_domain0 = errs.is_empty() && !s.contains('\r') && !matches!(c.ind, Indentation::Spaces(0)) && fmt_c_ok;
            let run = std::panic::catch_unwind(std::panic::AssertUnwindSafe(|| {
                let once = apply(level, &c, &start);
                let o1 = describe(&once);
                let twice = apply(level, &c, &once);
                let o2 = describe(&twice);
                (o1, o2)
            }));
            let (o1, o2) = match run {
                Ok(x) => x,
                Err(_) => {
                    return Some(Resp::with(
                        "PANIC".to_string(),
                        if in_domain0 { Some("panic on an error-free document".to_string()) } else { None },
                    ))
                }
            };
            // the property's oracle, on error-free LF documents with an indentation of >= 1 column
            let indent_ok = !matches!(c.ind, Indentation::Spaces(0));
            let mut fail = None;
            if errs.is_empty() && !s.contains('\r') && indent_ok && fmt_c_ok {
                // every paragraph and field kept; values keep their non-blank lines up to
                // surrounding whitespace (no formatter / identity formatter) or are exactly the
                // formatter's output
                // every paragraph and field kept: values keep their non-blank lines up to
                // surrounding whitespace (no formatter / identity) or are the formatter's output
                type NF = (String, Vec<String>);
                let norm_before: Vec<Vec<NF>> = before
                    .content
                    .iter()
                    .map(|p| {
                        p.iter()
                            .map(|(k, v)| {
                                let v2 = if c.fmt == "u" {
                                    fmt_comma_lines(k, v)
                                } else if c.fmt == "s" {
                                    fmt_sort_items(k, v)
                                } else if c.fmt == "c" {
                                    fmt_control(k, v).unwrap_or_else(|| v.clone())
                                } else {
                                    v.clone()
                                };
                                (k.clone(), nb_trim(&v2))
                            })
                            .collect()
                    })
                    .collect();
                let norm_after: Vec<Vec<NF>> =
                    o1.content.iter().map(|p| p.iter().map(|(k, v)| (k.clone(), nb_trim(v))).collect()).collect();
                let sort_entries = c.ecmp != "n" && *level != "e" && c.fmt != "x" && c.fmt != "c";
                let ctl_doc = c.fmt == "c" && *level == "d";
                let sort_paras = ((c.pcmp == "p" || c.pcmp == "d") && c.fmt != "c" || ctl_doc) && *level == "d";
                let canon = |ps: &Vec<Vec<NF>>| -> Vec<Vec<NF>> {
                    let mut ps: Vec<Vec<NF>> = ps
                        .iter()
                        .map(|p| {
                            let mut p = p.clone();
                            if sort_entries {
                                p.sort();
                            }
                            p
                        })
                        .collect();
                    if sort_paras {
                        ps.sort();
                    }
                    ps
                };
                if canon(&norm_before) != canon(&norm_after) {
                    fail = Some(format!("content changed: {:?} -> {:?}", before.content, o1.content));
                }
                // ... in the requested order (an order of what is written out)
                if fail.is_none() && sort_entries {
                    for p in &o1.content {
                        let ok = match c.ecmp.as_str() {
                            "k" => p.windows(2).all(|w| w[0].0 <= w[1].0),
                            _ => p.windows(2).all(|w| w[0].1 <= w[1].1),
                        };
                        if !ok {
                            fail = Some(format!("entries not in the requested order: {:?}", p));
                        }
                    }
                }
                if fail.is_none() && ctl_doc {
                    // Source paragraphs first (by name), then the others by Package
                    let keys: Vec<(u8, Option<String>)> = o1
                        .content
                        .iter()
                        .map(|p| match p.iter().find(|f| f.0 == "Source") {
                            Some(f) => (0u8, Some(f.1.clone())),
                            None => (1u8, p.iter().find(|f| f.0 == "Package").map(|f| f.1.clone())),
                        })
                        .collect();
                    if !keys.windows(2).all(|w| w[0] <= w[1]) {
                        fail = Some(format!("paragraphs not in the control-file order: {:?}", keys));
                    }
                }
                if fail.is_none() && sort_paras && !ctl_doc {
                    let sort_key = if c.pcmp == "d" { "Depends" } else { "Package" };
                    let keys: Vec<Option<String>> = o1
                        .content
                        .iter()
                        .map(|p| p.iter().find(|f| f.0 == sort_key).map(|f| f.1.clone()))
                        .collect();
                    if !keys.windows(2).all(|w| w[0] <= w[1]) {
                        fail = Some(format!("paragraphs not in the requested order: {:?}", keys));
                    }
                }
                // comments kept, each on a line of its own
                if fail.is_none() {
                    let mut cb = comment_lines(&before.text);
                    let mut ca = comment_lines(&o1.text);
                    if (c.ecmp == "n" && c.pcmp == "n" && c.fmt != "c") || (c.fmt == "c" && *level != "d") {
                        if cb != ca {
                            fail = Some(format!("comment lines changed: {:?} -> {:?}", cb, ca));
                        }
                    } else {
                        cb.sort();
                        ca.sort();
                        if cb != ca {
                            fail = Some(format!("comment lines changed: {:?} -> {:?}", cb, ca));
                        }
                    }
                }
                // the result parses strictly and re-reads to the content the returned object reports
                if fail.is_none() {
                    match Deb822::from_str(&o1.text) {
                        Err(_) => fail = Some(format!("result does not parse strictly: {:?}", o1.text)),
                        Ok(d2) => {
                            let re: Vec<Items> = d2.paragraphs().map(|p| p.items().collect()).collect();
                            let live: Vec<Items> = o1.content.iter().filter(|p| !p.is_empty()).cloned().collect();
                            if re != live {
                                fail = Some(format!("re-read content {:?} differs from the returned object's {:?}", re, live));
                            }
                        }
                    }
                }
                // continuation lines are indented by exactly the requested width
                if fail.is_none() {
                    if let (Indentation::Spaces(n), true) = (c.ind, c.fmt != "x") {
                        for l in o1.text.split('\n') {
                            if l.starts_with(' ') || l.starts_with('\t') {
                                let w = l.len() - l.trim_start_matches(' ').len();
                                if w != n as usize && !l.trim().is_empty() {
                                    fail = Some(format!("continuation line {:?} is not indented by {}", l, n));
                                }
                            }
                        }
                    }
                }
                // paragraphs separated by exactly one blank line
                if fail.is_none() && *level == "d" && o1.text.contains("\n\n\n") {
                    fail = Some("more than one blank line between paragraphs".to_string());
                }
                // idempotent
                if fail.is_none() && o2.text != o1.text {
                    fail = Some(format!("second application changes the text: {:?} -> {:?}", o1.text, o2.text));
                }
            }
            Some(Resp::with(
                format!(
                    "{} {} {} 2:{}",
                    es(&o1.text),
                    if o1.content.is_empty() { String::new() } else { o1.content.iter().map(|p| enc_items(p)).collect::<Vec<_>>().join(";") },
                    o1.dump,
                    es(&o2.text)
                ),
                fail,
            ))
        }
        _ => None,
    }
}

pub fn generate_c07(tier: &str, seed: u64, out: &mut Out) {
    let thorough = tier == "thorough";
    let mut rng = Rng::new(seed);
    let inds = ["1", "2", "4", "8", "f"];
    let imms = ["0", "1"];
    let maxs = ["n", "10", "79", "1000"];
    let ecmps = ["n", "k", "v"];
    let pcmps = ["n", "p"];
    let fmts = ["n", "i", "u"];
    let mut cfgs: Vec<String> = vec![];
    for i in inds {
        for m in imms {
            for x in maxs {
                for e in ecmps {
                    for p in pcmps {
                        for f in fmts {
                            cfgs.push(format!("{}/{}/{}/{}/{}/{}", i, m, x, e, p, f));
                        }
                    }
                }
            }
        }
    }
    let fixed = [
        "A: b\n",
        "A: b",
        "A: b\nB: c\n",
        "B: c\nA: b\nA: a\n",
        "A: b,\n c,\n d\n",
        "A:\n b\n c\n",
        "A: b, c,  d\n",
        "A: b\n# c\nB: d\n",
        "# lead\nA: b\n",
        "# lead\n\nA: b\n\n# mid\n\nPackage: z\n\nPackage: a\nX: y\n",
        "A: b\n\n\n\nB: c\n",
        "Package: b\nDepends: x,\n    y,\n\tz\n\nPackage: a\n",
        "A: b\n# tail\n",
        "Long: aaaaaaaaaaaaaaaaaaaaaaaaaaaaaaaaaaaaaaaaaaaaaaaaaaaaaaaaaaaaaaaaaaaaaaaaaaaaaaaaaaaaaaaa\n",
        "É: x\n",
        "Description: short\n \n long text\nPackage: x\n",
        "A: b\n\t\n \n c\n",
        "Section:\n net\n",
        "Homepage:\n https://example.com/\nSource: x\n",
        "B: 1\n\nA: 2",
        "Package: b\nX: 1\n\nPackage: a",
        "Package: b\n\n# c\nPackage: a\nY: 2",
        // comment lines inside a value: before the first text, between lines, last
        "A:\n #c\n b\n",
        "A:\n # c\n",
        "A: x\n #c\n y\nB: z\n",
        "A: x\n # last\nB: z\n",
    ];
    // many paragraphs / entries with equal sort keys: an unstable sort shows only beyond ~20 elements
    let mut many_paras = String::new();
    let mut many_entries = String::new();
    for i in 0..45 {
        many_paras.push_str(&format!("Package: {}\nN: {}\n\n", ["c", "b", "a"][i % 3], i));
        many_entries.push_str(&format!("{}: {}\n", ["K", "J", "I"][i % 3], ["v", "u"][i % 2]));
    }
    // error trees (outside the oracle's domain: only model and implementation are compared): the
    // last paragraph ends in an EMPTY ERROR node, `last_token()` is `None`, no terminator is supplied
    let error_trees = ["A", "A\nB: c", "A: b\nC", "A: b\n\nC", "C\n\nA: b"];
    // document level without a paragraph callback (only sorting / blank-line normalisation)
    for t in fixed.iter().chain(error_trees.iter()) {
        for c in ["1/0/n/n/p/x", "1/0/n/n/n/x"] {
            out.req("deb.wrap", &["d".to_string(), es(t), c.to_string()]);
        }
    }
    for c in ["1/0/n/k/p/n", "4/0/n/v/p/n", "2/1/79/k/p/i"] {
        out.req("deb.wrap", &["d".to_string(), es(&many_paras), c.to_string()]);
        out.req("deb.wrap", &["d".to_string(), es(&many_entries), c.to_string()]);
        out.req("deb.wrap", &["p".to_string(), es(&many_entries), c.to_string()]);
    }
    // a paragraph comparator on a value that the formatter rewrites ("z, a" < "b, c" flips once the
    // items are sorted): the requested order is that of the reformatted paragraphs
    for t in [
        "Package: one\nDepends: z, a\n\nPackage: two\nDepends: b, c\n",
        "Package: two\nDepends: b, c\n\nPackage: one\nDepends: z, a\n",
        "Package: p\nDepends: y,x\n\nPackage: q\nDepends: x , z\n\nPackage: r\n",
    ] {
        for cfg in ["1/0/n/n/d/s", "4/1/79/n/d/s", "2/0/n/k/d/s", "1/0/n/n/d/n", "1/0/n/n/d/u", "1/0/n/n/p/s"] {
            out.req("deb.wrap", &["d".to_string(), es(t), cfg.to_string()]);
        }
    }
    // open finding F-C07-10: an item that starts with '#' after a comma ends up, one per line, at the
    // start of a continuation line and reads back as a comment (formatters u / c; s joins on one line)
    for t in [
        "Uploaders: A <a@b>, #B\n",
        "Uploaders: A, #B, C\n",
        "Source: x\nUploaders: A <a@b>, #B\n\nPackage: p\nDepends: a\n",
        "A: x, #y\nB: c\n",
        "A: x,   #y, z\n",
    ] {
        for cfg in ["4/0/n/n/n/u", "2/1/n/n/n/u", "1/0/79/n/n/u", "4/0/n/n/n/c", "2/1/20/n/n/c", "4/0/n/n/n/s", "4/0/n/n/n/i"] {
            for level in ["d", "p", "e"] {
                if cfg.ends_with("/c") && level == "e" {
                    continue;
                }
                out.req("deb.wrap", &[level.to_string(), es(t), cfg.to_string()]);
            }
        }
    }
    // the control-file wrappers (formatter `c`): Control at document level, Source / Binary on the
    // first paragraph; realistic control files with every formatted field, substitution variables,
    // unsorted / folded / oddly spaced relationship fields, comments, several source paragraphs
    let ctl_docs = [
        "Source: a\nBuild-Depends: z, b (>= 1),\n a\n\nPackage: b\nDepends: ${misc:Depends}, c\n",
        "Source: a\nUploaders: A <a@b>, B <b@c>\nBuild-Depends: z, a\n\nPackage: z\nDepends: y\n\nPackage: b\nDepends: c | a\n",
        "Source: s\nMaintainer: M <m@e>\nUploaders:\n U1 <u1@e>,\n U2 <u2@e>\nBuild-Depends: debhelper-compat (= 13), x [!amd64] <!nocheck> | y:any (>> 1:2~)\nBuild-Depends-Indep:\n p,\n o\nBuild-Conflicts: q\nBuild-Conflicts-Arch: k, j\nBuild-Conflics-Arch: k, j\nVcs-Git: https://x/y.git\n\n# about b\nPackage: b\nArchitecture: any\nDepends: ${shlibs:Depends}, ${misc:Depends}, b2 (<< 2), a1\nRecommends: r2, r1\nSuggests: s\nEnhances: e\nPre-Depends: ${misc:Pre-Depends}\nBreaks: old (<< 1)\nConflicts: zz, aa\nDescription: short\n long\n .\n more\n\nPackage: a\nArchitecture: all\nDepends: a1,a0\n",
        "Package: b\nDepends: b, a\n\nSource: s2\n\nPackage: a\n\nSource: s1\nBuild-Depends: x\n",
        // paragraphs with neither Source nor Package between binary packages that are out of order
        // (they sort in front of every named package)
        "Source: s\n\nPackage: zzz\n\nX-Comment: nameless\n\nPackage: aaa\n",
        "Package: b\n\nX: 1\n\nPackage: a\n\nY: 2\n\nPackage: 0\n",
        "X: 1\n\nPackage: b\nDepends: z, a\n\nSource: s\n\nY: 2\n\nPackage: a\n",
        "Package: x\nDepends: a (\n",
        "Package: x\nDepends: a (> 1)\n",
        "Package: x\nDepends: a (>= 3000000000), a (>= 3000000001), b\n",
        "Package: x\nDepends: , a, , b,\n",
        "Package: x\nDepends:\nRecommends: \n",
        "Source: s\nBuild-Depends: b,\n# a comment inside the field\n a\n",
        "Source: s\nUploaders: Doe, John <j@e>, B <b@e>\n",
        "Source: s\nBuild-Depends: a (>= 1) | b [i386]  <x>   ,c\nX-Other: kept  as is\n",
        "# lead\n\nPackage: p\nDepends: z | a, m\n\n# mid\n\nSource: s\n",
        // alternatives that compare equal but are written differently, with irregular spacing
        "Package: x\nDepends: libbar (>= 0:1.2) | libbar  (>= 1.2), libc6\n",
        "Package: x\nDepends: libbar  (>= 1.2) | libbar (>= 0:1.2), libc6\n",
        "Package: x\nDepends: libbar [amd64 i386] | libbar  [i386 amd64]\nRecommends: foo  [i386 amd64] | foo [amd64 i386]\n",
    ];
    for t in ctl_docs.iter() {
        for ind in ["1", "2", "4", "f"] {
            for imm in ["0", "1"] {
                for mx in ["n", "20", "79"] {
                    for level in ["d", "p"] {
                        out.req("deb.wrap", &[level.to_string(), es(t), format!("{}/{}/{}/n/n/c", ind, imm, mx)]);
                    }
                }
            }
        }
    }
    {
        // seeded control files: relationship fields from the relation generator (with substvars)
        let nctl = if thorough { 20_000 } else { 1_500 };
        let rel_names = ["Build-Depends", "Depends", "Recommends", "Pre-Depends", "Breaks", "Conflicts", "Build-Conflics-Arch"];
        for _ in 0..nctl {
            let mut t = String::new();
            let nparas = 1 + rng.below(4);
            for i in 0..nparas {
                if i > 0 {
                    t.push('\n');
                }
                if rng.chance(10) {
                    t.push_str("# c\n");
                }
                if rng.chance(12) {
                    // a paragraph that is neither a source nor a binary package
                    t.push_str(&format!("X-Note: {}\n", rng.pick(&["n", "m"])));
                } else if i == 0 && rng.chance(70) {
                    t.push_str(&format!("Source: {}\n", rng.pick(&["s", "a", "zz"])));
                } else {
                    t.push_str(&format!("Package: {}\n", rng.pick(&["b", "a", "c", "a"])));
                }
                for _ in 0..rng.below(3) {
                    let f = crate::rel::random_field(&mut rng);
                    if f.contains("\n\n") || f.trim().is_empty() {
                        continue;
                    }
                    let folded = f.replace('\n', "\n ");
                    t.push_str(&format!("{}: {}\n", rng.pick(&rel_names), folded.trim()));
                }
                if rng.chance(30) {
                    t.push_str("Uploaders: B <b@e>,A <a@e>\n");
                }
                if rng.chance(30) {
                    t.push_str("Description: d\n long\n");
                }
            }
            let cfg = format!("{}/{}/{}/n/n/c", rng.pick(&["1", "2", "4", "f"]), rng.pick(&["0", "1"]), rng.pick(&["n", "20", "79"]));
            out.req("deb.wrap", &[rng.pick(&["d", "d", "p"]).to_string(), es(&t), cfg]);
        }
    }
    // every error-free short text over the character classes, under a few settings
    let short = strings_upto(&crate::deb::ALPHABET, if thorough { 5 } else { 4 });
    for t in short.iter() {
        if deb822_lossless::Deb822::from_str(t).is_ok() {
            for c in ["2/0/n/n/n/n", "1/1/10/k/p/i", "f/0/79/v/n/u"] {
                out.req("deb.wrap", &["d".to_string(), es(t), c.to_string()]);
            }
        }
    }
    let stride = if thorough { 1 } else { 6 };
    for (n, c) in cfgs.iter().enumerate() {
        for (m, t) in fixed.iter().enumerate() {
            if (n + m) % stride != 0 {
                continue;
            }
            for level in ["d", "p", "e"] {
                out.req("deb.wrap", &[level.to_string(), es(t), c.clone()]);
            }
        }
    }
    let n = if thorough { 1_000_000 } else { 8_000 };
    for _ in 0..n {
        let ls = docspec::random_lines(&mut rng, false);
        let text = docspec::render(&ls, rng.chance(85));
        let c = rng.pick(&cfgs).clone();
        let level = *rng.pick(&["d", "d", "p", "e"]);
        out.req("deb.wrap", &[level.to_string(), es(&text), c]);
    }
}
