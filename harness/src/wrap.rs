//! C07: wrap-and-sort at the deb822 level (Entry / Paragraph / Deb822) and through the control-file
//! wrappers (formatter `c`: Control / Source / Binary::wrap_and_sort of debian-control)
use crate::deb::{dump_node, enc_items};
use crate::docspec;
use crate::util::*;
use crate::Resp;
use deb822_lossless::lossless::Entry;
use deb822_lossless::{Deb822, Indentation, Paragraph};
use rowan::ast::AstNode;
use std::str::FromStr;

#[derive(Clone)]
struct Cfg {
    ind: Indentation,
    imm: bool,
    max: Option<usize>,
    ecmp: String,
    pcmp: String,
    fmt: String,
}

fn dec_cfg(f: &str) -> Option<Cfg> {
    let p: Vec<&str> = f.split('/').collect();
    if p.len() != 6 {
        return None;
    }
    Some(Cfg {
        ind: if p[0] == "f" { Indentation::FieldNameLength } else { Indentation::Spaces(p[0].parse().ok()?) },
        imm: p[1] == "1",
        max: if p[2] == "n" { None } else { Some(p[2].parse().ok()?) },
        ecmp: p[3].to_string(),
        pcmp: p[4].to_string(),
        fmt: p[5].to_string(),
    })
}

fn fmt_identity(_k: &str, v: &str) -> String {
    v.to_string()
}
fn fmt_comma_lines(_k: &str, v: &str) -> String {
    v.split(',').map(|s| s.trim().to_string()).collect::<Vec<_>>().join(",\n")
}

/// formatters whose output lines after the first START WITH A BLANK (audit D3): `join(",\n ")` and
/// `join(",\n\t")`; the blank belongs to the formatter's line and is kept behind the indentation
fn fmt_comma_lines_sp(_k: &str, v: &str) -> String {
    v.split(',').map(|s| s.trim().to_string()).collect::<Vec<_>>().join(",\n ")
}
fn fmt_comma_lines_tab(_k: &str, v: &str) -> String {
    v.split(',').map(|s| s.trim().to_string()).collect::<Vec<_>>().join(",\n\t")
}

pub const REL_FIELDS: [&str; 12] = [
    "Build-Depends",
    "Build-Depends-Indep",
    "Build-Depends-Arch",
    "Build-Conflicts",
    "Build-Conflicts-Indep",
    "Build-Conflics-Arch",
    "Depends",
    "Recommends",
    "Suggests",
    "Enhances",
    "Pre-Depends",
    "Breaks",
];

/// what the control-file formatter (private `format_field` of debian-control) is expected to return,
/// computed from public API: Uploaders one per line; relationship fields normalised by
/// `Relations::wrap_and_sort` (read with substitution variables allowed; a field that does not parse
/// is left alone); every other field unchanged. `None` = the normalisation itself panics (a relation
/// such as `a (> 1)` whose operator the accessors cannot read).
fn fmt_control(k: &str, v: &str) -> Option<String> {
    use debian_control::lossless::relations::Relations;
    if k == "Uploaders" {
        return Some(fmt_comma_lines(k, v));
    }
    if REL_FIELDS.contains(&k) {
        let (r, errs) = Relations::parse_relaxed(v, true);
        if !errs.is_empty() {
            return Some(v.to_string());
        }
        return std::panic::catch_unwind(std::panic::AssertUnwindSafe(|| r.wrap_and_sort().to_string())).ok();
    }
    Some(v.to_string())
}

/// Reference reader for relationship fields, written from Debian Policy 7.1 and the grammar of
/// property C10 (`Spec/RelGrammar.lean`, `FieldA.WF`), not from the crates: is the text a well-formed
/// relationship field?  Segments separated by `,`; a segment is empty, a substitution variable
/// `${id(:id)*}`, or alternatives separated by `|`; an alternative is
/// `name[:qual] [(op version)] [[!arch …]] [<[!]profile …>]…` with the five operators
/// `<<` `<=` `=` `>=` `>>`, identifiers over `[A-Za-z0-9.+~-]`, a version `[epoch:]body` whose epoch
/// is a number below 2^32; blanks (space, tab, CR, LF) are allowed between the parts, not inside
/// `name:qual` and not between `!` and its name.
pub fn ref_rel_wf(text: &str) -> bool {
    struct P<'a> {
        s: &'a [u8],
        i: usize,
    }
    impl<'a> P<'a> {
        fn gap(&mut self) -> bool {
            let st = self.i;
            while self.i < self.s.len() && matches!(self.s[self.i], b' ' | b'\t' | b'\r' | b'\n') {
                self.i += 1;
            }
            self.i > st
        }
        fn peek(&self) -> Option<u8> {
            self.s.get(self.i).copied()
        }
        fn eat(&mut self, c: u8) -> bool {
            if self.peek() == Some(c) {
                self.i += 1;
                true
            } else {
                false
            }
        }
        fn ident(&mut self) -> Option<&'a [u8]> {
            let st = self.i;
            while self.i < self.s.len() && (self.s[self.i].is_ascii_alphanumeric() || b"-.+~".contains(&self.s[self.i])) {
                self.i += 1;
            }
            if self.i > st {
                Some(&self.s[st..self.i])
            } else {
                None
            }
        }
        /// `[!]name` terms up to the closing character; terms after the first need a blank in front
        fn terms(&mut self, close: u8) -> bool {
            let mut first = true;
            loop {
                let g = self.gap();
                if self.eat(close) {
                    return true;
                }
                if !first && !g {
                    return false;
                }
                self.eat(b'!');
                if self.ident().is_none() {
                    return false;
                }
                first = false;
            }
        }
        fn version(&mut self) -> bool {
            let mut pieces = vec![];
            loop {
                match self.ident() {
                    Some(p) => pieces.push(p),
                    None => return false,
                }
                if !self.eat(b':') {
                    break;
                }
            }
            if pieces.len() == 1 {
                return true;
            }
            // with an epoch: a number below 2^32
            let e = pieces[0];
            if !e.iter().all(|c| c.is_ascii_digit()) {
                return false;
            }
            let d: Vec<u8> = e.iter().copied().skip_while(|c| *c == b'0').collect();
            d.len() < 10 || (d.len() == 10 && d.as_slice() <= b"4294967295".as_slice())
        }
        fn relation(&mut self) -> bool {
            if self.ident().is_none() {
                return false;
            }
            if self.eat(b':') && self.ident().is_none() {
                return false;
            }
            // 0: nothing yet, 1: version seen, 2: architectures seen, 3: profiles
            let mut stage = 0;
            loop {
                let save = self.i;
                self.gap();
                match self.peek() {
                    Some(b'(') if stage == 0 => {
                        self.i += 1;
                        self.gap();
                        let st = self.i;
                        while self.i < self.s.len() && b"<>=".contains(&self.s[self.i]) {
                            self.i += 1;
                        }
                        if ![&b"<<"[..], b"<=", b"=", b">=", b">>"].contains(&&self.s[st..self.i]) {
                            return false;
                        }
                        self.gap();
                        if !self.version() {
                            return false;
                        }
                        self.gap();
                        if !self.eat(b')') {
                            return false;
                        }
                        stage = 1;
                    }
                    Some(b'[') if stage <= 1 => {
                        self.i += 1;
                        if !self.terms(b']') {
                            return false;
                        }
                        stage = 2;
                    }
                    Some(b'<') => {
                        self.i += 1;
                        if !self.terms(b'>') {
                            return false;
                        }
                        stage = 3;
                    }
                    _ => {
                        self.i = save;
                        return true;
                    }
                }
            }
        }
    }
    for seg in text.split(',') {
        let mut p = P { s: seg.as_bytes(), i: 0 };
        p.gap();
        if p.i == p.s.len() {
            continue;
        }
        if p.s[p.i..].starts_with(b"${") {
            p.i += 2;
            loop {
                if p.ident().is_none() {
                    return false;
                }
                if !p.eat(b':') {
                    break;
                }
            }
            if !p.eat(b'}') {
                return false;
            }
        } else {
            if !p.relation() {
                return false;
            }
            loop {
                let save = p.i;
                p.gap();
                if p.eat(b'|') {
                    p.gap();
                    if !p.relation() {
                        return false;
                    }
                } else {
                    p.i = save;
                    break;
                }
            }
        }
        p.gap();
        if p.i != p.s.len() {
            return false;
        }
    }
    true
}

/// a formatter that rewrites its value: the comma-separated items trimmed, sorted, joined by ", "
fn fmt_sort_items(_k: &str, v: &str) -> String {
    let mut items: Vec<String> = v.split(',').map(|s| s.trim().to_string()).collect();
    items.sort();
    items.join(", ")
}

fn wrap_para(c: &Cfg, p: &Paragraph) -> Paragraph {
    if c.fmt == "c" {
        // through the typed wrappers: Source for a paragraph with a Source field, Binary otherwise
        return if p.get("Source").is_some() {
            let mut s = debian_control::lossless::control::Source::from(Paragraph::cast(p.syntax().clone()).unwrap());
            s.wrap_and_sort(c.ind, c.imm, c.max);
            s.into()
        } else {
            let mut b = debian_control::lossless::control::Binary::from(Paragraph::cast(p.syntax().clone()).unwrap());
            b.wrap_and_sort(c.ind, c.imm, c.max);
            b.into()
        };
    }
    let by_key = |a: &Entry, b: &Entry| a.key().cmp(&b.key());
    let by_val = |a: &Entry, b: &Entry| a.value().cmp(&b.value());
    let ecmp: Option<&dyn Fn(&Entry, &Entry) -> std::cmp::Ordering> = match c.ecmp.as_str() {
        "k" => Some(&by_key),
        "v" => Some(&by_val),
        _ => None,
    };
    let fmt: Option<&dyn Fn(&str, &str) -> String> = match c.fmt.as_str() {
        "i" => Some(&fmt_identity),
        "u" => Some(&fmt_comma_lines),
        "s" => Some(&fmt_sort_items),
        "j" => Some(&fmt_comma_lines_sp),
        "t" => Some(&fmt_comma_lines_tab),
        _ => None,
    };
    p.wrap_and_sort(c.ind, c.imm, c.max, ecmp, fmt)
}

fn wrap_entry(c: &Cfg, e: &Entry) -> Entry {
    let fmt: Option<&dyn Fn(&str, &str) -> String> = match c.fmt.as_str() {
        "i" => Some(&fmt_identity),
        "u" => Some(&fmt_comma_lines),
        "s" => Some(&fmt_sort_items),
        "j" => Some(&fmt_comma_lines_sp),
        "t" => Some(&fmt_comma_lines_tab),
        _ => None,
    };
    e.wrap_and_sort(c.ind, c.imm, c.max, fmt)
}

fn wrap_doc(c: &Cfg, d: &Deb822) -> Deb822 {
    if c.fmt == "c" {
        let mut ctl = debian_control::lossless::Control::from(Deb822::cast(d.syntax().clone()).unwrap());
        ctl.wrap_and_sort(c.ind, c.imm, c.max);
        return ctl.into();
    }
    let by_pkg = |a: &Paragraph, b: &Paragraph| a.get("Package").cmp(&b.get("Package"));
    // a comparator on a value the formatters rewrite: the order is that of the REFORMATTED paragraphs
    let by_dep = |a: &Paragraph, b: &Paragraph| a.get("Depends").cmp(&b.get("Depends"));
    let pcmp: Option<&dyn Fn(&Paragraph, &Paragraph) -> std::cmp::Ordering> =
        if c.pcmp == "p" { Some(&by_pkg) } else if c.pcmp == "d" { Some(&by_dep) } else { None };
    let wp = |p: &Paragraph| wrap_para(c, p);
    if c.fmt == "x" {
        // no per-paragraph callback at all
        d.wrap_and_sort(pcmp, None)
    } else {
        d.wrap_and_sort(pcmp, Some(&wp))
    }
}

type Items = Vec<(String, String)>;

/// what one application returns: printed text, live content, tree dump; `commented`: per field,
/// whether the value holds a COMMENT or ERROR token (then `Entry::wrap_and_sort` does not call the
/// formatter, theorem `C07_fmt_cases`)
struct Out1 {
    text: String,
    content: Vec<Items>,
    commented: Vec<Vec<bool>>,
    dump: String,
}

enum Obj {
    D(Deb822),
    P(Paragraph),
    E(Entry),
    Empty,
}

fn first_entry(p: &Paragraph) -> Option<Entry> {
    // Entry handles are not exposed by an iterator; reach the first ENTRY through the syntax tree
    p.syntax().children().find_map(Entry::cast)
}

fn entry_commented(e: &Entry) -> bool {
    e.syntax().children_with_tokens().any(|c| {
        let k = format!("{:?}", c.kind());
        k == "COMMENT" || k == "ERROR"
    })
}

/// one flag per item of `Paragraph::items()` (the fields that have a name)
fn para_commented(p: &Paragraph) -> Vec<bool> {
    p.syntax().children().filter_map(Entry::cast).filter(|e| e.key().is_some()).map(|e| entry_commented(&e)).collect()
}

fn apply(level: &str, c: &Cfg, o: &Obj) -> Obj {
    match (level, o) {
        ("d", Obj::D(d)) => Obj::D(wrap_doc(c, d)),
        ("p", Obj::P(p)) => Obj::P(wrap_para(c, p)),
        ("e", Obj::E(e)) => Obj::E(wrap_entry(c, e)),
        _ => Obj::Empty,
    }
}

/// the object the same call would be made on after printing and re-reading the result
fn reread(level: &str, text: &str) -> Option<Obj> {
    let d = Deb822::from_str(text).ok()?;
    Some(match level {
        "d" => Obj::D(d),
        "p" => match d.paragraphs().next() {
            Some(p) => Obj::P(p),
            None => Obj::Empty,
        },
        _ => match d.paragraphs().next().and_then(|p| first_entry(&p)) {
            Some(e) => Obj::E(e),
            None => Obj::Empty,
        },
    })
}

fn describe(o: &Obj) -> Out1 {
    fn dump<N: AstNode>(n: &N) -> String
    where
        <N::Language as rowan::Language>::Kind: std::fmt::Debug,
    {
        let mut s = String::new();
        dump_node(n.syntax(), &mut s);
        s
    }
    match o {
        Obj::D(d) => Out1 {
            text: d.to_string(),
            content: d.paragraphs().map(|p| p.items().collect()).collect(),
            commented: d.paragraphs().map(|p| para_commented(&p)).collect(),
            dump: dump(d),
        },
        Obj::P(p) => Out1 {
            text: p.to_string(),
            content: vec![p.items().collect()],
            commented: vec![para_commented(p)],
            dump: format!("(ROOT {})", dump(p)),
        },
        Obj::E(e) => Out1 {
            text: e.to_string(),
            content: vec![e.key().map(|k| vec![(k, e.value())]).unwrap_or_default()],
            commented: vec![e.key().map(|_| vec![entry_commented(e)]).unwrap_or_default()],
            dump: format!("(ROOT (PARAGRAPH {}))", dump(e)),
        },
        Obj::Empty => Out1 { text: String::new(), content: vec![], commented: vec![], dump: "(ROOT)".to_string() },
    }
}

fn nb_trim(v: &str) -> Vec<String> {
    v.split('\n').map(|l| l.trim().to_string()).filter(|l| !l.is_empty()).collect()
}

/// per comment line: the name of the field whose line follows it (skipping comment and blank
/// lines; `<value>` when a continuation line follows: the comment stands inside a value) and the
/// sorted field names of the paragraph that field belongs to; `None` when nothing follows
fn comment_anchors(text: &str) -> Vec<Anchor> {
    let lines: Vec<&str> = text.split('\n').collect();
    let is_blank = |l: &str| l.trim_matches(|c| c == ' ' || c == '\t' || c == '\r').is_empty();
    let is_cont = |l: &str| l.starts_with(' ') || l.starts_with('\t');
    let name_of = |l: &str| l.split(':').next().unwrap_or("").trim().to_string();
    let mut v = vec![];
    for (i, l) in lines.iter().enumerate() {
        if !l.starts_with('#') {
            continue;
        }
        let next = (i + 1..lines.len()).find(|j| !lines[*j].starts_with('#') && !is_blank(lines[*j]));
        let anchor = next.map(|j| {
            // the block of non-blank lines around line j
            let mut a = j;
            while a > 0 && !is_blank(lines[a - 1]) {
                a -= 1;
            }
            let mut b = j;
            while b + 1 < lines.len() && !is_blank(lines[b + 1]) {
                b += 1;
            }
            let mut names: Vec<String> = (a..=b).filter(|k| !lines[*k].starts_with('#') && !is_cont(lines[*k])).map(|k| name_of(lines[k])).collect();
            names.sort();
            // in front of the first field of the paragraph = in front of the paragraph
            let first = !(a..j).any(|k| !lines[k].starts_with('#'));
            let f = if is_cont(lines[j]) {
                "<value>".to_string()
            } else if first {
                format!("<paragraph>{}", name_of(lines[j]))
            } else {
                name_of(lines[j])
            };
            (f, names)
        });
        v.push((l.to_string(), anchor));
    }
    v
}

type Anchor = (String, Option<(String, Vec<String>)>);

fn anchor_is_para(x: &Anchor) -> bool {
    matches!(&x.1, Some((f, _)) if f.starts_with("<paragraph>"))
}

/// `loose`: a comment in front of a later field may now stand in front of that field as the first
/// field of the paragraph
fn anchor_same(before: &Anchor, after: &Anchor, loose: bool) -> bool {
    match (&before.1, &after.1) {
        (None, None) => true,
        (Some((fb, nb)), Some((fa, na))) => {
            if nb != na {
                return false;
            }
            let (pb, pa) = (fb.strip_prefix("<paragraph>"), fa.strip_prefix("<paragraph>"));
            match (pb, pa) {
                (Some(_), Some(_)) => true,
                (None, None) => fb == fa,
                (None, Some(first)) => loose && first == fb,
                (Some(_), None) => false,
            }
        }
        _ => false,
    }
}

fn comment_lines(text: &str) -> Vec<String> {
    text.split('\n').filter(|l| l.starts_with('#')).map(|l| l.to_string()).collect()
}

/// the output of the request's formatter for one field; `None`: no formatter, or the formatter is
/// not called (value with a comment line), or (formatter `c`) the normalisation itself panics
fn fmt_out(c: &Cfg, k: &str, v: &str, commented: bool) -> Option<String> {
    if commented {
        return None;
    }
    match c.fmt.as_str() {
        "i" => Some(fmt_identity(k, v)),
        "u" => Some(fmt_comma_lines(k, v)),
        "s" => Some(fmt_sort_items(k, v)),
        "j" => Some(fmt_comma_lines_sp(k, v)),
        "t" => Some(fmt_comma_lines_tab(k, v)),
        "c" => fmt_control(k, v),
        _ => None,
    }
}

pub fn handle(op: &str, a: &[&str]) -> Option<Resp> {
    match (op, a) {
        ("deb.wrap", [level, t, cfg]) => {
            let s = ds(t)?;
            let c = dec_cfg(cfg)?;
            let (doc, errs) = Deb822::from_str_relaxed(&s);
            let start = match *level {
                "d" => Obj::D(doc),
                "p" => match doc.paragraphs().next() {
                    Some(p) => Obj::P(p),
                    None => Obj::Empty,
                },
                "e" => match doc.paragraphs().next().and_then(|p| first_entry(&p)) {
                    Some(e) => Obj::E(e),
                    None => Obj::Empty,
                },
                _ => return None,
            };
            let before = describe(&start);
            let flag = |i: usize, j: usize| -> bool { before.commented.get(i).and_then(|p| p.get(j)).copied().unwrap_or(false) };
            // the relationship fields the control formatter normalises: named as one of the twelve,
            // no comment line inside (else the formatter is not called), read without error
            let mut rel_parsed: Vec<(String, debian_control::lossless::relations::Relations)> = vec![];
            if c.fmt == "c" {
                use debian_control::lossless::relations::Relations;
                for (i, p) in before.content.iter().enumerate() {
                    for (j, (k, v)) in p.iter().enumerate() {
                        if REL_FIELDS.contains(&k.as_str()) && !flag(i, j) {
                            let (r, e) = Relations::parse_relaxed(v, true);
                            if e.is_empty() {
                                rel_parsed.push((v.clone(), r));
                            }
                        }
                    }
                }
            }
            // control formatter: debversion's Version::cmp panics when a comparison reaches a numeric
            // version component above i32::MAX (F-C12-1). Which comparisons Rust's sort makes is not
            // modelled: both sides answer BIGNUM exactly when every such field can be read by the
            // accessors and in one of them two distinct elements of a list that gets sorted cannot be
            // compared (`reledit::sort_may_panic`, model `Props.C07More.ctlBig`); otherwise no sort can
            // panic on a number and the real result is compared. The call is still made and a panic is
            // reported under the open finding F-C07-8
            if c.fmt == "c" {
                let verdicts: Vec<Option<bool>> = rel_parsed.iter().map(|(_, r)| crate::reledit::sort_may_panic(r)).collect();
                if verdicts.iter().all(|v| v.is_some()) && verdicts.iter().any(|v| *v == Some(true)) {
                    let panicked = std::panic::catch_unwind(std::panic::AssertUnwindSafe(|| describe(&apply(level, &c, &start)).text)).is_err();
                    return Some(Resp::with(
                        "BIGNUM".to_string(),
                        if panicked { Some("wrap_and_sort panics comparing a numeric version component above i32::MAX".to_string()) } else { None },
                    ));
                }
            }
            // The property's domain: error-free LF documents, an indentation of at least one column,
            // and (control formatter) relationship fields that are well-formed relationship fields
            // (Policy 7.1 / C10 grammar, decided by the reference reader `ref_rel_wf`, not by "did not
            // panic") or that the relations parser refuses (those are left as they are). A field the
            // parser reads without error but that is outside the grammar — an operator outside the
            // five, `a (> 1)`, `a (1)`; an epoch above u32 — is outside the domain: there
            // `Control::wrap_and_sort` may panic (theorem `C07_control_panic_iff`), model = code is
            // still compared
            let rel_ok = rel_parsed.iter().all(|(v, _)| ref_rel_wf(v));
            let in_domain = errs.is_empty() && !s.contains('\r') && !matches!(c.ind, Indentation::Spaces(0)) && rel_ok;
            let run = std::panic::catch_unwind(std::panic::AssertUnwindSafe(|| {
                let once = apply(level, &c, &start);
                let o1 = describe(&once);
                let twice = apply(level, &c, &once);
                let o2 = describe(&twice);
                (o1, o2)
            }));
            let (o1, o2) = match run {
                Ok(x) => x,
                Err(_) => {
                    return Some(Resp::with(
                        "PANIC".to_string(),
                        if in_domain { Some("panic on an error-free document".to_string()) } else { None },
                    ))
                }
            };
            let mut fail = None;
            if in_domain {
                // every paragraph and field kept: values keep their non-blank lines up to
                // surrounding whitespace (no formatter / identity / a value with a comment line, on
                // which the formatter is not called) or are the formatter's output
                type NF = (String, Vec<String>);
                let norm_before: Vec<Vec<NF>> = before
                    .content
                    .iter()
                    .enumerate()
                    .map(|(i, p)| {
                        p.iter()
                            .enumerate()
                            .map(|(j, (k, v))| {
                                let v2 = fmt_out(&c, k, v, flag(i, j)).unwrap_or_else(|| v.clone());
                                (k.clone(), nb_trim(&v2))
                            })
                            .collect()
                    })
                    .collect();
                let norm_after: Vec<Vec<NF>> =
                    o1.content.iter().map(|p| p.iter().map(|(k, v)| (k.clone(), nb_trim(v))).collect()).collect();
                let sort_entries = c.ecmp != "n" && *level != "e" && c.fmt != "x" && c.fmt != "c";
                let ctl_doc = c.fmt == "c" && *level == "d";
                let sort_paras = ((c.pcmp == "p" || c.pcmp == "d") && c.fmt != "c" || ctl_doc) && *level == "d";
                let canon = |ps: &Vec<Vec<NF>>| -> Vec<Vec<NF>> {
                    let mut ps: Vec<Vec<NF>> = ps
                        .iter()
                        .map(|p| {
                            let mut p = p.clone();
                            if sort_entries {
                                p.sort();
                            }
                            p
                        })
                        .collect();
                    if sort_paras {
                        ps.sort();
                    }
                    ps
                };
                if canon(&norm_before) != canon(&norm_after) {
                    fail = Some(format!("content changed: {:?} -> {:?}", before.content, o1.content));
                }
                // ... in the requested order (an order of what is written out)
                if fail.is_none() && sort_entries {
                    for p in &o1.content {
                        let ok = match c.ecmp.as_str() {
                            "k" => p.windows(2).all(|w| w[0].0 <= w[1].0),
                            _ => p.windows(2).all(|w| w[0].1 <= w[1].1),
                        };
                        if !ok {
                            fail = Some(format!("entries not in the requested order: {:?}", p));
                        }
                    }
                }
                if fail.is_none() && ctl_doc {
                    // Source paragraphs first (by name), then the others by Package
                    let keys: Vec<(u8, Option<String>)> = o1
                        .content
                        .iter()
                        .map(|p| match p.iter().find(|f| f.0 == "Source") {
                            Some(f) => (0u8, Some(f.1.clone())),
                            None => (1u8, p.iter().find(|f| f.0 == "Package").map(|f| f.1.clone())),
                        })
                        .collect();
                    if !keys.windows(2).all(|w| w[0] <= w[1]) {
                        fail = Some(format!("paragraphs not in the control-file order: {:?}", keys));
                    }
                }
                if fail.is_none() && sort_paras && !ctl_doc {
                    let sort_key = if c.pcmp == "d" { "Depends" } else { "Package" };
                    let keys: Vec<Option<String>> = o1
                        .content
                        .iter()
                        .map(|p| p.iter().find(|f| f.0 == sort_key).map(|f| f.1.clone()))
                        .collect();
                    if !keys.windows(2).all(|w| w[0] <= w[1]) {
                        fail = Some(format!("paragraphs not in the requested order: {:?}", keys));
                    }
                }
                // comments kept, each on a line of its own
                if fail.is_none() {
                    let mut cb = comment_lines(&before.text);
                    let mut ca = comment_lines(&o1.text);
                    if (c.ecmp == "n" && c.pcmp == "n" && c.fmt != "c") || (c.fmt == "c" && *level != "d") {
                        if cb != ca {
                            fail = Some(format!("comment lines changed: {:?} -> {:?}", cb, ca));
                        }
                    } else {
                        cb.sort();
                        ca.sort();
                        if cb != ca {
                            fail = Some(format!("comment lines changed: {:?} -> {:?}", cb, ca));
                        }
                        // ... and each stays in front of the same field of the same paragraph, wherever
                        // a sort order moves that paragraph or field (after seeded change C07-r8m1)
                        if fail.is_none() && *level == "d" {
                            let ab = comment_anchors(&before.text);
                            let mut aa = comment_anchors(&o1.text);
                            // a comment in front of a later field stays in front of that field (which may
                            // have become the first); one in front of the first field stands in front of
                            // the paragraph and stays there
                            let mut lost = None;
                            for pass in 0..2 {
                                for x in ab.iter().filter(|x| anchor_is_para(x) == (pass == 1)) {
                                    let want_para = anchor_is_para(x);
                                    let found = aa
                                        .iter()
                                        .position(|y| y.0 == x.0 && anchor_same(x, y, false))
                                        .or_else(|| aa.iter().position(|y| y.0 == x.0 && anchor_same(x, y, true)));
                                    let _ = want_para;
                                    match found {
                                        Some(i) => {
                                            aa.remove(i);
                                        }
                                        None => lost = lost.or(Some(x.clone())),
                                    }
                                }
                            }
                            if let Some(x) = lost {
                                fail = Some(format!("a comment no longer stands in front of the same field / paragraph: before {:?}, unmatched now {:?}", x, aa));
                            }
                        }
                    }
                }
                // the result parses strictly and re-reads to the content the returned object reports
                if fail.is_none() {
                    match Deb822::from_str(&o1.text) {
                        Err(_) => fail = Some(format!("result does not parse strictly: {:?}", o1.text)),
                        Ok(d2) => {
                            let re: Vec<Items> = d2.paragraphs().map(|p| p.items().collect()).collect();
                            let live: Vec<Items> = o1.content.iter().filter(|p| !p.is_empty()).cloned().collect();
                            if re != live {
                                fail = Some(format!("re-read content {:?} differs from the returned object's {:?}", re, live));
                            }
                        }
                    }
                }
                // continuation lines are indented by exactly the requested width — the width given, or
                // (FieldNameLength) the length of the name of the field the line belongs to —, FOLLOWED
                // by the value line as it is: a line of a formatter's output that itself starts with a
                // blank keeps it behind the indentation (theorem `C07_indent_text`; audit D3)
                if fail.is_none() && c.fmt != "x" {
                    let fmt_lines: Vec<String> = before
                        .content
                        .iter()
                        .enumerate()
                        .flat_map(|(i, p)| p.iter().enumerate().map(move |(j, kv)| (i, j, kv)))
                        .filter_map(|(i, j, (k, v))| fmt_out(&c, k, v, flag(i, j)))
                        .flat_map(|o| o.split('\n').skip(1).map(|l| l.to_string()).collect::<Vec<_>>())
                        .collect();
                    let mut width: Option<usize> = match c.ind {
                        Indentation::Spaces(n) => Some(n as usize),
                        Indentation::FieldNameLength => None,
                    };
                    for l in o1.text.split('\n') {
                        if l.starts_with(' ') || l.starts_with('\t') {
                            if l.trim().is_empty() {
                                continue;
                            }
                            let n = match width {
                                Some(n) => n,
                                None => continue,
                            };
                            let ok = l.len() >= n
                                && l.as_bytes()[..n].iter().all(|b| *b == b' ')
                                && (!(l[n..].starts_with(' ') || l[n..].starts_with('\t')) || fmt_lines.iter().any(|f| *f == l[n..]));
                            if !ok {
                                fail = Some(format!("continuation line {:?} is not indented by {}", l, n));
                            }
                        } else if !l.starts_with('#') && matches!(c.ind, Indentation::FieldNameLength) {
                            width = l.find(':').map(|i| i);
                        }
                    }
                }
                // paragraphs separated by exactly one blank line
                if fail.is_none() && *level == "d" && o1.text.contains("\n\n\n") {
                    fail = Some("more than one blank line between paragraphs".to_string());
                }
                // idempotent
                if fail.is_none() && o2.text != o1.text {
                    fail = Some(format!("second application changes the text: {:?} -> {:?}", o1.text, o2.text));
                }
                // ... also through the printed form: the result, printed, re-read and reformatted
                // again, prints the same text (theorem `C07_reread_idempotent`)
                if fail.is_none() {
                    let again = std::panic::catch_unwind(std::panic::AssertUnwindSafe(|| {
                        reread(level, &o1.text).map(|o| describe(&apply(level, &c, &o)).text)
                    }));
                    match again {
                        Err(_) => fail = Some(format!("reformatting the re-read result panics: {:?}", o1.text)),
                        Ok(None) => {}
                        Ok(Some(t3)) => {
                            // (a re-read paragraph does not own the comment lines in front of its first
                            // field: they are read as comments of the document)
                            let expect: String = if *level == "p" {
                                let mut rest = o1.text.as_str();
                                while rest.starts_with('#') {
                                    rest = match rest.find('\n') {
                                        Some(i) => &rest[i + 1..],
                                        None => "",
                                    };
                                }
                                rest.to_string()
                            } else {
                                o1.text.clone()
                            };
                            if t3 != expect {
                                fail = Some(format!("reformatting the re-read result changes the text: {:?} -> {:?}", o1.text, t3));
                            }
                        }
                    }
                }
            }
            Some(Resp::with(
                format!(
                    "{} {} {} 2:{}",
                    es(&o1.text),
                    if o1.content.is_empty() { String::new() } else { o1.content.iter().map(|p| enc_items(p)).collect::<Vec<_>>().join(";") },
                    o1.dump,
                    es(&o2.text)
                ),
                fail,
            ))
        }
        _ => None,
    }
}

pub fn generate_c07(tier: &str, seed: u64, out: &mut Out) {
    let thorough = tier == "thorough";
    let mut rng = Rng::new(seed);
    let inds = ["1", "2", "4", "8", "f"];
    let imms = ["0", "1"];
    let maxs = ["n", "10", "79", "1000"];
    let ecmps = ["n", "k", "v"];
    let pcmps = ["n", "p"];
    let fmts = ["n", "i", "u"];
    let mut cfgs: Vec<String> = vec![];
    for i in inds {
        for m in imms {
            for x in maxs {
                for e in ecmps {
                    for p in pcmps {
                        for f in fmts {
                            cfgs.push(format!("{}/{}/{}/{}/{}/{}", i, m, x, e, p, f));
                        }
                    }
                }
            }
        }
    }
    let fixed = [
        "A: b\n",
        "A: b",
        "A: b\nB: c\n",
        "B: c\nA: b\nA: a\n",
        "A: b,\n c,\n d\n",
        "A:\n b\n c\n",
        "A: b, c,  d\n",
        "A: b\n# c\nB: d\n",
        "# lead\nA: b\n",
        "# lead\n\nA: b\n\n# mid\n\nPackage: z\n\nPackage: a\nX: y\n",
        "A: b\n\n\n\nB: c\n",
        "Package: b\nDepends: x,\n    y,\n\tz\n\nPackage: a\n",
        "A: b\n# tail\n",
        "Long: aaaaaaaaaaaaaaaaaaaaaaaaaaaaaaaaaaaaaaaaaaaaaaaaaaaaaaaaaaaaaaaaaaaaaaaaaaaaaaaaaaaaaaaa\n",
        "É: x\n",
        "Description: short\n \n long text\nPackage: x\n",
        "A: b\n\t\n \n c\n",
        "Section:\n net\n",
        "Homepage:\n https://example.com/\nSource: x\n",
        "B: 1\n\nA: 2",
        "Package: b\nX: 1\n\nPackage: a",
        "Package: b\n\n# c\nPackage: a\nY: 2",
        // a comment block set off by a blank line in front of the FIRST paragraph, which a
        // paragraph order moves away from the front: it travels with that paragraph
        "# header\n\nPackage: b\n\nPackage: a\n",
        "# h1\n# h2\n\n\nPackage: z\nX: 1\n\n# about a\nPackage: a\n\nPackage: m\n",
        "# header\n\n# own\nPackage: b\n\nPackage: a",
        // comment lines inside a value: before the first text, between lines, last
        "A:\n #c\n b\n",
        "A:\n # c\n",
        "A: x\n #c\n y\nB: z\n",
        "A: x\n # last\nB: z\n",
    ];
    // many paragraphs / entries with equal sort keys: an unstable sort shows only beyond ~20 elements
    let mut many_paras = String::new();
    let mut many_entries = String::new();
    for i in 0..45 {
        many_paras.push_str(&format!("Package: {}\nN: {}\n\n", ["c", "b", "a"][i % 3], i));
        many_entries.push_str(&format!("{}: {}\n", ["K", "J", "I"][i % 3], ["v", "u"][i % 2]));
    }
    // error trees (outside the oracle's domain: only model and implementation are compared): the
    // last paragraph ends in an EMPTY ERROR node, `last_token()` is `None`, no terminator is supplied
    let error_trees = ["A", "A\nB: c", "A: b\nC", "A: b\n\nC", "C\n\nA: b"];
    // document level without a paragraph callback (only sorting / blank-line normalisation)
    for t in fixed.iter().chain(error_trees.iter()) {
        for c in ["1/0/n/n/p/x", "1/0/n/n/n/x"] {
            out.req("deb.wrap", &["d".to_string(), es(t), c.to_string()]);
        }
    }
    for c in ["1/0/n/k/p/n", "4/0/n/v/p/n", "2/1/79/k/p/i"] {
        out.req("deb.wrap", &["d".to_string(), es(&many_paras), c.to_string()]);
        out.req("deb.wrap", &["d".to_string(), es(&many_entries), c.to_string()]);
        out.req("deb.wrap", &["p".to_string(), es(&many_entries), c.to_string()]);
    }
    // a paragraph comparator on a value that the formatter rewrites ("z, a" < "b, c" flips once the
    // items are sorted): the requested order is that of the reformatted paragraphs
    for t in [
        "Package: one\nDepends: z, a\n\nPackage: two\nDepends: b, c\n",
        "Package: two\nDepends: b, c\n\nPackage: one\nDepends: z, a\n",
        "Package: p\nDepends: y,x\n\nPackage: q\nDepends: x , z\n\nPackage: r\n",
    ] {
        for cfg in ["1/0/n/n/d/s", "4/1/79/n/d/s", "2/0/n/k/d/s", "1/0/n/n/d/n", "1/0/n/n/d/u", "1/0/n/n/p/s"] {
            out.req("deb.wrap", &["d".to_string(), es(t), cfg.to_string()]);
        }
    }
    // open finding F-C07-10: an item that starts with '#' after a comma ends up, one per line, at the
    // start of a continuation line and reads back as a comment (formatters u / c; s joins on one line)
    for t in [
        "Uploaders: A <a@b>, #B\n",
        "Uploaders: A, #B, C\n",
        "Source: x\nUploaders: A <a@b>, #B\n\nPackage: p\nDepends: a\n",
        "A: x, #y\nB: c\n",
        "A: x,   #y, z\n",
    ] {
        for cfg in ["4/0/n/n/n/u", "2/1/n/n/n/u", "1/0/79/n/n/u", "4/0/n/n/n/c", "2/1/20/n/n/c", "4/0/n/n/n/s", "4/0/n/n/n/i"] {
            for level in ["d", "p", "e"] {
                if cfg.ends_with("/c") && level == "e" {
                    continue;
                }
                out.req("deb.wrap", &[level.to_string(), es(t), cfg.to_string()]);
            }
        }
    }
    // the control-file wrappers (formatter `c`): Control at document level, Source / Binary on the
    // first paragraph; realistic control files with every formatted field, substitution variables,
    // unsorted / folded / oddly spaced relationship fields, comments, several source paragraphs
    let ctl_docs = [
        "Source: a\nBuild-Depends: z, b (>= 1),\n a\n\nPackage: b\nDepends: ${misc:Depends}, c\n",
        "Source: a\nUploaders: A <a@b>, B <b@c>\nBuild-Depends: z, a\n\nPackage: z\nDepends: y\n\nPackage: b\nDepends: c | a\n",
        "Source: s\nMaintainer: M <m@e>\nUploaders:\n U1 <u1@e>,\n U2 <u2@e>\nBuild-Depends: debhelper-compat (= 13), x [!amd64] <!nocheck> | y:any (>> 1:2~)\nBuild-Depends-Indep:\n p,\n o\nBuild-Conflicts: q\nBuild-Conflicts-Arch: k, j\nBuild-Conflics-Arch: k, j\nVcs-Git: https://x/y.git\n\n# about b\nPackage: b\nArchitecture: any\nDepends: ${shlibs:Depends}, ${misc:Depends}, b2 (<< 2), a1\nRecommends: r2, r1\nSuggests: s\nEnhances: e\nPre-Depends: ${misc:Pre-Depends}\nBreaks: old (<< 1)\nConflicts: zz, aa\nDescription: short\n long\n .\n more\n\nPackage: a\nArchitecture: all\nDepends: a1,a0\n",
        "Package: b\nDepends: b, a\n\nSource: s2\n\nPackage: a\n\nSource: s1\nBuild-Depends: x\n",
        // paragraphs with neither Source nor Package between binary packages that are out of order
        // (they sort in front of every named package)
        "Source: s\n\nPackage: zzz\n\nX-Comment: nameless\n\nPackage: aaa\n",
        "Package: b\n\nX: 1\n\nPackage: a\n\nY: 2\n\nPackage: 0\n",
        "X: 1\n\nPackage: b\nDepends: z, a\n\nSource: s\n\nY: 2\n\nPackage: a\n",
        "Package: x\nDepends: a (\n",
        "Package: x\nDepends: a (> 1)\n",
        "Package: x\nDepends: a (>= 3000000000), a (>= 3000000001), b\n",
        "Package: x\nDepends: , a, , b,\n",
        "Package: x\nDepends:\nRecommends: \n",
        // a comment line inside the field (indented: a `#` in column 0 inside a value is an error)
        "Source: s\nBuild-Depends: b,\n # inside\n a\n",
        "Source: s\nUploaders: Doe, John <j@e>, B <b@e>\n",
        "Source: s\nBuild-Depends: a (>= 1) | b [i386]  <x>   ,c\nX-Other: kept  as is\n",
        "# lead\n\nPackage: p\nDepends: z | a, m\n\n# mid\n\nSource: s\n",
        // alternatives that compare equal but are written differently, with irregular spacing
        "Package: x\nDepends: libbar (>= 0:1.2) | libbar  (>= 1.2), libc6\n",
        "Package: x\nDepends: libbar  (>= 1.2) | libbar (>= 0:1.2), libc6\n",
        "Package: x\nDepends: libbar [amd64 i386] | libbar  [i386 amd64]\nRecommends: foo  [i386 amd64] | foo [amd64 i386]\n",
    ];
    for t in ctl_docs.iter() {
        for ind in ["1", "2", "4", "f"] {
            for imm in ["0", "1"] {
                for mx in ["n", "20", "79"] {
                    for level in ["d", "p"] {
                        out.req("deb.wrap", &[level.to_string(), es(t), format!("{}/{}/{}/n/n/c", ind, imm, mx)]);
                    }
                }
            }
        }
    }
    {
        // seeded control files: relationship fields from the relation generator (with substvars)
        let nctl = if thorough { 20_000 } else { 1_500 };
        let rel_names = ["Build-Depends", "Depends", "Recommends", "Pre-Depends", "Breaks", "Conflicts", "Build-Conflics-Arch"];
        for _ in 0..nctl {
            let mut t = String::new();
            let nparas = 1 + rng.below(4);
            for i in 0..nparas {
                if i > 0 {
                    t.push('\n');
                }
                if rng.chance(10) {
                    t.push_str("# c\n");
                }
                if rng.chance(12) {
                    // a paragraph that is neither a source nor a binary package
                    t.push_str(&format!("X-Note: {}\n", rng.pick(&["n", "m"])));
                } else if i == 0 && rng.chance(70) {
                    t.push_str(&format!("Source: {}\n", rng.pick(&["s", "a", "zz"])));
                } else {
                    t.push_str(&format!("Package: {}\n", rng.pick(&["b", "a", "c", "a"])));
                }
                for _ in 0..rng.below(3) {
                    let f = crate::rel::random_field(&mut rng);
                    if f.contains("\n\n") || f.trim().is_empty() {
                        continue;
                    }
                    let folded = f.replace('\n', "\n ");
                    t.push_str(&format!("{}: {}\n", rng.pick(&rel_names), folded.trim()));
                }
                if rng.chance(30) {
                    t.push_str("Uploaders: B <b@e>,A <a@e>\n");
                }
                if rng.chance(30) {
                    t.push_str("Description: d\n long\n");
                }
            }
            let cfg = format!("{}/{}/{}/n/n/c", rng.pick(&["1", "2", "4", "f"]), rng.pick(&["0", "1"]), rng.pick(&["n", "20", "79"]));
            out.req("deb.wrap", &[rng.pick(&["d", "d", "p"]).to_string(), es(&t), cfg]);
        }
    }
    // every error-free short text over the character classes, under a few settings
    let short = strings_upto(&crate::deb::ALPHABET, if thorough { 5 } else { 4 });
    for t in short.iter() {
        if deb822_lossless::Deb822::from_str(t).is_ok() {
            for c in ["2/0/n/n/n/n", "1/1/10/k/p/i", "f/0/79/v/n/u"] {
                out.req("deb.wrap", &["d".to_string(), es(t), c.to_string()]);
            }
        }
    }
    let stride = if thorough { 1 } else { 6 };
    for (n, c) in cfgs.iter().enumerate() {
        for (m, t) in fixed.iter().enumerate() {
            if (n + m) % stride != 0 {
                continue;
            }
            for level in ["d", "p", "e"] {
                out.req("deb.wrap", &[level.to_string(), es(t), c.clone()]);
            }
        }
    }
    let n = if thorough { 1_000_000 } else { 8_000 };
    for _ in 0..n {
        let ls = docspec::random_lines(&mut rng, false);
        let text = docspec::render(&ls, rng.chance(85));
        let c = rng.pick(&cfgs).clone();
        let level = *rng.pick(&["d", "d", "p", "e"]);
        out.req("deb.wrap", &[level.to_string(), es(&text), c]);
    }
    // ---- blocks added after the audit of C07 (appended: the requests above keep their order) ----
    // (O1) a value-changing formatter x a comment line inside the value: the formatter is not called
    // on such a value (theorem C07_fmt_cases), its content and layout rules are those of the
    // no-formatter path; fields without a comment in the same paragraph are still reformatted
    for t in [
        "A: y, x\n #c\n b\n",
        "A: y, x\n #c\n b\nB: q, p\n",
        "B: q, p\nA:\n # first\n y, x\n",
        "A: y, x\n # last\n",
        "Package: p\nDepends: z, a\n # why\n , m\n\nPackage: o\nDepends: d, c\n",
        "Source: s\nDepends: a,\n #c\n b\n",
        "Source: s\nBuild-Depends: b,\n # inside\n a\nUploaders: B <b@e>, A <a@e>\n",
        "Source: s\nUploaders: B <b@e>,\n # between\n A <a@e>\nBuild-Depends: z, a\n",
        "Package: x\nDepends: a (>= 3000000000),\n # big, but the field is not normalised\n a (>= 3000000001)\n",
        "Package: x\nDepends: a (> 1),\n # operator outside the five, not normalised\n b\n",
    ] {
        for cfg in [
            "2/1/n/n/n/c", "4/0/20/n/n/c", "f/0/n/n/n/c", "2/0/n/n/n/u", "4/1/79/k/p/u", "1/0/n/n/n/s", "4/0/n/v/n/s", "f/1/n/k/n/s",
            "2/0/n/n/n/i", "3/0/n/n/n/j", "3/1/n/n/n/t", "2/0/n/n/n/n",
        ] {
            for level in ["d", "p", "e"] {
                if cfg.ends_with("/c") && level == "e" {
                    continue;
                }
                out.req("deb.wrap", &[level.to_string(), es(t), cfg.to_string()]);
            }
        }
    }
    // (D3) formatters whose output lines after the first start with a blank: join(",\n ") = `j`,
    // join(",\n\t") = `t`: the blank is part of the formatter's line and is kept behind the indentation
    for t in [
        "A: a, b, c\n",
        "A: a,b\nB: x\n",
        "A:\n a,\n b\n",
        "Depends: x,\n    y,\n\tz\n",
        "Ab: c, d\n\nPackage: z, y\nX: 1\n",
        "A: a\n",
        "A: a,\n",
        "A: , ,\n",
    ] {
        for ind in ["1", "2", "4", "f"] {
            for imm in ["0", "1"] {
                for mx in ["n", "10", "79"] {
                    for f in ["j", "t"] {
                        for level in ["d", "p", "e"] {
                            out.req("deb.wrap", &[level.to_string(), es(t), format!("{}/{}/{}/n/n/{}", ind, imm, mx, f)]);
                        }
                    }
                }
            }
        }
    }
    // (D1) a CR inside a value on the formatter path: CR line ends are outside the stated domain (LF
    // documents), the oracle is off; MODEL = CODE is compared (closed witness C07_cr_formatter_witness)
    for t in [
        "A: b\r c\rB: d\r",
        "A: b\r c\n",
        "A: b,\r c,\r d\n",
        "A:\r b\r c\n",
        "A: b\r\n c\r\nB: d\r\n",
        "A: b, c\r",
        "A: b\n# c\rB: d\n",
        "Source: s\nDescription: b\r c\n",
        "Source: s\nUploaders: B <b@e>,\r A <a@e>\n",
        "Source: s\nBuild-Depends: b,\r a\n\nPackage: p\nDepends: z\r ,y\n",
        "Package: b\r\nDepends: x,\r\n y\r\n\r\nPackage: a\r\n",
    ] {
        for cfg in ["2/0/n/n/n/i", "2/0/n/n/n/u", "2/0/n/n/n/c", "4/1/79/k/p/i", "f/1/10/n/n/u", "1/0/20/n/n/c", "2/0/n/n/n/n", "2/0/n/n/n/s", "2/0/n/n/n/j"] {
            for level in ["d", "p", "e"] {
                if cfg.ends_with("/c") && level == "e" {
                    continue;
                }
                out.req("deb.wrap", &[level.to_string(), es(t), cfg.to_string()]);
            }
        }
    }
    // (D2) relationship fields the relations parser reads without error but that are not well-formed
    // relationship fields: operators outside the five (`>`, `<`, `==`, none), epochs above u32 —
    // Control / Source / Binary::wrap_and_sort panic there (theorem C07_control_panic_iff); outside
    // the domain, MODEL = CODE. Next to them the same documents with the five operators.
    // (F-C07-8) numbers above i32::MAX: BIGNUM exactly when two elements that get sorted cannot be
    // compared; a single big number, distinct names, an epoch that decides: the real result
    let odd_rel = [
        "a (> 1)",
        "a (< 1)",
        "a (1)",
        "a (== 1)",
        "b, a (> 1)",
        "b | a (< 2), c",
        "a (>> 1), b (<< 2), c (= 3), d (>= 4), e (<= 5)",
        "a (>= 5000000000:1)",
        "a (>= 5000000000:1), a (>= 5000000001:1)",
        "a (>= 4294967295:1), a (>= 4294967296:1)",
        "a (>= 4294967295:1), a (>= 4294967294:1)",
        "a (>= 3000000000)",
        "b (>= 3000000000), a (>= 3000000001)",
        "a (>= 3000000000), a (>= 3000000001)",
        "a (>= 3000000000), a (>= 1)",
        "a (>= 2147483647), a (>= 1)",
        "a (>= 2147483648), a (>= 1)",
        "a (>= 3000000000:1), a (>= 1)",
        "a (>= 1:3000000000), a (>= 1:1)",
        "a (>= 1.3000000000), a (>= 2.1)",
        "a (>= 1.3000000000), a (>= 1.1)",
        "a (>= 0~20240101120000)",
        "a (>= 0~20240101120000), b (>= 0~20240101120001)",
        "a (>= 0~20240101120000) | a (>= 0~20240101120001)",
        "z | a (>= 3000000000), y | a (>= 3000000000)",
        "a (>= 3000000000) | z, a (>= 3000000000) | y",
        "a (<< 3000000000), a (>= 3000000000)",
        "a (>= 3000000000), a (> 1)",
        "a (> 1), b (>= 3000000000), b (>= 3000000001)",
        "a (>= 1-3000000000), a (>= 1-3000000001)",
        "a (>= 00000000002), a (>= 1)",
    ];
    for r in odd_rel.iter() {
        for t in [
            format!("Package: x\nDepends: {}\n", r),
            format!("Source: s\nBuild-Depends: {}\nUploaders: B, A\n\nPackage: p\nDepends: c, b\n", r),
            format!("Source: s\nBuild-Depends: b, a\n\nPackage: p\nRecommends: {}\n", r),
            format!("Package: x\nDepends:\n {}\n", r.replace(", ", ",\n ")),
            format!("Package: x\nX-Depends: {}\nConflicts: {}\n", r, r),
        ] {
            for cfg in ["2/0/n/n/n/c", "4/1/20/n/n/c", "f/0/79/n/n/c"] {
                for level in ["d", "p"] {
                    out.req("deb.wrap", &[level.to_string(), es(&t), cfg.to_string()]);
                }
            }
        }
    }
    {
        // seeded: relation generator output with its operators rewritten (`>=` -> `>`, `<<` -> `<`,
        // `(= ` -> `(== `, operator dropped), versions given a big epoch or a big number
        let nodd = if thorough { 6_000 } else { 600 };
        for _ in 0..nodd {
            let f = crate::rel::random_field(&mut rng);
            if f.contains("\n\n") || f.trim().is_empty() {
                continue;
            }
            let f = match rng.below(8) {
                0 => f.replace(">=", ">"),
                1 => f.replace("<<", "<"),
                2 => f.replace("(=", "(=="),
                3 => f.replace("(>= ", "(").replace("(<< ", "("),
                4 => f.replace("(>= ", "(>= 5000000000:"),
                5 => f.replace("(>= ", "(>= 3000000000."),
                6 => f.replace("(>= ", "(>= 0~20240101120000+"),
                _ => f.replace("(<= ", "(<= 4294967296:").replace("(>> ", "(>> 4294967295:"),
            };
            let folded = f.replace('\n', "\n ");
            let t = format!(
                "{}: {}\n{}: {}\n",
                rng.pick(&["Package", "Source"]),
                rng.pick(&["b", "a"]),
                rng.pick(&["Depends", "Build-Depends", "Breaks", "Pre-Depends"]),
                folded.trim()
            );
            let cfg = format!("{}/{}/{}/n/n/c", rng.pick(&["1", "2", "4", "f"]), rng.pick(&["0", "1"]), rng.pick(&["n", "20", "79"]));
            out.req("deb.wrap", &[rng.pick(&["d", "p"]).to_string(), es(&t), cfg]);
        }
    }
}
