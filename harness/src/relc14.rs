//! C14: lossy relation values — printing, reading back, conversion to / from the lossless form —
//! and the constructors / mutators of the lossless types (Model/RelBuild.lean).
use crate::rel::{enc_version, guarded, lossless_view, lossy_view};
use crate::util::*;
use crate::Resp;
use debian_control::lossless::relations as ll;
use debian_control::lossy::{Relation as LRel, Relations as LRels};
use debian_control::relations::{BuildProfile, VersionConstraint};
use std::str::FromStr;

pub fn dec_op(op: &str) -> Option<VersionConstraint> {
    Some(match op {
        "ge" => VersionConstraint::GreaterThanEqual,
        "le" => VersionConstraint::LessThanEqual,
        "eq" => VersionConstraint::Equal,
        "gt" => VersionConstraint::GreaterThan,
        "lt" => VersionConstraint::LessThan,
        _ => return None,
    })
}
pub fn op_name(vc: &VersionConstraint) -> &'static str {
    match vc {
        VersionConstraint::GreaterThanEqual => "ge",
        VersionConstraint::LessThanEqual => "le",
        VersionConstraint::Equal => "eq",
        VersionConstraint::GreaterThan => "gt",
        VersionConstraint::LessThan => "lt",
    }
}

fn dec_ver(h: &str) -> Option<Option<(VersionConstraint, debversion::Version)>> {
    if h == "none" {
        return Some(None);
    }
    let (op, t) = h.split_once('.')?;
    Some(Some((dec_op(op)?, ds(t)?.parse().ok()?)))
}

pub fn dec_group(h: &str) -> Option<Vec<BuildProfile>> {
    let r = h.strip_prefix('G')?;
    if r.is_empty() {
        return Some(vec![]);
    }
    r.split(',')
        .map(|t| {
            if let Some(x) = t.strip_prefix('E') {
                Some(BuildProfile::Enabled(ds(x)?))
            } else if let Some(x) = t.strip_prefix('D') {
                Some(BuildProfile::Disabled(ds(x)?))
            } else {
                None
            }
        })
        .collect()
}

pub fn dec_lossy_rel(h: &str) -> Option<LRel> {
    let p: Vec<&str> = h.split(':').collect();
    match p.as_slice() {
        [nm, aq, ver, archs, profs] => Some(LRel {
            name: ds(nm)?,
            archqual: if *aq == "none" { None } else { Some(ds(aq)?) },
            version: dec_ver(ver)?,
            architectures: if *archs == "none" {
                None
            } else {
                let r = archs.strip_prefix('L')?;
                Some(if r.is_empty() { vec![] } else { r.split(',').map(ds).collect::<Option<Vec<_>>>()? })
            },
            profiles: if profs.is_empty() {
                vec![]
            } else {
                profs.split('/').map(dec_group).collect::<Option<Vec<_>>>()?
            },
        }),
        _ => None,
    }
}

pub fn enc_lossy_rel_req(r: &LRel) -> String {
    let ver = match &r.version {
        None => "none".to_string(),
        Some((vc, v)) => format!("{}.{}", op_name(vc), es(&v.to_string())),
    };
    let archs = match &r.architectures {
        None => "none".to_string(),
        Some(l) => format!("L{}", l.iter().map(|a| es(a)).collect::<Vec<_>>().join(",")),
    };
    let profs = r
        .profiles
        .iter()
        .map(|g| {
            format!(
                "G{}",
                g.iter()
                    .map(|p| match p {
                        BuildProfile::Enabled(n) => format!("E{}", es(n)),
                        BuildProfile::Disabled(n) => format!("D{}", es(n)),
                    })
                    .collect::<Vec<_>>()
                    .join(",")
            )
        })
        .collect::<Vec<_>>()
        .join("/");
    format!("{}:{}:{}:{}:{}", es(&r.name), eopt(r.archqual.as_deref()), ver, archs, profs)
}

pub fn dec_lossy_rels(h: &str) -> Option<Vec<Vec<LRel>>> {
    if h.is_empty() {
        return Some(vec![]);
    }
    h.split(';')
        .map(|e| {
            let m = e.strip_prefix('(')?.strip_suffix(')')?;
            if m.is_empty() {
                Some(vec![])
            } else {
                m.split('|').map(dec_lossy_rel).collect()
            }
        })
        .collect()
}

pub fn enc_lossy_rels_req(rs: &[Vec<LRel>]) -> String {
    rs.iter()
        .map(|e| format!("({})", e.iter().map(enc_lossy_rel_req).collect::<Vec<_>>().join("|")))
        .collect::<Vec<_>>()
        .join(";")
}

/// same format as `rel.rs::view_rel`
pub fn enc_lossy_rel(r: &LRel) -> String {
    let ver = match &r.version {
        None => "none".to_string(),
        Some((vc, v)) => format!("{}:{}", vc, enc_version(v)),
    };
    let arch = match &r.architectures {
        None => "none".to_string(),
        Some(l) => format!("[{}]", elist(l)),
    };
    let prof = r
        .profiles
        .iter()
        .map(|g| {
            format!(
                "<{}>",
                g.iter()
                    .map(|p| match p {
                        BuildProfile::Enabled(s) => format!("E{}", es(s)),
                        BuildProfile::Disabled(s) => format!("D{}", es(s)),
                    })
                    .collect::<Vec<_>>()
                    .join(",")
            )
        })
        .collect::<Vec<_>>()
        .join("/");
    format!("name={};aq={};ver={};arch={};prof={}", es(&r.name), eopt(r.archqual.as_deref()), ver, arch, prof)
}

pub fn is_ident(s: &str) -> bool {
    !s.is_empty() && s.chars().all(|c| c.is_ascii_alphanumeric() || c == '-' || c == '.' || c == '+' || c == '~')
}

/// mirror of `RelSpec.validVersion`
pub fn valid_version(v: &debversion::Version) -> bool {
    let body = match &v.debian_revision {
        Some(r) => format!("{}-{}", v.upstream_version, r),
        None => v.upstream_version.clone(),
    };
    if !crate::relspec::body_ok(v.epoch.is_some(), &body) {
        return false;
    }
    // the value of that text: split at the last hyphen when both sides are non-empty (and the right
    // side can be a revision)
    let (up, rev) = crate::relspec::split_rev(&body);
    up == v.upstream_version && rev == v.debian_revision
}

/// mirror of `RelSpec.validR` (the domain of the text clauses: an architecture list may be empty)
pub fn valid_r_weak(r: &LRel) -> bool {
    is_ident(&r.name)
        && r.archqual.as_ref().map_or(true, |a| is_ident(a))
        && r.version.as_ref().map_or(true, |(_, v)| valid_version(v))
        && r.architectures.as_ref().map_or(true, |l| l.iter().all(|a| is_ident(a.strip_prefix('!').unwrap_or(a))))
        && r.profiles.iter().all(|g| {
            g.iter().all(|p| match p {
                    BuildProfile::Enabled(n) | BuildProfile::Disabled(n) => is_ident(n),
                })
        })
}

/// mirror of `RelSpec.validRS` (the strong variant: a present architecture list is non-empty)
pub fn valid_r(r: &LRel) -> bool {
    valid_r_weak(r) && r.architectures.as_ref().map_or(true, |l| !l.is_empty())
}

/// mirror of `Props.C14More.normArchs`: what the lossless form keeps of the value (`Some([])` is `None`)
fn norm_archs(r: &LRel) -> LRel {
    let mut x = r.clone();
    if x.architectures.as_ref().map_or(false, |l| l.is_empty()) {
        x.architectures = None;
    }
    x
}

/// mirror of `Props.C14More.qualBare` / `noInnerQualBare`
fn qual_bare(r: &LRel) -> bool {
    r.version.is_none() && r.architectures.is_none() && r.profiles.is_empty() && r.archqual.is_some()
}
fn no_inner_qual_bare(e: &[LRel]) -> bool {
    e.len() < 2 || e[..e.len() - 1].iter().all(|r| !qual_bare(r))
}

fn show_ll_rel(r: &Option<ll::Relation>) -> String {
    match r {
        Some(r) => format!("ok {} {}", es(&r.to_string()), r.verif_dump()),
        None => "PANIC".to_string(),
    }
}

/// the lossless accessors on the printed text must give back the value(s)
fn lossless_expect(rs: &[Vec<LRel>]) -> String {
    let mut s = String::from("0 E[");
    for e in rs {
        s.push('{');
        s.push_str(&e.iter().map(enc_lossy_rel).collect::<Vec<_>>().join("|"));
        s.push('}');
    }
    s.push_str("] S[]");
    s
}

/// the whole `rel.lrel` answer (observables + the C14 oracle) for one lossy value
pub fn lrel_resp(r: LRel) -> Resp {
    let printed = r.to_string();
    let rt = LRel::from_str(&printed);
    let rt_s = match &rt {
        Ok(x) => format!("ok {}", enc_lossy_rel(x)),
        Err(_) => "err".to_string(),
    };
    let lossless = guarded(|| ll::Relation::from(r.clone()));
    let bk = match &lossless {
        None => "-".to_string(),
        Some(l) => {
            // `From<Relation>` consumes the relation: parse it again from the same tree dump is
            // not possible, so convert a clone obtained through the builder once more
            match guarded(|| LRel::from(ll::Relation::from(r.clone()))) {
                Some(x) => {
                    let _ = l;
                    format!("ok {}", enc_lossy_rel(&x))
                }
                None => "PANIC".to_string(),
            }
        }
    };
    let lv = lossless_view(&printed, false);
    let valid = valid_r(&r);
    let mut fail = None;
    // the oracle applies to every value of the text-clause domain (`ValidR`, `Some([])` included);
    // the conversion clauses are evaluated in their exact form (C14More.C14_convert_exact): the
    // lossless form is that of `norm_archs(r)`, which is `r` itself on the strong domain
    if valid_r_weak(&r) {
        let n = norm_archs(&r);
        let nprinted = n.to_string();
        if rt.as_ref().ok() != Some(&r) {
            fail = Some(format!("lossy::Relation::from_str(r.to_string()) != r: {}", rt_s));
        } else if lv != lossless_expect(&[vec![r.clone()]]) {
            fail = Some(format!("lossless reader sees a different structure in r.to_string(): {}", lv));
        } else {
            // C14_lossless_reads_same_rel: the single-relation lossless reader
            match guarded(|| ll::Relation::from_str(&printed).map(|t| (t.to_string(), LRel::from(t)))) {
                Some(Ok((text, back))) => {
                    if text != printed {
                        fail = Some(format!("lossless::Relation::from_str(r.to_string()).to_string() = {:?}", text));
                    } else if back != r {
                        fail = Some(format!(
                            "lossy::Relation::from(lossless::Relation::from_str(r.to_string())) != r: {}",
                            enc_lossy_rel(&back)
                        ));
                    }
                }
                Some(Err(e)) => fail = Some(format!("lossless::Relation::from_str(r.to_string()) fails: {}", e)),
                None => fail = Some("lossless::Relation::from_str(r.to_string()) or its accessors panic".to_string()),
            }
        }
        if fail.is_none() {
            match &lossless {
                None => fail = Some("lossless::Relation::from(lossy) panics".to_string()),
                Some(l) => {
                    if l.to_string() != nprinted {
                        fail = Some(format!(
                            "lossless::Relation::from(lossy).to_string() = {:?} != {:?} (the lossy text, an empty architecture list dropped)",
                            l.to_string(),
                            nprinted
                        ));
                    } else if bk != format!("ok {}", enc_lossy_rel(&n)) {
                        fail = Some(format!(
                            "lossy::Relation::from(lossless::Relation::from(r)) != r (an empty architecture list dropped): {}",
                            bk
                        ));
                    } else {
                        // C14_parse_is_built(_norm): the parser returns the builder's tree
                        match guarded(|| ll::Relation::from_str(&nprinted).map(|t| t.verif_dump())) {
                            Some(Ok(d)) => {
                                if d != l.verif_dump() {
                                    fail = Some(format!(
                                        "lossless::Relation::from_str({:?}) builds {} but Relation::from(lossy) builds {}",
                                        nprinted,
                                        d,
                                        l.verif_dump()
                                    ));
                                }
                            }
                            _ => fail = Some(format!("lossless::Relation::from_str({:?}) fails", nprinted)),
                        }
                    }
                }
            }
        }
    }
    // F-C14-3 (open): the literal conversion clause at an empty architecture list — a value both
    // readers return for `a []` — fails: the lossless form prints `a`, converting back gives None
    if fail.is_none() && valid_r_weak(&r) && r.architectures == Some(vec![]) {
        fail = Some(format!(
            "conversion drops the empty architecture list: lossless form prints {:?}, the lossy value prints {:?}",
            lossless.as_ref().map(|l| l.to_string()).unwrap_or_default(),
            printed
        ));
    }
    Resp::with(
        format!(
            "P:{} RT:{} LL:{} BK:{} LV:{} valid={}",
            es(&printed),
            rt_s,
            show_ll_rel(&lossless),
            bk,
            lv,
            ebool(valid)
        ),
        fail,
    )
}

pub fn handle(op: &str, a: &[&str]) -> Option<Resp> {
    match (op, a) {
        ("rel.lrel", [h]) => Some(lrel_resp(dec_lossy_rel(h)?)),
        ("rel.lrels", [h]) => {
            let rs = dec_lossy_rels(h)?;
            let val = LRels(rs.clone());
            let printed = val.to_string();
            let rt = lossy_view(&printed);
            let lv = lossless_view(&printed, false);
            let ents: Vec<Option<ll::Entry>> = rs.iter().map(|e| guarded(|| ll::Entry::from(e.clone()))).collect();
            let en = ents
                .iter()
                .map(|e| match e {
                    Some(e) => format!("ok {} {}", es(&e.to_string()), e.verif_dump()),
                    None => "PANIC".to_string(),
                })
                .collect::<Vec<_>>()
                .join(";");
            let eb_items: Vec<String> = rs
                .iter()
                .zip(ents.iter())
                .map(|(e, built)| match built {
                    None => "-".to_string(),
                    Some(_) => match guarded(|| Vec::<LRel>::from(ll::Entry::from(e.clone()))) {
                        Some(xs) => format!("ok {{{}}}", xs.iter().map(enc_lossy_rel).collect::<Vec<_>>().join("|")),
                        None => "PANIC".to_string(),
                    },
                })
                .collect();
            let eb = eb_items.join(";");
            let rsh = if ents.iter().all(|e| e.is_some()) {
                match guarded(|| {
                    ll::Relations::from(rs.iter().map(|e| ll::Entry::from(e.clone())).collect::<Vec<_>>())
                }) {
                    Some(r) => format!("ok {} {}", es(&r.to_string()), r.verif_dump()),
                    None => "PANIC".to_string(),
                }
            } else {
                "-".to_string()
            };
            let valid = rs.iter().all(|e| !e.is_empty() && e.iter().all(valid_r));
            let mut fail = None;
            // every value whose relations are in the text-clause domain (`ValidR`); entries may be empty.
            // Exact forms (Props/C14More): the readers return the value without its empty entries, the
            // converted entries are those of the relations with `Some([])` replaced by `None`.
            if rs.iter().all(|e| e.iter().all(valid_r_weak)) {
                let kept: Vec<Vec<LRel>> = rs.iter().filter(|e| !e.is_empty()).cloned().collect();
                let normed: Vec<Vec<LRel>> = rs.iter().map(|e| e.iter().map(norm_archs).collect()).collect();
                let want_rt = {
                    let mut s = String::from("ok E[");
                    for e in &kept {
                        s.push('{');
                        s.push_str(&e.iter().map(enc_lossy_rel).collect::<Vec<_>>().join("|"));
                        s.push('}');
                    }
                    s.push(']');
                    s
                };
                if LRels::from_str(&printed).ok().as_ref() != Some(&LRels(kept.clone())) || rt != want_rt {
                    fail = Some(format!("lossy::Relations::from_str(rs.to_string()) != rs (without its empty entries): {}", rt));
                } else if lv != lossless_expect(&kept) {
                    fail = Some(format!("lossless reader sees a different structure in rs.to_string(): {}", lv));
                } else {
                    for (i, e) in normed.iter().enumerate() {
                        let want_text = e.iter().map(|r| r.to_string()).collect::<Vec<_>>().join(" | ");
                        match &ents[i] {
                            None => {
                                fail = Some("lossless::Entry::from(Vec<lossy::Relation>) panics".to_string());
                                break;
                            }
                            Some(b) => {
                                if b.to_string() != want_text {
                                    fail = Some(format!(
                                        "lossless::Entry::from(lossy).to_string() = {:?} != {:?}",
                                        b.to_string(),
                                        want_text
                                    ));
                                    break;
                                }
                                let want_back =
                                    format!("ok {{{}}}", e.iter().map(enc_lossy_rel).collect::<Vec<_>>().join("|"));
                                if eb_items[i] != want_back {
                                    fail = Some(format!("Vec<lossy::Relation>::from(Entry::from(e)) != e: {}", eb_items[i]));
                                    break;
                                }
                                // C14_entry_parse_is_built
                                if valid && no_inner_qual_bare(e) {
                                    match guarded(|| ll::Entry::from_str(&want_text).map(|t| t.verif_dump())) {
                                        Some(Ok(d)) if d == b.verif_dump() => {}
                                        other => {
                                            fail = Some(format!(
                                                "lossless::Entry::from_str({:?}) = {:?} but Entry::from(lossy) builds {}",
                                                want_text,
                                                other,
                                                b.verif_dump()
                                            ));
                                            break;
                                        }
                                    }
                                }
                            }
                        }
                    }
                    let nprinted = LRels(normed.clone()).to_string();
                    if fail.is_none() && rsh != "-" && !rsh.starts_with(&format!("ok {} ", es(&nprinted))) {
                        fail = Some(format!("lossless::Relations::from(entries).to_string() != rs.to_string(): {}", rsh));
                    }
                    // C14_field_parse_is_built
                    if fail.is_none() && valid && rs.iter().all(|e| no_inner_qual_bare(e)) {
                        match guarded(|| ll::Relations::from_str(&printed).map(|t| t.verif_dump())) {
                            Some(Ok(d)) if rsh == format!("ok {} {}", es(&printed), d) => {}
                            other => {
                                fail = Some(format!(
                                    "lossless::Relations::from_str(rs.to_string()) = {:?} but Relations::from(entries) is {}",
                                    other, rsh
                                ))
                            }
                        }
                    }
                }
            }
            if fail.is_none() && rs.iter().all(|e| e.iter().all(valid_r_weak)) && rs.iter().any(|e| e.iter().any(|r| r.architectures == Some(vec![]))) {
                fail = Some("conversion drops an empty architecture list (F-C14-3)".to_string());
            }
            Some(Resp::with(
                format!("P:{} RT:{} LV:{} EN:{} EB:{} RS:{} valid={}", es(&printed), rt, lv, en, eb, rsh, ebool(valid)),
                fail,
            ))
        }
        ("rel.replraw", [field, j, raw]) => {
            // Entry::replace with an operand parsed from a raw text (its RELATION node may carry
            // whitespace, e.g. "n " or "n:any\n"); oracle: the field then reads as before with that
            // one alternative replaced by what the operand read as
            let f = ds(field)?;
            let raw = ds(raw)?;
            let j: usize = j.parse().ok()?;
            let views = |root: &ll::Relations| -> Vec<Vec<String>> {
                root.entries().map(|e| e.relations().map(|r| crate::rel::view_rel(&r)).collect()).collect()
            };
            let out = guarded(|| {
                let root = ll::Relations::from_str(&f).ok()?;
                let rel = ll::Relation::from_str(&raw).ok()?;
                let mut want = views(&root);
                if want.is_empty() || j >= want[0].len() {
                    return None;
                }
                want[0][j] = crate::rel::view_rel(&rel);
                let mut e = root.get_entry(0)?;
                e.replace(j, rel);
                let text = root.to_string();
                let got = views(&root);
                let reread = ll::Relations::from_str(&text).ok().map(|r| views(&r));
                Some((format!("ok {} {}", es(&text), root.verif_dump()), want, got, reread))
            });
            Some(match out {
                None => Resp::with("PANIC".to_string(), Some("Entry::replace panics".to_string())),
                Some(None) => Resp::ok("none".to_string()),
                Some(Some((obs, want, got, reread))) => {
                    let fail = if got != want {
                        Some(format!("after Entry::replace the field reads {:?}, expected {:?}", got, want))
                    } else if reread.as_ref() != Some(&want) {
                        Some(format!("the printed field re-reads as {:?}, expected {:?}", reread, want))
                    } else {
                        None
                    };
                    Resp::with(obs, fail)
                }
            })
        }
        ("rel.mut", [name, ver, ops @ ..]) => {
            let nm = ds(name)?;
            let v = dec_ver(ver)?;
            // every prefix of the operation list is replayed from scratch (a panic leaves no handle)
            let run = |n: usize| -> Option<Option<ll::Relation>> {
                let mut steps: Vec<Box<dyn Fn(&mut ll::Relation)>> = vec![];
                for o in &ops[..n] {
                    let (k, x) = o.split_once('=')?;
                    match k {
                        "aq" => {
                            let a = ds(x)?;
                            steps.push(Box::new(move |r| r.set_archqual(&a)));
                        }
                        "ver" => {
                            let v = dec_ver(x)?;
                            steps.push(Box::new(move |r| r.set_version(v.clone())));
                        }
                        "drop" => {
                            steps.push(Box::new(move |r| {
                                r.drop_constraint();
                            }));
                        }
                        "arch" => {
                            let l = dlist(x)?;
                            steps.push(Box::new(move |r| r.set_architectures(l.iter().map(|s| s.as_str()))));
                        }
                        "prof" => {
                            let g = dec_group(x)?;
                            steps.push(Box::new(move |r| r.add_profile(&g)));
                        }
                        _ => return None,
                    }
                }
                let nm = nm.clone();
                let v = v.clone();
                Some(guarded(move || {
                    let mut r = ll::Relation::new(&nm, v);
                    for s in &steps {
                        s(&mut r);
                    }
                    r
                }))
            };
            let mut outs = vec![];
            let mut dead = false;
            for n in 0..=ops.len() {
                if dead {
                    outs.push("PANIC".to_string());
                    continue;
                }
                let r = run(n)?;
                if r.is_none() {
                    dead = true;
                }
                outs.push(show_ll_rel(&r));
            }
            Some(Resp::ok(outs.join(" ")))
        }
        _ => None,
    }
}

// ------------------------------------------------------------------ generators

/// C11 supplement: `Entry::replace` with operands parsed from texts with surrounding whitespace,
/// on old relations with and without whitespace inside their node
pub fn generate_c11_extra(_tier: &str, _seed: u64, out: &mut Out) {
    let fields = ["a", "a | b", "a , c", "a:any , c", "a | b:any ", "a (>= 1) | b, c", "a\n | b\n, c", "a ", "a | b | c "];
    let raws = ["n", "n ", " n", " n ", "n\n", "n:any", "n:any ", "n (>= 1)", "n (>= 1) ", "n [amd64] ", "n <x> ", "n:any \n "];
    for f in fields {
        for r in raws {
            for j in 0..3 {
                out.req("rel.replraw", &[es(f), j.to_string(), es(r)]);
            }
        }
    }
}

const NAMES: [&str; 4] = ["a", "libc6", "g++", "x.y~1"];
const ARCHS: [&str; 3] = ["amd64", "i386", "linux-any"];
const PROFS: [&str; 3] = ["nocheck", "cross", "pkg.x"];
const VERS: [&str; 9] = ["1", "2.3-4", "1:2.0~rc1", "0:1-2-3", "4294967295:0", "a-b.c+d", "7~~", "1:2:3", "1:2-3:4"];
const OPS: [VersionConstraint; 5] = [
    VersionConstraint::GreaterThanEqual,
    VersionConstraint::LessThanEqual,
    VersionConstraint::Equal,
    VersionConstraint::GreaterThan,
    VersionConstraint::LessThan,
];

fn archs_variants(n: usize) -> Vec<Vec<String>> {
    // every with/without '!' pattern over the first n architectures
    let mut out = vec![];
    for mask in 0..(1usize << n) {
        out.push((0..n).map(|i| format!("{}{}", if mask >> i & 1 == 1 { "!" } else { "" }, ARCHS[i % 3])).collect());
    }
    out
}

fn group_variants(n: usize, rng: &mut Rng) -> Vec<BuildProfile> {
    (0..n)
        .map(|i| {
            if rng.chance(50) {
                BuildProfile::Disabled(PROFS[i % 3].to_string())
            } else {
                BuildProfile::Enabled(PROFS[i % 3].to_string())
            }
        })
        .collect()
}

/// `clean`: architectures present and at most one profile group (the constructs of the fixed
/// findings F-C14-1 / F-C14-2 are the other 25 %)
pub fn random_rel(rng: &mut Rng, clean: bool) -> LRel {
    LRel {
        name: rng.pick(&NAMES).to_string(),
        archqual: if rng.chance(30) { Some(rng.pick(&["any", "native", "amd64"]).to_string()) } else { None },
        version: if rng.chance(55) { Some((rng.pick(&OPS).clone(), rng.pick(&VERS).parse().unwrap())) } else { None },
        architectures: if rng.chance(15) {
            // drawn with replacement: repeated architectures (same or opposite sign) are legal
            let n = 2 + rng.below(3);
            Some((0..n).map(|_| format!("{}{}", if rng.chance(40) { "!" } else { "" }, rng.pick(&ARCHS))).collect())
        } else if clean || rng.chance(50) {
            let n = rng.below(4);
            Some(rng.pick(&archs_variants(n)).clone())
        } else {
            None
        },
        profiles: {
            let k = if rng.chance(50) { 0 } else if clean { 1 } else { 1 + rng.below(3) };
            let mut gs: Vec<Vec<BuildProfile>> = (0..k).map(|_| { let n = 1 + rng.below(3); group_variants(n, rng) }).collect();
            // a repeated term inside a group, a repeated group
            if !gs.is_empty() && rng.chance(12) {
                let t = gs[0][0].clone();
                gs[0].push(t);
            }
            if !clean && !gs.is_empty() && rng.chance(12) {
                let g = gs[0].clone();
                gs.push(g);
            }
            gs
        },
    }
}

pub fn generate_c14(tier: &str, seed: u64, out: &mut Out) {
    let thorough = tier == "thorough";
    let mut rng = Rng::new(seed);
    // 1. exhaustive single relations: every combination of optional parts x 0..3 architectures with /
    //    without '!' x 0..3 profile groups of 1..3 terms
    let mut rels: Vec<LRel> = vec![];
    for aq in [None, Some("any".to_string())] {
        for ver in [None, Some(0usize), Some(2), Some(3)] {
            let mut arch_opts: Vec<Option<Vec<String>>> = vec![None];
            for n in 0..=3 {
                for v in archs_variants(n) {
                    arch_opts.push(Some(v));
                }
            }
            for archs in &arch_opts {
                for ngroups in 0..=3usize {
                    // group sizes: all of 1..3 for each group when thorough, one seeded choice otherwise
                    let size_sets: Vec<Vec<usize>> = if ngroups == 0 {
                        vec![vec![]]
                    } else if thorough {
                        lists_upto(&[1usize, 2, 3], ngroups).into_iter().filter(|l| l.len() == ngroups).collect()
                    } else {
                        vec![(0..ngroups).map(|i| 1 + (i + ngroups) % 3).collect(), vec![1; ngroups]]
                    };
                    for sizes in size_sets {
                        rels.push(LRel {
                            name: rng.pick(&NAMES).to_string(),
                            archqual: aq.clone(),
                            version: ver.map(|i| (OPS[(i + sizes.len()) % 5].clone(), VERS[i].parse().unwrap())),
                            architectures: archs.clone(),
                            profiles: sizes.iter().map(|n| group_variants(*n, &mut rng)).collect(),
                        });
                    }
                }
            }
        }
    }
    // repeated architectures / profile terms (legal, redundant): kept as written by every conversion
    for archs in [vec!["amd64", "amd64"], vec!["!i386", "!i386"], vec!["amd64", "i386", "amd64"], vec!["amd64", "!amd64"]] {
        for profs in [vec![], vec![vec![BuildProfile::Enabled("a".into()), BuildProfile::Enabled("a".into())]]] {
            rels.push(LRel {
                name: "a".to_string(),
                archqual: None,
                version: None,
                architectures: Some(archs.iter().map(|s| s.to_string()).collect()),
                profiles: profs,
            });
        }
    }
    // every operator and every version once
    for (i, v) in VERS.iter().enumerate() {
        for op in OPS.iter() {
            rels.push(LRel {
                name: NAMES[i % 4].to_string(),
                archqual: None,
                version: Some((op.clone(), v.parse().unwrap())),
                architectures: Some(vec![]),
                profiles: vec![],
            });
        }
    }
    for r in &rels {
        out.req("rel.lrel", &[enc_lossy_rel_req(r)]);
    }
    // 2. seeded random relations and Relations values (0-3 entries of 1-3 relations)
    let n = if thorough { 150_000 } else { 6_000 };
    for _ in 0..n {
        let clean = rng.chance(75);
        let r = random_rel(&mut rng, clean);
        out.req("rel.lrel", &[enc_lossy_rel_req(&r)]);
    }
    let n = if thorough { 150_000 } else { 6_000 };
    for _ in 0..n {
        let clean = rng.chance(78);
        let rs: Vec<Vec<LRel>> = (0..rng.below(4))
            .map(|_| (0..1 + rng.below(3)).map(|_| random_rel(&mut rng, clean)).collect())
            .collect();
        out.req("rel.lrels", &[enc_lossy_rels_req(&rs)]);
    }
    out.req("rel.lrels", &["".to_string()]);
    // 2b. sparse values (Props/C14More): entries without alternatives anywhere, empty architecture lists,
    //     bare `name:qualifier` alternatives before a `|`
    let n = if thorough { 30_000 } else { 1_500 };
    for _ in 0..n {
        let rs: Vec<Vec<LRel>> = (0..rng.below(5))
            .map(|_| {
                if rng.chance(30) {
                    vec![]
                } else {
                    (0..1 + rng.below(3))
                        .map(|_| {
                            let mut r = random_rel(&mut rng, false);
                            if rng.chance(25) {
                                r.architectures = Some(vec![]);
                            }
                            if rng.chance(20) {
                                r.version = None;
                                r.architectures = None;
                                r.profiles = vec![];
                                r.archqual = Some("any".to_string());
                            }
                            r
                        })
                        .collect()
                }
            })
            .collect();
        out.req("rel.lrels", &[enc_lossy_rels_req(&rs)]);
    }
    for h in ["()", "();()", "(x61:none:none:none:);();()", "();(x61:none:none:L:);();(x62:x616e79:none:none:|x63:none:none:none:)"] {
        out.req("rel.lrels", &[h.to_string()]);
    }
    // 3. values outside the domain (the oracle does not apply; model = code is still compared)
    for bad in [
        LRel { name: "a b".into(), archqual: None, version: None, architectures: None, profiles: vec![] },
        LRel { name: "".into(), archqual: None, version: None, architectures: Some(vec![]), profiles: vec![] },
        LRel { name: "a".into(), archqual: Some("".into()), version: None, architectures: Some(vec!["x y".into()]), profiles: vec![] },
        LRel { name: "a".into(), archqual: None, version: None, architectures: Some(vec![]), profiles: vec![vec![]] },
        LRel { name: "a".into(), archqual: None, version: None, architectures: Some(vec!["!".into()]), profiles: vec![vec![BuildProfile::Enabled("!x".into())]] },
        LRel { name: "a".into(), archqual: None, version: Some((VersionConstraint::Equal, "1:2:3".parse().unwrap())), architectures: Some(vec![]), profiles: vec![] },
    ] {
        out.req("rel.lrel", &[enc_lossy_rel_req(&bad)]);
    }
    out.req("rel.lrels", &["();(x61:none:none:L:)".to_string()]);
    // 4. mutator histories on a root handle: every sequence of <= 3 (thorough: 4) operations
    let mops = ["aq=x616e79", "ver=ge.x31", "ver=gt.x323a33", "ver=none", "drop=1", "arch=x616d643634,x2169333836", "arch=", "arch=x616d643634,x616d643634", "prof=GEx61,Dx62", "prof=GDx63"];
    let maxlen = if thorough { 4 } else { 3 };
    for start in ["none", "le.x302e31"] {
        for seq in lists_upto(&mops, maxlen) {
            let mut args = vec![es("p"), start.to_string()];
            args.extend(seq.iter().map(|s| s.to_string()));
            out.req("rel.mut", &args);
        }
    }
}
