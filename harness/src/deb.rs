//! deb822-lossless core: C01 (reader round-trip) and shared helpers (tree dump, document generators)
use crate::util::*;
use crate::Resp;
use deb822_lossless::Deb822;
use rowan::ast::AstNode;
use std::str::FromStr;

pub fn dump_node<L: rowan::Language>(n: &rowan::SyntaxNode<L>, out: &mut String)
where
    L::Kind: std::fmt::Debug,
{
    out.push('(');
    out.push_str(&format!("{:?}", n.kind()));
    for c in n.children_with_tokens() {
        out.push(' ');
        match c {
            rowan::NodeOrToken::Node(n) => dump_node(&n, out),
            rowan::NodeOrToken::Token(t) => {
                out.push_str(&format!("{:?}:{}", t.kind(), es(t.text())));
            }
        }
    }
    out.push(')');
}

pub fn dump_deb(d: &Deb822) -> String {
    let mut s = String::new();
    dump_node(d.syntax(), &mut s);
    s
}

pub fn handle(op: &str, a: &[&str]) -> Option<Resp> {
    match (op, a) {
        ("deb.read", [t]) => {
            let s = ds(t)?;
            let (d, errs) = Deb822::from_str_relaxed(&s);
            let printed = d.to_string();
            let strict = Deb822::from_str(&s);
            let strict_s = match &strict {
                Ok(d) => format!("ok:{}", es(&d.to_string())),
                Err(_) => "err".to_string(),
            };
            let mut fail = None;
            if printed != s {
                fail = Some("from_str_relaxed(s).to_string() != s".to_string());
            } else if strict.is_ok() != errs.is_empty() {
                fail = Some("strict.is_ok() != relaxed errors.is_empty()".to_string());
            } else if let Ok(d2) = &strict {
                if d2.to_string() != s {
                    fail = Some("from_str(s).to_string() != s".to_string());
                }
            }
            if fail.is_none() {
                // read / read_relaxed over the same bytes
                match Deb822::read_relaxed(s.as_bytes()) {
                    Ok((d3, e3)) => {
                        if d3.to_string() != s || e3.is_empty() != errs.is_empty() {
                            fail = Some("read_relaxed differs from from_str_relaxed".to_string());
                        }
                    }
                    Err(_) => fail = Some("read_relaxed io error".to_string()),
                }
                match Deb822::read(s.as_bytes()) {
                    Ok(d4) => {
                        if d4.to_string() != s || !errs.is_empty() {
                            fail = Some("read differs from from_str".to_string());
                        }
                    }
                    Err(_) => {
                        if errs.is_empty() {
                            fail = Some("read failed where from_str succeeds".to_string());
                        }
                    }
                }
            }
            Some(Resp::with(
                format!("{} {} {} {}", es(&printed), errs.len(), strict_s, dump_deb(&d)),
                fail,
            ))
        }
        ("deb.lossy", [t]) => {
            let s = ds(t)?;
            let r = deb822_lossless::lossy::Deb822::from_str(&s);
            let obs = match &r {
                Ok(d) => format!("ok {}", enc_lossy(d)),
                Err(_) => "err".to_string(),
            };
            Some(Resp::ok(obs))
        }
        _ => None,
    }
}

pub fn enc_items(items: &[(String, String)]) -> String {
    items.iter().map(|(k, v)| format!("{}:{}", es(k), es(v))).collect::<Vec<_>>().join(",")
}

pub fn enc_lossy(d: &deb822_lossless::lossy::Deb822) -> String {
    d.iter()
        .map(|p| enc_items(&p.iter().map(|(k, v)| (k.to_string(), v.to_string())).collect::<Vec<_>>()))
        .collect::<Vec<_>>()
        .join(";")
}

/// representatives of the lexer's character classes
pub const ALPHABET: [&str; 12] = ["a", "-", ":", "#", " ", "\t", "\n", "\r", "é", "😀", "\u{1}", "~"];

/// a random, mostly well-formed deb822 text with irregular layout (for mutation)
pub fn random_doc(rng: &mut Rng) -> String {
    let names = ["A", "Source", "X-Y", "a1", "~k", "Foo_bar"];
    let vals = ["b", "1.0-1", "é 😀", "x: y", "a # b", "", "foo,", ".", ":c", "#d"];
    let mut s = String::new();
    for _ in 0..rng.below(3) {
        match rng.below(3) {
            0 => s.push('\n'),
            1 => s.push_str("# lead\n"),
            _ => s.push_str("#\n"),
        }
    }
    let np = rng.below(4);
    for p in 0..np {
        if p > 0 {
            for _ in 0..1 + rng.below(2) {
                s.push('\n');
            }
            if rng.chance(20) {
                s.push_str("# between\n\n");
            }
        }
        for _ in 0..1 + rng.below(4) {
            if rng.chance(15) {
                s.push_str("# c\n");
            }
            s.push_str(*rng.pick(&names));
            s.push(':');
            s.push_str(*rng.pick(&["", " ", "  ", "\t"]));
            s.push_str(*rng.pick(&vals));
            s.push('\n');
            for _ in 0..rng.below(3) {
                s.push_str(*rng.pick(&[" ", "  ", "\t", " \t"]));
                s.push_str(*rng.pick(&vals[..5]));
                s.push('\n');
            }
        }
    }
    if rng.chance(30) {
        s.pop();
    }
    s
}

pub fn mutate(rng: &mut Rng, s: &str) -> String {
    let chars: Vec<char> = s.chars().collect();
    if chars.is_empty() {
        return rng.pick(&ALPHABET).to_string();
    }
    let i = rng.below(chars.len());
    let mut out: Vec<char> = chars.clone();
    match rng.below(6) {
        0 => {
            out.remove(i);
        }
        1 => {
            out.insert(i, chars[i]);
        }
        2 => {
            let c = rng.pick(&ALPHABET).chars().next().unwrap();
            out.insert(i, c);
        }
        3 => out.truncate(i),
        4 => {
            let c = rng.pick(&ALPHABET).chars().next().unwrap();
            out[i] = c;
        }
        _ => {
            // CRLF-ify
            return s.replace('\n', "\r\n");
        }
    }
    out.into_iter().collect()
}

pub fn gen_texts(tier: &str, seed: u64) -> Vec<String> {
    let thorough = tier == "thorough";
    let mut v = strings_upto(&ALPHABET, if thorough { 6 } else { 5 });
    let mut rng = Rng::new(seed);
    let n = if thorough { 300_000 } else { 20_000 };
    for _ in 0..n {
        let d = random_doc(&mut rng);
        if rng.chance(50) {
            v.push(mutate(&mut rng, &d));
        } else if rng.chance(30) {
            let m = mutate(&mut rng, &d);
            v.push(mutate(&mut rng, &m));
        } else {
            v.push(d);
        }
    }
    // every truncation of the repo's benchmark excerpt
    if let Ok(src) = std::fs::read_to_string("/repo/bench/Sources") {
        let ex: String = src.chars().take(if thorough { 6000 } else { 1500 }).collect();
        let mut i = 0;
        while i <= ex.len() {
            if ex.is_char_boundary(i) {
                v.push(ex[..i].to_string());
            }
            i += if thorough { 1 } else { 3 };
        }
    }
    v
}

pub fn generate_c01(tier: &str, seed: u64, out: &mut Out) {
    for t in gen_texts(tier, seed) {
        out.req("deb.read", &[es(&t)]);
    }
}
