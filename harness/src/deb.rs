//! deb822-lossless core: C01 (reader round-trip) and shared helpers (tree dump, document generators)
use crate::docspec::{self, Line};
use crate::util::*;
use crate::Resp;
use deb822_lossless::Deb822;
use rowan::ast::AstNode;
use std::str::FromStr;

pub fn dump_node<L: rowan::Language>(n: &rowan::SyntaxNode<L>, out: &mut String)
where
    L::Kind: std::fmt::Debug,
{
    out.push('(');
    out.push_str(&format!("{:?}", n.kind()));
    for c in n.children_with_tokens() {
        out.push(' ');
        match c {
            rowan::NodeOrToken::Node(n) => dump_node(&n, out),
            rowan::NodeOrToken::Token(t) => {
                out.push_str(&format!("{:?}:{}", t.kind(), es(t.text())));
            }
        }
    }
    out.push(')');
}

pub fn dump_deb(d: &Deb822) -> String {
    let mut s = String::new();
    dump_node(d.syntax(), &mut s);
    s
}

pub fn handle(op: &str, a: &[&str]) -> Option<Resp> {
    match (op, a) {
        // Deb822::read_relaxed / read over raw bytes (valid UTF-8 or not): `io` = Err(io error);
        // otherwise the printed bytes, the number of errors and the class of the strict reader
        ("deb.readbytes", [t]) => {
            let bytes = dbytes(t)?;
            let valid = std::str::from_utf8(&bytes).is_ok();
            let strict_r = Deb822::read(&bytes[..]);
            let strict = match &strict_r {
                Ok(_) => "ok",
                Err(deb822_lossless::Error::IoError(_)) => "io",
                Err(_) => "err",
            };
            let mut fail = None;
            let obs = match Deb822::read_relaxed(&bytes[..]) {
                Err(_) => {
                    if valid {
                        fail = Some("read_relaxed fails on valid UTF-8".to_string());
                    }
                    format!("io {}", strict)
                }
                Ok((d, errs)) => {
                    let printed = d.to_string();
                    if !valid {
                        fail = Some("read_relaxed accepts bytes that are not UTF-8".to_string());
                    } else if printed.as_bytes() != &bytes[..] {
                        fail = Some("read_relaxed(bytes).to_string() is not the input bytes".to_string());
                    } else if (strict == "ok") != errs.is_empty() {
                        fail = Some("read(bytes).is_ok() != read_relaxed errors.is_empty()".to_string());
                    }
                    // `Error::ParseError(e)` displays as `e` (lossless.rs:73)
                    let payload = match &strict_r {
                        Err(deb822_lossless::Error::ParseError(e)) => if e.to_string() == render_errors(&errs) { "eq" } else { "ne" },
                        _ => "-",
                    };
                    if fail.is_none() && strict == "err" && (payload != "eq" || errs.is_empty()) {
                        fail = Some("read(bytes) = Err(ParseError(l)) with l not the non-empty error list of read_relaxed(bytes)".to_string());
                    }
                    format!("ok x{} {} {} {} payload={}", hex(printed.as_bytes()), errs.len(), strict, es(&errs.join("\n")), payload)
                }
            };
            if (strict == "io") == valid && fail.is_none() {
                fail = Some("read: io error exactly when the bytes are not UTF-8 is violated".to_string());
            }
            Some(Resp::with(obs, fail))
        }
        ("deb.read", [t]) => {
            let s = ds(t)?;
            let (d, errs) = Deb822::from_str_relaxed(&s);
            let printed = d.to_string();
            let strict = Deb822::from_str(&s);
            let strict_s = match &strict {
                Ok(d) => format!("ok:{}", es(&d.to_string())),
                Err(_) => "err".to_string(),
            };
            // the messages themselves, and whether the strict reader's `Err(ParseError(list))` is the
            // tolerant reader's list (the field is private: `Display` writes every message followed
            // by `\n`, lossless.rs:49-56; no message contains a line feed)
            let msgs = errs.join("\n");
            let payload = match &strict {
                Ok(_) => "-",
                Err(e) => if e.to_string() == render_errors(&errs) { "eq" } else { "ne" },
            };
            let mut fail = None;
            if printed != s {
                fail = Some("from_str_relaxed(s).to_string() != s".to_string());
            } else if strict.is_ok() != errs.is_empty() {
                fail = Some("strict.is_ok() != relaxed errors.is_empty()".to_string());
            } else if strict.is_err() && (payload != "eq" || errs.is_empty()) {
                fail = Some("from_str(s) = Err(ParseError(l)) with l not the non-empty error list of from_str_relaxed(s)".to_string());
            } else if errs.iter().any(|m| m.contains('\n')) {
                fail = Some("an error message contains a line feed".to_string());
            } else if let Ok(d2) = &strict {
                if d2.to_string() != s {
                    fail = Some("from_str(s).to_string() != s".to_string());
                }
            }
            if fail.is_none() {
                // a reader result is a fresh tree of the text: editing one result must not show in a
                // later reading of the same text (after seeded change C01-r6m1: a parse cache handing
                // out the same mutable tree)
                let (mut d1, _) = Deb822::from_str_relaxed(&s);
                for mut p in d1.paragraphs() {
                    p.set("Zz-poked", "1");
                }
                d1.add_paragraph().set("Zz-new", "2");
                let (d2, _) = Deb822::from_str_relaxed(&s);
                let st2 = Deb822::from_str(&s);
                if d2.to_string() != s || st2.as_ref().map(|d| d.to_string() != s).unwrap_or(false) {
                    fail = Some("reading the same text again after an earlier result was edited does not reproduce the text".to_string());
                }
            }
            // from_file / from_file_relaxed on a path that is not a regular file: the text delivered
            // through a pipe opened by path (stat() reports size 0 there) — after seeded change
            // C01-r7m1 (a read capped by the metadata length)
            if fail.is_none() && s.len() <= 60_000 {
                use std::io::Write;
                use std::os::fd::AsRawFd;
                let through_pipe = |strict: bool| -> Option<(String, bool)> {
                    let (rd, mut wr) = std::io::pipe().ok()?;
                    wr.write_all(s.as_bytes()).ok()?;
                    drop(wr);
                    let path = format!("/proc/self/fd/{}", rd.as_raw_fd());
                    if strict {
                        Some(match Deb822::from_file(&path) {
                            Ok(d) => (d.to_string(), true),
                            Err(_) => (String::new(), false),
                        })
                    } else {
                        Deb822::from_file_relaxed(&path).ok().map(|(d, e)| (d.to_string(), e.is_empty()))
                    }
                };
                match through_pipe(false) {
                    Some((t, noerr)) => {
                        if t != s || noerr != errs.is_empty() {
                            fail = Some("from_file_relaxed on a pipe path differs from from_str_relaxed".to_string());
                        }
                    }
                    None => fail = Some("from_file_relaxed on a pipe path: io error".to_string()),
                }
                if fail.is_none() {
                    if let Some((t, ok)) = through_pipe(true) {
                        if ok != errs.is_empty() || (ok && t != s) {
                            fail = Some("from_file on a pipe path differs from from_str".to_string());
                        }
                    }
                }
            }
            // faults at a particular point of the input stream: an `Interrupted` read is retried and
            // changes nothing; a hard error after k bytes yields an error, never a partial document
            if fail.is_none() && s.len() <= 4096 {
                let b = s.as_bytes();
                for at in [0usize, 1, b.len() / 2, b.len().saturating_sub(1), b.len()] {
                    let at = at.min(b.len());
                    match Deb822::read_relaxed(Faulty { data: b, at, hard: false, pos: 0, fired: false }) {
                        Ok((d, e)) if d.to_string() == s && e.is_empty() == errs.is_empty() => {}
                        _ => {
                            fail = Some(format!("read_relaxed over a reader interrupted once at byte {} differs from from_str_relaxed", at));
                            break;
                        }
                    }
                    if at < b.len() || b.is_empty() {
                        if Deb822::read_relaxed(Faulty { data: b, at, hard: true, pos: 0, fired: false }).is_ok() && at < b.len() {
                            fail = Some(format!("read_relaxed returns a document although the reader failed at byte {}", at));
                            break;
                        }
                        if Deb822::read(Faulty { data: b, at, hard: true, pos: 0, fired: false }).is_ok() && at < b.len() {
                            fail = Some(format!("read returns a document although the reader failed at byte {}", at));
                            break;
                        }
                    }
                }
            }
            if fail.is_none() {
                // read / read_relaxed over the same bytes
                match Deb822::read_relaxed(s.as_bytes()) {
                    Ok((d3, e3)) => {
                        if d3.to_string() != s || e3.is_empty() != errs.is_empty() {
                            fail = Some("read_relaxed differs from from_str_relaxed".to_string());
                        }
                    }
                    Err(_) => fail = Some("read_relaxed io error".to_string()),
                }
                // the same through readers that return short reads (1 and 3 bytes at a time): a
                // multi-byte character then lies across two read() calls
                for step in [1usize, 3] {
                    if fail.is_some() || s.is_ascii() {
                        break;
                    }
                    match Deb822::read_relaxed(Dribble { data: s.as_bytes(), step }) {
                        Ok((d3, e3)) => {
                            if d3.to_string() != s || e3.is_empty() != errs.is_empty() {
                                fail = Some(format!("read_relaxed over a reader returning {} byte(s) per call differs from from_str_relaxed", step));
                            }
                        }
                        Err(_) => fail = Some("read_relaxed io error (short reads)".to_string()),
                    }
                    match Deb822::read(Dribble { data: s.as_bytes(), step }) {
                        Ok(d4) => {
                            if d4.to_string() != s || !errs.is_empty() {
                                fail = Some("read over short reads differs from from_str".to_string());
                            }
                        }
                        Err(_) => {
                            if errs.is_empty() {
                                fail = Some("read over short reads failed where from_str succeeds".to_string());
                            }
                        }
                    }
                }
                match Deb822::read(s.as_bytes()) {
                    Ok(d4) => {
                        if d4.to_string() != s || !errs.is_empty() {
                            fail = Some("read differs from from_str".to_string());
                        }
                    }
                    Err(_) => {
                        if errs.is_empty() {
                            fail = Some("read failed where from_str succeeds".to_string());
                        }
                    }
                }
            }
            Some(Resp::with(
                format!("{} {} {} {} {} payload={}", es(&printed), errs.len(), strict_s, dump_deb(&d), es(&msgs), payload),
                fail,
            ))
        }
        ("deb.doc", [ls, fnl]) => {
            let ls = docspec::dec_lines(ls)?;
            let text = docspec::render(&ls, *fnl == "1");
            let (view, strict) = view_doc(&text);
            let mut fail = None;
            if docspec::wf(&ls) {
                // C03: accepted, and exactly the generator's content
                match &strict {
                    None => fail = Some("well-formed document rejected by the strict reader".to_string()),
                    Some(d) => fail = check_content(d, &docspec::content(&ls)),
                }
            } else if let Some(lines) = docspec::text_lines(&ls, *fnl == "1") {
                // documents with raw lines (corrupted lines, lenient lines): the line-level lenient
                // grammar of the strict reader decides rejection / acceptance and the content. The
                // rejection side is as wide as C03_reject_replace / C03_reject_insert (a BadLine at
                // any position, any suffix).
                let pfs = deb822_lossless::Paragraph::from_str(&text);
                match (docspec::lenient(&lines), &strict) {
                    (None, Some(_)) => fail = Some("document with a corrupted line accepted by the strict reader".to_string()),
                    (None, None) => {
                        if pfs.is_ok() {
                            fail = Some("document with a corrupted line accepted by Paragraph::from_str".to_string());
                        }
                    }
                    (Some(_), None) => fail = Some("document of the lenient line grammar rejected by the strict reader".to_string()),
                    (Some(c), Some(d)) => {
                        fail = check_content(d, &c);
                        if fail.is_none() {
                            // Paragraph::from_str on the text itself (check_content reads the printed document)
                            match (pfs, c.first()) {
                                (Ok(p), Some(e)) => {
                                    if &p.items().collect::<Vec<_>>() != e {
                                        fail = Some("Paragraph::from_str is not the first paragraph".to_string());
                                    }
                                }
                                (Err(_), None) => {}
                                (Ok(_), None) => fail = Some("Paragraph::from_str returned a paragraph for a document without paragraphs".to_string()),
                                (Err(_), Some(_)) => fail = Some("Paragraph::from_str failed on a document of the lenient line grammar".to_string()),
                            }
                        }
                    }
                }
            }
            Some(Resp::with(format!("{} {} wf={}", es(&text), view, ebool(docspec::wf(&ls))), fail))
        }
        ("deb.view", [t]) => {
            let s = ds(t)?;
            Some(Resp::ok(view_doc(&s).0))
        }
        _ => None,
    }
}

/// `ParseError::to_string()` of a message list: every message followed by a line feed
fn render_errors(errs: &[String]) -> String {
    errs.iter().map(|m| format!("{}\n", m)).collect()
}

/// ASCII letters with their case swapped (field names are compared exactly: `get("source")` must
/// not find `Source`)
fn swap_case(k: &str) -> String {
    k.chars()
        .map(|c| if c.is_ascii_uppercase() { c.to_ascii_lowercase() } else if c.is_ascii_lowercase() { c.to_ascii_uppercase() } else { c })
        .collect()
}

/// the names looked up on a paragraph: its own names, their case-swapped variants, one absent name
/// (same list as Driver/Deb.lean `lookupKeys`)
fn lookup_keys(keys: Vec<String>) -> Vec<String> {
    let own = dedup(keys);
    let mut all = own.clone();
    all.extend(own.iter().map(|k| swap_case(k)));
    all.push("Zz".to_string());
    dedup(all)
}

/// a reader with a fault: `Interrupted` once before byte `at` (a reader must retry: the std
/// `read_to_string` does), or a hard error at byte `at` (no partial document may be returned)
pub struct Faulty<'a> {
    pub data: &'a [u8],
    pub at: usize,
    pub hard: bool,
    pub pos: usize,
    pub fired: bool,
}

impl<'a> std::io::Read for Faulty<'a> {
    fn read(&mut self, buf: &mut [u8]) -> std::io::Result<usize> {
        if self.pos >= self.at && !(self.fired && !self.hard) {
            if self.hard {
                return Err(std::io::Error::new(std::io::ErrorKind::Other, "fault"));
            }
            self.fired = true;
            return Err(std::io::Error::new(std::io::ErrorKind::Interrupted, "interrupted"));
        }
        let lim = if self.pos < self.at { self.at - self.pos } else { usize::MAX };
        let n = buf.len().min(self.data.len() - self.pos).min(lim).min(5);
        buf[..n].copy_from_slice(&self.data[self.pos..self.pos + n]);
        self.pos += n;
        Ok(n)
    }
}

/// a reader that hands out at most `step` bytes per read() call
pub struct Dribble<'a> {
    pub data: &'a [u8],
    pub step: usize,
}

impl<'a> std::io::Read for Dribble<'a> {
    fn read(&mut self, buf: &mut [u8]) -> std::io::Result<usize> {
        let n = self.step.min(buf.len()).min(self.data.len());
        buf[..n].copy_from_slice(&self.data[..n]);
        self.data = &self.data[n..];
        Ok(n)
    }
}

fn dedup(v: Vec<String>) -> Vec<String> {
    let mut out: Vec<String> = vec![];
    for x in v {
        if !out.contains(&x) {
            out.push(x);
        }
    }
    out
}

/// canonical view of a strictly parsed document (same format as Driver/Deb.lean `viewDoc`)
pub fn view_doc(s: &str) -> (String, Option<Deb822>) {
    match Deb822::from_str(s) {
        Err(_) => ("err".to_string(), None),
        Ok(d) => {
            let ps: Vec<deb822_lossless::Paragraph> = d.paragraphs().collect();
            let items: Vec<String> = ps.iter().map(|p| enc_items(&p.items().collect::<Vec<_>>())).collect();
            let keys: Vec<String> = ps.iter().map(|p| elist(&p.keys().collect::<Vec<_>>())).collect();
            let looks: Vec<String> = ps
                .iter()
                .map(|p| {
                    let ks = lookup_keys(p.keys().collect());
                    ks.iter()
                        .map(|k| {
                            format!(
                                "{}/{}/{}",
                                eopt(p.get(k).as_deref()),
                                elist(&p.get_all(k).collect::<Vec<_>>()),
                                ebool(p.contains_key(k))
                            )
                        })
                        .collect::<Vec<_>>()
                        .join("|")
                })
                .collect();
            let pfs = match deb822_lossless::Paragraph::from_str(s) {
                Ok(p) => enc_items(&p.items().collect::<Vec<_>>()),
                Err(_) => "none".to_string(),
            };
            (
                format!("ok {} K[{}] L[{}] pfs:{}", items.join(";"), keys.join(";"), looks.join(";"), pfs),
                Some(d),
            )
        }
    }
}

/// C03 oracle: the live object exposes exactly `expected`
fn check_content(d: &Deb822, expected: &[Vec<(String, String)>]) -> Option<String> {
    let ps: Vec<deb822_lossless::Paragraph> = d.paragraphs().collect();
    let got: Vec<Vec<(String, String)>> = ps.iter().map(|p| p.items().collect()).collect();
    if got != expected {
        return Some(format!("content differs: got {:?} expected {:?}", got, expected));
    }
    for (p, e) in ps.iter().zip(expected) {
        let names: Vec<String> = e.iter().map(|(k, _)| k.clone()).collect();
        if p.keys().collect::<Vec<_>>() != names {
            return Some("keys() differs from field names in file order".to_string());
        }
        for k in lookup_keys(names.clone()).iter() {
            let first = e.iter().find(|(n, _)| n == k).map(|(_, v)| v.clone());
            let all: Vec<String> = e.iter().filter(|(n, _)| n == k).map(|(_, v)| v.clone()).collect();
            if p.get(k) != first {
                return Some(format!("get({:?}) is not the first field of that name", k));
            }
            if p.get_all(k).collect::<Vec<_>>() != all {
                return Some(format!("get_all({:?}) is not every value in order", k));
            }
            if p.contains_key(k) != first.is_some() {
                return Some(format!("contains_key({:?}) wrong", k));
            }
        }
    }
    let pfs = deb822_lossless::Paragraph::from_str(&d.to_string());
    match (pfs, expected.first()) {
        (Ok(p), Some(e)) => {
            if &p.items().collect::<Vec<_>>() != e {
                return Some("Paragraph::from_str is not the first paragraph".to_string());
            }
        }
        (Err(_), None) => {}
        (Ok(_), None) => return Some("Paragraph::from_str returned a paragraph for an empty document".to_string()),
        (Err(_), Some(_)) => return Some("Paragraph::from_str failed on a well-formed document".to_string()),
    }
    None
}

pub fn enc_items(items: &[(String, String)]) -> String {
    items.iter().map(|(k, v)| format!("{}:{}", es(k), es(v))).collect::<Vec<_>>().join(",")
}

/// representatives of the lexer's character classes
pub const ALPHABET: [&str; 12] = ["a", "-", ":", "#", " ", "\t", "\n", "\r", "é", "😀", "\u{1}", "~"];

/// the EDGES of the lexer's character ranges (audit C01 W5; seeded change C03-r7m1: a key-character
/// range with exclusive upper bounds that drops `9` and `~`): `!` (0x21, first graphic character),
/// `9` and `;` (the neighbours of `:`), DEL (0x7f, first character after `~`, not graphic), U+0080
/// (first non-ASCII character, a 2-byte C1 control), VT (0x0b, between the indent TAB 0x09 / the
/// line end LF 0x0a and the line end CR 0x0d; white space for Unicode, neither indent nor line end
/// here). `~` (0x7e, last graphic character) is in `ALPHABET`. `ALPHABET` itself is left as it is:
/// the generators of C02, C06, C07 and the changes codec enumerate over it to their own lengths.
pub const EDGE_CHARS: [&str; 6] = ["!", "9", ";", "\u{7f}", "\u{80}", "\u{b}"];

/// every string of length <= `max` over `ALPHABET` + `EDGE_CHARS` (18 classes) that contains at
/// least one edge character (the others are in `strings_upto(&ALPHABET, ..)` already)
pub fn edge_texts(max: usize) -> Vec<String> {
    let mut all: Vec<&str> = ALPHABET.to_vec();
    all.extend(EDGE_CHARS.iter());
    strings_upto(&all, max).into_iter().filter(|t| EDGE_CHARS.iter().any(|e| t.contains(e))).collect()
}

/// characters a "lenient" rewrite is likely to special-case: BOM, Unicode white space other than
/// space/tab (NBSP, ideographic space, VT, FF, NEL, LINE SEPARATOR), NUL, DEL
pub const ODD_CHARS: [&str; 9] = ["\u{feff}", "\u{a0}", "\u{3000}", "\u{b}", "\u{c}", "\u{85}", "\u{2028}", "\u{0}", "\u{7f}"];

/// a random, mostly well-formed deb822 text with irregular layout (for mutation)
pub fn random_doc(rng: &mut Rng) -> String {
    let names = ["A", "Source", "X-Y", "a1", "~k", "Foo_bar"];
    let vals = ["b", "1.0-1", "é 😀", "x: y", "a # b", "", "foo,", ".", ":c", "#d"];
    let mut s = String::new();
    for _ in 0..rng.below(3) {
        match rng.below(3) {
            0 => s.push('\n'),
            1 => s.push_str("# lead\n"),
            _ => s.push_str("#\n"),
        }
    }
    let np = rng.below(4);
    for p in 0..np {
        if p > 0 {
            for _ in 0..1 + rng.below(2) {
                s.push('\n');
            }
            if rng.chance(20) {
                s.push_str("# between\n\n");
            }
        }
        for _ in 0..1 + rng.below(4) {
            if rng.chance(15) {
                s.push_str("# c\n");
            }
            s.push_str(*rng.pick(&names));
            s.push(':');
            s.push_str(*rng.pick(&["", " ", "  ", "\t"]));
            s.push_str(*rng.pick(&vals));
            s.push('\n');
            for _ in 0..rng.below(3) {
                s.push_str(*rng.pick(&[" ", "  ", "\t", " \t"]));
                s.push_str(*rng.pick(&vals[..5]));
                s.push('\n');
            }
        }
    }
    if rng.chance(30) {
        s.pop();
    }
    s
}

pub fn mutate(rng: &mut Rng, s: &str) -> String {
    let chars: Vec<char> = s.chars().collect();
    if chars.is_empty() {
        return rng.pick(&ALPHABET).to_string();
    }
    let i = rng.below(chars.len());
    let mut out: Vec<char> = chars.clone();
    match rng.below(6) {
        0 => {
            out.remove(i);
        }
        1 => {
            out.insert(i, chars[i]);
        }
        2 => {
            let c = if rng.chance(25) { rng.pick(&ODD_CHARS).chars().next().unwrap() } else { rng.pick(&ALPHABET).chars().next().unwrap() };
            out.insert(i, c);
        }
        3 => out.truncate(i),
        4 => {
            let c = rng.pick(&ALPHABET).chars().next().unwrap();
            out[i] = c;
        }
        _ => {
            // CRLF-ify
            return s.replace('\n', "\r\n");
        }
    }
    out.into_iter().collect()
}

pub fn gen_texts(tier: &str, seed: u64) -> Vec<String> {
    let thorough = tier == "thorough";
    let mut v = strings_upto(&ALPHABET, if thorough { 6 } else { 5 });
    let mut rng = Rng::new(seed);
    // every odd character at every position of every short string over the core classes
    let core = ["a", ":", " ", "\n", "#"];
    for base in strings_upto(&core, if thorough { 4 } else { 3 }) {
        let chars: Vec<char> = base.chars().collect();
        for odd in ODD_CHARS.iter() {
            for i in 0..=chars.len() {
                let mut t: String = chars[..i].iter().collect();
                t.push_str(odd);
                t.extend(chars[i..].iter());
                v.push(t);
            }
        }
    }
    // odd characters inside realistic documents: first character, after the colon, start of a
    // continuation line, inside a key
    for odd in ODD_CHARS.iter() {
        for t in [
            format!("{}Source: foo\nA: b\n", odd),
            format!("Source:{}foo\n", odd),
            format!("Source: {}foo\n {}bar\n", odd, odd),
            format!("Source: foo\n{}bar\n", odd),
            format!("So{}urce: foo\n", odd),
            format!("Source: foo{}\n\n{}\nB: c", odd, odd),
            format!("# c{}\nA: b\n", odd),
        ] {
            v.push(t);
        }
    }
    let n = if thorough { 300_000 } else { 20_000 };
    for _ in 0..n {
        let d = random_doc(&mut rng);
        if rng.chance(50) {
            v.push(mutate(&mut rng, &d));
        } else if rng.chance(30) {
            let m = mutate(&mut rng, &d);
            v.push(mutate(&mut rng, &m));
        } else {
            v.push(d);
        }
    }
    // volume: large well-formed documents (a behaviour that only starts after N paragraphs, N
    // fields, N value lines or N comment lines: caches, limits, buffered recovery)
    v.extend(large_docs());
    // every truncation of the repo's benchmark excerpt
    if let Ok(src) = std::fs::read_to_string("/repo/bench/Sources") {
        let ex: String = src.chars().take(if thorough { 6000 } else { 1500 }).collect();
        let mut i = 0;
        while i <= ex.len() {
            if ex.is_char_boundary(i) {
                v.push(ex[..i].to_string());
            }
            i += if thorough { 1 } else { 3 };
        }
    }
    v
}

/// large well-formed documents as line lists: many paragraphs, many fields (distinct and repeated
/// names), long values, long comment blocks, many blank lines between paragraphs
pub fn large_line_docs() -> Vec<Vec<Line>> {
    let mut docs = vec![];
    for (np, nf, nl, nc, nb) in [(1usize, 1usize, 300usize, 0usize, 1usize), (1, 300, 0, 0, 1), (300, 1, 0, 0, 1), (40, 12, 3, 1, 2), (3, 3, 70, 70, 70), (130, 2, 1, 2, 1), (2, 260, 1, 0, 1)] {
        let mut ls: Vec<Line> = vec![];
        for p in 0..np {
            if p > 0 {
                for _ in 0..nb {
                    ls.push(Line::Blank);
                }
            }
            for c in 0..nc {
                ls.push(Line::Comment(format!(" comment {} of paragraph {}", c, p)));
            }
            for f in 0..nf {
                // every 7th field repeats the name of the first one (duplicates in file order)
                let name = if f % 7 == 6 { "F0".to_string() } else { format!("F{}", f) };
                ls.push(Line::Field(name, " ".into(), format!("v{}-{}", p, f)));
                for l in 0..nl {
                    ls.push(Line::Cont(if l % 2 == 0 { " ".into() } else { "\t ".into() }, format!("line {} of {}", l, f)));
                }
            }
        }
        docs.push(ls);
    }
    docs
}

pub fn large_docs() -> Vec<String> {
    let mut v = vec![];
    for ls in large_line_docs() {
        let t: String = ls.iter().map(|l| format!("{}\n", l.text())).collect();
        v.push(t.clone());
        v.push(t.trim_end_matches('\n').to_string());
    }
    // one single TOKEN of 64 KiB and more (a length kept in 16 bits wraps there; after seeded
    // change C01-r8m1): value, continuation line, comment line, whitespace run, malformed line,
    // each followed by more text so that a shifted or dropped tail shows
    for n in [65_535usize, 65_536, 65_537, 70_000, 131_072] {
        let x = "x".repeat(n);
        v.push(format!("A: {}\nB: c\n\nC: d\n", x));
        v.push(format!("A: b\n {}\nB: \u{e9}\n", x));
        v.push(format!("#{}\nA: b\n# \u{e9}\nB: c", x));
        v.push(format!("A:{}b\nB: c\n", " ".repeat(n)));
        v.push(format!("A: b\n{}\nB: c\n", x));
    }
    v
}

pub fn generate_c03(tier: &str, seed: u64, out: &mut Out) {
    let thorough = tier == "thorough";
    let mut rng = Rng::new(seed);
    // exhaustive tiny documents: <= 2 paragraphs x <= 2 fields over small layout option sets
    let f1 = [Line::Field("A".into(), " ".into(), "b".into()), Line::Field("A".into(), "".into(), "".into()),
              Line::Field("Bc".into(), "\t".into(), "x: y".into())];
    let extras: Vec<Vec<Line>> = vec![
        vec![], vec![Line::Cont(" ".into(), "c".into())], vec![Line::Cont("\t".into(), ".".into()), Line::Cont("  ".into(), "d e".into())],
        vec![Line::Cont(" ".into(), ":x".into())],
    ];
    let pre: Vec<Vec<Line>> = vec![vec![], vec![Line::Comment(" c".into())], vec![Line::Blank], vec![Line::Comment("".into()), Line::Blank]];
    let sep: Vec<Vec<Line>> = vec![vec![Line::Blank], vec![Line::Blank, Line::Blank], vec![Line::Blank, Line::Comment(" s".into()), Line::Blank], vec![Line::Blank, Line::Comment(" s".into())]];
    let post: Vec<Vec<Line>> = vec![vec![], vec![Line::Comment(" t".into())], vec![Line::Blank], vec![Line::Blank, Line::Comment(" t".into())]];
    let mut paras: Vec<Vec<Line>> = vec![];
    for a in &f1 {
        for ea in &extras {
            let mut p = vec![a.clone()];
            p.extend(ea.iter().cloned());
            paras.push(p.clone());
            for b in &f1 {
                for mid in [false, true] {
                    let mut q = p.clone();
                    if mid {
                        q.push(Line::Comment(" m".into()));
                    }
                    q.push(b.clone());
                    paras.push(q);
                }
            }
        }
    }
    let mut emit = |ls: &Vec<Line>, out: &mut Out| {
        for fnl in ["1", "0"] {
            out.req("deb.doc", &[docspec::enc_lines(ls), fnl.to_string()]);
        }
    };
    for pr in &pre {
        for po in &post {
            let mut ls = pr.clone();
            ls.extend(po.iter().cloned());
            emit(&ls, out);
            for p in &paras {
                let mut ls = pr.clone();
                ls.extend(p.iter().cloned());
                ls.extend(po.iter().cloned());
                emit(&ls, out);
            }
        }
    }
    let stride = if thorough { 1 } else { 7 };
    let mut n = 0;
    for p in &paras {
        for q in &paras {
            n += 1;
            if n % stride != 0 {
                continue;
            }
            for s in &sep {
                let mut ls = p.clone();
                ls.extend(s.iter().cloned());
                ls.extend(q.iter().cloned());
                emit(&ls, out);
            }
        }
    }
    // raw lines at EVERY position (replacing line i, inserted before line i, appended) of a sample
    // of the small documents above: the lenient lines (white-space-only lines, blanks before the
    // colon), every BadLine (C03_reject_replace / C03_reject_insert: any position, any suffix, also
    // directly before continuation lines) and two orphan continuation lines. Oracle: docspec::lenient.
    let mut bases: Vec<Vec<Line>> = vec![];
    for (j, p) in paras.iter().enumerate() {
        if j % 7 != 3 {
            continue;
        }
        let mut ls = pre[j % pre.len()].clone();
        ls.extend(p.iter().cloned());
        ls.extend(post[(j / 7) % post.len()].iter().cloned());
        bases.push(ls);
    }
    for (j, s) in sep.iter().enumerate() {
        let mut ls = paras[5 + 11 * j].clone();
        ls.extend(s.iter().cloned());
        ls.extend(paras[2 + 13 * j].iter().cloned());
        bases.push(ls);
    }
    let sweep = |raw: &str, fnls: &[&str], out: &mut Out| {
        for ls in &bases {
            for i in 0..=ls.len() {
                let mut variants = vec![];
                if i < ls.len() {
                    let mut r = ls.clone();
                    r[i] = Line::Raw(raw.to_string());
                    variants.push(r);
                }
                let mut r = ls.clone();
                r.insert(i, Line::Raw(raw.to_string()));
                variants.push(r);
                for v in &variants {
                    for fnl in fnls {
                        out.req("deb.doc", &[docspec::enc_lines(v), fnl.to_string()]);
                    }
                }
            }
        }
    };
    for raw in docspec::LENIENT_LINES.iter() {
        sweep(raw, &["1", "0"], out);
    }
    for raw in docspec::BAD_LINES.iter() {
        sweep(raw, &["1"], out);
    }
    for raw in [docspec::ORPHAN_LINES[0], docspec::ORPHAN_LINES[4], " #x"] {
        sweep(raw, &["1"], out);
    }
    // volume: large well-formed documents, and the same with one corrupt line near the end
    for ls in large_line_docs() {
        emit(&ls, out);
        let mut bad = ls.clone();
        let i = bad.len() - 1;
        bad.insert(i, Line::Raw(docspec::BAD_LINES[0].to_string()));
        emit(&bad, out);
    }
    // random well-formed documents + single-line corruptions
    let nr = if thorough { 400_000 } else { 30_000 };
    for _ in 0..nr {
        let ls = docspec::random_lines(&mut rng, true);
        let fnl = if rng.chance(75) { "1" } else { "0" };
        out.req("deb.doc", &[docspec::enc_lines(&ls), fnl.to_string()]);
        if rng.chance(40) && !ls.is_empty() {
            let mut bad = ls.clone();
            let i = rng.below(bad.len());
            let b = Line::Raw(rng.pick(&docspec::BAD_LINES).to_string());
            if rng.chance(50) {
                bad[i] = b;
            } else {
                bad.insert(i, b);
            }
            out.req("deb.doc", &[docspec::enc_lines(&bad), fnl.to_string()]);
        }
        // a lenient line (white-space-only, blanks before the colon) replacing or inserted before a
        // random line, or appended
        if rng.chance(5) {
            let mut len = ls.clone();
            let i = rng.below(len.len() + 1);
            let b = Line::Raw(rng.pick(&docspec::LENIENT_LINES).to_string());
            if i < len.len() && rng.chance(50) {
                len[i] = b;
            } else {
                len.insert(i, b);
            }
            out.req("deb.doc", &[docspec::enc_lines(&len), fnl.to_string()]);
        }
        // an orphan continuation line (indentation + text with nothing to continue) as the first line
        // of the document or directly after a blank line
        if rng.chance(15) {
            let mut slots: Vec<usize> = vec![0];
            for (i, l) in ls.iter().enumerate() {
                if *l == Line::Blank {
                    slots.push(i + 1);
                }
            }
            let i = *rng.pick(&slots);
            let mut bad = ls.clone();
            bad.insert(i, Line::Raw(rng.pick(&docspec::ORPHAN_LINES).to_string()));
            out.req("deb.doc", &[docspec::enc_lines(&bad), fnl.to_string()]);
        }
    }
}

/// malformed lines of every kind the parser reports (each yields one or two errors)
pub const VOLUME_UNITS: [&str; 9] = ["-x\n", "é\n", "nocolon\n", "@", ": v\n", " orphan\n", "A\n", "A: b\n-\n", "%%\n\n"];

/// long inputs whose multi-byte characters lie across every power-of-two block boundary up to
/// 16 KiB (a reader that decodes block by block would split them)
pub fn block_boundary_docs() -> Vec<String> {
    let mut v = vec![];
    for pre in ["A: ", "A:  ", "# c\nB: "] {
        for ch in ["é", "€", "😀"] {
            let mut t = String::from(pre);
            while t.len() < 20_000 {
                for _ in 0..60 {
                    t.push_str(ch);
                }
                t.push_str("\n ");
            }
            t.push_str("x\n");
            v.push(t);
        }
    }
    v
}

/// texts whose exact message lists are closed `example`s of Props/C01Msgs.lean and Props/C01More.lean
/// (all three message forms, `Some(KIND)` / `None`, a byte order mark, CR LF line ends)
pub const MSG_TEXTS: [&str; 12] = [
    "é\nA: b\n", "A b\n", "é", "A b\nC d\n", "\u{feff}A: b\n", "A: b\r\nC: d\r\n", "A b\r\nC: d\r\n", "# c\nx",
    "ééé", "A: b\n c\n\n#x\nD: e", "A", "A: b\n",
];

pub fn generate_c01(tier: &str, seed: u64, out: &mut Out) {
    for t in MSG_TEXTS.iter() {
        out.req("deb.read", &[es(t)]);
        out.req("deb.readbytes", &[es(t)]);
    }
    for t in gen_texts(tier, seed) {
        out.req("deb.read", &[es(&t)]);
    }
    // complete enumeration one character shorter over the 18 classes with the range edges
    for t in edge_texts(if tier == "thorough" { 5 } else { 4 }) {
        out.req("deb.read", &[es(&t)]);
    }
    // raw byte inputs: valid texts and every way of breaking UTF-8 (truncated sequences, stray
    // continuation bytes, overlong forms, surrogates, 0xff) at the start, inside a value, at the end
    let bad: [&[u8]; 9] = [b"\xc3", b"\xa9", b"\xe2\x82", b"\xf0\x9f\x98", b"\xc0\xaf", b"\xed\xa0\x80", b"\xff", b"\xf8\x88\x80\x80\x80", b"\xc3\x28"];
    let frames: [(&[u8], &[u8]); 5] = [(b"", b""), (b"A: ", b"\n"), (b"A: b\n ", b""), (b"", b": x\n"), (b"# ", b"\n\nB: c")];
    for (pre, post) in frames.iter() {
        for ins in bad.iter().chain([&b"\xc3\xa9"[..], &b"\xf0\x9f\x98\x80"[..], &b""[..]].iter()) {
            let mut v = pre.to_vec();
            v.extend_from_slice(ins);
            v.extend_from_slice(post);
            out.req("deb.readbytes", &[format!("x{}", hex(&v))]);
        }
    }
    // volume of errors: many malformed lines followed by well-formed text (an "error limit" that
    // stops the parser, a recovery path that only runs after N errors): 2..1000 repetitions of each
    // kind of malformed line, with and without a tail, around the round numbers
    for unit in VOLUME_UNITS.iter() {
        for k in [2usize, 9, 16, 17, 31, 32, 33, 49, 50, 51, 63, 64, 65, 99, 100, 101, 127, 128, 129, 255, 256, 257, 500, 1000] {
            if tier != "thorough" && k > 260 && unit.len() > 3 {
                continue;
            }
            for tail in ["", "Source: a\nB: c\n d\n\n# e\nF: g\n", "x"] {
                let mut t = unit.repeat(k);
                t.push_str(tail);
                out.req("deb.read", &[es(&t)]);
            }
        }
    }
    for t in block_boundary_docs() {
        out.req("deb.read", &[es(&t)]);
    }
}
