//! C11 (editing relationship fields) and C13 (wrap-and-sort), run against the real code with the
//! properties' oracles evaluated in the worker; no Lean model yet.
//!
//! ops
//!   rel.hist <start field text> <allow_substvar> <ops>
//!       ops joined by ','; fields of an op joined by '.'; texts `x<hex>`:
//!         ins.<i>.<way>.<entry>        Relations::insert(i, entry)
//!         push.<way>.<entry>           Relations::push(entry)
//!         repl.<i>.<way>.<entry>       Relations::replace(i, entry)
//!         rme.<m>.<i>                  m=f: Relations::remove_entry(i); g: get_entry(i).remove(); h: old handle .remove()
//!         epush.<m>.<i>.<way>.<rel>    Entry::push           (m=f fresh get_entry(i), h = handle taken before the history)
//!         erepl.<m>.<i>.<j>.<way>.<rel> Entry::replace(j, rel)
//!         rmr.<m>.<i>.<j>              m=f/h: Entry::remove_relation(j); g/r: Relation::remove() (fresh / old relation handle)
//!         setv.<m>.<i>.<j>.<op>.<ver>  Relation::set_version(Some(..))   (m=f fresh get_relation, h = old relation handle)
//!         unsetv.<m>.<i>.<j>           Relation::set_version(None)
//!         dropv.<m>.<i>.<j>            Relation::drop_constraint()
//!         setq.<m>.<i>.<j>.<arch>      Relation::set_archqual
//!         seta.<m>.<i>.<j>.<archs>     Relation::set_architectures (space separated; empty = no architecture)
//!         addp.<m>.<i>.<j>.<terms>     Relation::add_profile (space separated terms, `!x` = disabled)
//!       way: p = operand parsed from text, c = constructors (Relation::new/simple + setters,
//!            Entry::from(Vec)), b = RelationBuilder (+ Entry::new() and Entry::push)
//!       response: one block per executed op, blocks joined by ' ; ':
//!         `<op> => <root text> <verif_dump> H[<handle>=<text>|…]`   or   `<op> => PANIC` / `SKIP`
//!   rel.wrap <field text> <allow_substvar>
//!       `<text1> <dump1> | <text2 (wrap of the result)> | <text3 (wrap of the re-parsed text1)>`
//!
//! Oracles: a list-of-lists reference model (entries = lists of alternatives or substvar texts; a
//! relation = name / archqual / (op, version) / architecture list / profile groups).
use crate::util::*;
use crate::Resp;
use debian_control::lossless::relations::{Entry, Relation, Relations};
use debian_control::relations::{BuildProfile, VersionConstraint};
use std::panic::{catch_unwind, AssertUnwindSafe};
use std::str::FromStr;

// ------------------------------------------------------------------ reference model

#[derive(Clone, Debug, PartialEq, Eq, PartialOrd, Ord)]
pub struct RelM {
    name: String,
    archqual: Option<String>,
    version: Option<(String, String)>, // operator text, version text
    archs: Option<Vec<String>>,        // `!x` for a negated one
    profiles: Vec<Vec<String>>,        // groups of terms, `!x` for a disabled one
}

impl RelM {
    fn simple(name: &str) -> RelM {
        RelM { name: name.to_string(), archqual: None, version: None, archs: None, profiles: vec![] }
    }
    /// `name[:archqual] (op version) [archs] <profiles>` with single spaces
    fn canon(&self) -> String {
        let mut s = self.name.clone();
        if let Some(q) = &self.archqual {
            s.push(':');
            s.push_str(q);
        }
        if let Some((op, v)) = &self.version {
            s.push_str(&format!(" ({} {})", op, v));
        }
        if let Some(a) = &self.archs {
            s.push_str(&format!(" [{}]", a.join(" ")));
        }
        for g in &self.profiles {
            s.push_str(&format!(" <{}>", g.join(" ")));
        }
        s
    }
    /// reader for the canonical operand texts of the generator
    fn parse_canon(t: &str) -> Option<RelM> {
        let t = t.trim();
        let end = t.find(|c: char| c == ' ' || c == ':' || c == '(' || c == '[' || c == '<').unwrap_or(t.len());
        let mut r = RelM::simple(&t[..end]);
        if r.name.is_empty() {
            return None;
        }
        let mut rest = &t[end..];
        if let Some(x) = rest.strip_prefix(':') {
            let e = x.find(' ').unwrap_or(x.len());
            r.archqual = Some(x[..e].to_string());
            rest = &x[e..];
        }
        rest = rest.trim_start();
        if let Some(x) = rest.strip_prefix('(') {
            let e = x.find(')')?;
            let mut it = x[..e].split_whitespace();
            r.version = Some((it.next()?.to_string(), it.next()?.to_string()));
            rest = x[e + 1..].trim_start();
        }
        if let Some(x) = rest.strip_prefix('[') {
            let e = x.find(']')?;
            r.archs = Some(x[..e].split_whitespace().map(|s| s.to_string()).collect());
            rest = x[e + 1..].trim_start();
        }
        while let Some(x) = rest.strip_prefix('<') {
            let e = x.find('>')?;
            r.profiles.push(x[..e].split_whitespace().map(|s| s.to_string()).collect());
            rest = x[e + 1..].trim_start();
        }
        if rest.is_empty() {
            Some(r)
        } else {
            None
        }
    }
}

fn parse_entry_canon(t: &str) -> Option<Vec<RelM>> {
    t.split('|').map(RelM::parse_canon).collect()
}

#[derive(Clone, Debug, PartialEq)]
enum Kind {
    Alts(Vec<(usize, RelM)>), // (relation id, record)
    Subst(String),
}

#[derive(Clone, Debug)]
struct Item {
    id: usize,
    kind: Kind,
    /// trimmed text while the item has not been touched by an edit
    text: Option<String>,
}

struct Model {
    items: Vec<Item>,
    next_id: usize,
}

impl Model {
    fn fresh(&mut self) -> usize {
        self.next_id += 1;
        self.next_id
    }
    fn entry_pos(&self, i: usize) -> Option<usize> {
        self.items.iter().enumerate().filter(|(_, it)| matches!(it.kind, Kind::Alts(_))).map(|(p, _)| p).nth(i)
    }
    fn n_entries(&self) -> usize {
        self.items.iter().filter(|it| matches!(it.kind, Kind::Alts(_))).count()
    }
    fn alts(&mut self, i: usize) -> Option<&mut Vec<(usize, RelM)>> {
        let p = self.entry_pos(i)?;
        match &mut self.items[p].kind {
            Kind::Alts(a) => Some(a),
            _ => None,
        }
    }
    fn rel(&mut self, i: usize, j: usize) -> Option<&mut RelM> {
        let p = self.entry_pos(i)?;
        self.items[p].text = None;
        match &mut self.items[p].kind {
            Kind::Alts(a) => a.get_mut(j).map(|x| &mut x.1),
            _ => None,
        }
    }
    fn new_entry(&mut self, rels: Vec<RelM>) -> Item {
        let id = self.fresh();
        let alts = rels.into_iter().map(|r| (self.fresh(), r)).collect();
        Item { id, kind: Kind::Alts(alts), text: None }
    }
    /// what the field denotes: entries (alternatives) and substvars, in order
    fn denotation(&self) -> Vec<Den> {
        self.items
            .iter()
            .map(|it| match &it.kind {
                Kind::Alts(a) => Den::Alts(a.iter().map(|x| x.1.clone()).collect()),
                Kind::Subst(s) => Den::Subst(s.clone()),
            })
            .collect()
    }
}

/// two written relations that are the same dependency: same name, qualifier and operator, versions
/// that compare equal in the Debian order (`1` = `0:1` = `1-0`), the same set of architectures, the same
/// profile groups. Such relations are "equal" for the order of entries: the next alternative decides.
fn same_relation(p: &RelM, q: &RelM) -> bool {
    if p.name != q.name || p.archqual != q.archqual || p.profiles != q.profiles {
        return false;
    }
    let set = |a: &Option<Vec<String>>| a.as_ref().map(|v| { let mut v = v.clone(); v.sort(); v });
    if set(&p.archs) != set(&q.archs) {
        return false;
    }
    match (&p.version, &q.version) {
        (None, None) => true,
        (Some((o1, v1)), Some((o2, v2))) if o1 == o2 => {
            match (v1.parse::<debversion::Version>(), v2.parse::<debversion::Version>()) {
                (Ok(a), Ok(b)) => guard(move || a == b).unwrap_or(false),
                _ => false,
            }
        }
        _ => false,
    }
}

#[derive(Clone, Debug, PartialEq, Eq, PartialOrd, Ord)]
enum Den {
    Alts(Vec<RelM>),
    Subst(String),
}

fn show_den(d: &[Den]) -> String {
    d.iter()
        .map(|x| match x {
            Den::Alts(a) => a.iter().map(|r| r.canon()).collect::<Vec<_>>().join(" | "),
            Den::Subst(s) => s.clone(),
        })
        .collect::<Vec<_>>()
        .join(", ")
}

// ------------------------------------------------------------------ reading the real objects

fn guard<T>(f: impl FnOnce() -> T) -> Option<T> {
    catch_unwind(AssertUnwindSafe(f)).ok()
}

fn record(r: &Relation) -> RelM {
    RelM {
        name: r.name(),
        archqual: r.archqual(),
        version: r.version().map(|(vc, v)| (vc.to_string(), v.to_string())),
        archs: r.architectures().map(|it| it.collect()),
        profiles: r
            .profiles()
            .map(|g| {
                g.into_iter()
                    .map(|p| match p {
                        BuildProfile::Enabled(s) => s,
                        BuildProfile::Disabled(s) => format!("!{}", s),
                    })
                    .collect()
            })
            .collect(),
    }
}

/// the kinds of the root's child nodes, in order (from the dump: `(ROOT (ENTRY …) COMMA:… (SUBSTVAR …))`)
fn top_nodes(dump: &str) -> Vec<&'static str> {
    let mut out = vec![];
    let mut depth = 0;
    let b = dump.as_bytes();
    let mut i = 0;
    while i < b.len() {
        match b[i] {
            b'(' => {
                depth += 1;
                if depth == 2 {
                    if dump[i..].starts_with("(ENTRY") {
                        out.push("E");
                    } else if dump[i..].starts_with("(SUBSTVAR") {
                        out.push("S");
                    } else {
                        out.push("?");
                    }
                }
            }
            b')' => depth -= 1,
            _ => {}
        }
        i += 1;
    }
    out
}

/// denotation + trimmed texts of a field object (through the accessors)
fn read_field(root: &Relations) -> Option<(Vec<Den>, Vec<String>)> {
    guard(|| {
        let dump = root.verif_dump();
        let mut es_ = root.entries();
        let mut ss = root.substvars();
        let mut den = vec![];
        let mut texts = vec![];
        for k in top_nodes(&dump) {
            match k {
                "E" => {
                    let e = es_.next().unwrap();
                    den.push(Den::Alts(e.relations().map(|r| record(&r)).collect()));
                    texts.push(e.to_string().trim().to_string());
                }
                "S" => {
                    let s = ss.next().unwrap();
                    den.push(Den::Subst(s.clone()));
                    texts.push(s.trim().to_string());
                }
                _ => {}
            }
        }
        (den, texts)
    })
}

fn strict_parse(text: &str, allow: bool) -> Option<Relations> {
    let (r, errs) = Relations::parse_relaxed(text, allow);
    if errs.is_empty() {
        Some(r)
    } else {
        None
    }
}

/// commas beyond those that separate two non-empty items (doubled, leading or trailing commas)
fn empty_segments(text: &str) -> usize {
    let commas = text.matches(',').count();
    let items = text.split(',').filter(|s| !s.trim().is_empty()).count();
    commas - commas.min(items.saturating_sub(1))
}

/// a dump without its WHITESPACE / NEWLINE tokens: where layout tokens hang in the tree is not
/// compared, the kinds and nesting of everything else is
fn shape(dump: &str) -> String {
    let mut out = String::new();
    for tok in dump.split(' ') {
        let t = tok.trim_end_matches(')');
        if t.starts_with("WHITESPACE:") || t.starts_with("NEWLINE:") {
            out.push_str(&tok[t.len()..]);
        } else {
            out.push(' ');
            out.push_str(tok);
        }
    }
    out
}

// ------------------------------------------------------------------ building operands

fn vc_of(op: &str) -> Option<VersionConstraint> {
    VersionConstraint::from_str(op).ok()
}

fn profile_of(t: &str) -> BuildProfile {
    match t.strip_prefix('!') {
        Some(x) => BuildProfile::Disabled(x.to_string()),
        None => BuildProfile::Enabled(t.to_string()),
    }
}

fn build_rel(way: &str, m: &RelM) -> Option<Relation> {
    let ver = match &m.version {
        Some((op, v)) => Some((vc_of(op)?, debversion::Version::from_str(v).ok()?)),
        None => None,
    };
    match way {
        "p" => Relation::from_str(&m.canon()).ok(),
        "c" => {
            let mut r = match &ver {
                None => Relation::simple(&m.name),
                Some(v) => Relation::new(&m.name, Some(v.clone())),
            };
            if let Some(q) = &m.archqual {
                r.set_archqual(q);
            }
            if let Some(a) = &m.archs {
                r.set_architectures(a.iter().map(|s| s.as_str()));
            }
            for g in &m.profiles {
                r.add_profile(&g.iter().map(|t| profile_of(t)).collect::<Vec<_>>());
            }
            Some(r)
        }
        "b" => {
            let mut b = Relation::build(&m.name);
            if let Some((vc, v)) = ver {
                b = b.version_constraint(vc, v);
            }
            if let Some(q) = &m.archqual {
                b = b.archqual(q);
            }
            if let Some(a) = &m.archs {
                b = b.architectures(a.clone());
            }
            for g in &m.profiles {
                b = b.add_profile(g.iter().map(|t| profile_of(t)).collect());
            }
            Some(b.build())
        }
        _ => None,
    }
}

fn build_entry(way: &str, rels: &[RelM]) -> Option<Entry> {
    match way {
        "p" => Entry::from_str(&rels.iter().map(|r| r.canon()).collect::<Vec<_>>().join(" | ")).ok(),
        "c" => Some(Entry::from(rels.iter().map(|r| build_rel("c", r)).collect::<Option<Vec<_>>>()?)),
        "b" => {
            let mut e = Entry::new();
            for r in rels {
                e.push(build_rel("b", r)?);
            }
            Some(e)
        }
        _ => None,
    }
}

// ------------------------------------------------------------------ rel.hist

struct Handles {
    entries: Vec<(usize, Entry)>,          // (item id, handle)
    rels: Vec<(usize, usize, Relation)>,   // (item id, relation id, handle)
    others: Vec<(Relations, String)>,      // other fields a live operand was taken from, and their text then
}

/// an operand of an entry-level edit of the field
enum Opnd<T> {
    Skip,
    Panic,
    Ok(Vec<RelM>, T),
}

/// ways `p` / `c` / `b`: built from the text; `l`: the LIVE entry `t` of the field being edited;
/// `o`: the live first entry of another field, read from the text `t` and kept (it must not change)
fn entry_operand(root: &Relations, model: &mut Model, handles: &mut Handles, way: &str, t: &str) -> Opnd<Entry> {
    match way {
        "l" => {
            let k = t.parse::<usize>().unwrap_or(usize::MAX);
            if model.entry_pos(k).is_none() {
                return Opnd::Skip;
            }
            let rels: Vec<RelM> = model.alts(k).map(|a| a.iter().map(|(_, r)| r.clone()).collect()).unwrap_or_default();
            match root.get_entry(k) {
                Some(e) => Opnd::Ok(rels, e),
                None => Opnd::Panic,
            }
        }
        "o" => {
            let text = match ds(t) {
                Some(x) => x,
                None => return Opnd::Skip,
            };
            let other = match strict_parse(&text, false) {
                Some(o) => o,
                None => return Opnd::Skip,
            };
            let rels = match read_field(&other).and_then(|(d, _)| d.into_iter().find_map(|x| match x { Den::Alts(a) => Some(a), _ => None })) {
                Some(r) => r,
                None => return Opnd::Skip,
            };
            let e = match other.get_entry(0) {
                Some(e) => e,
                None => return Opnd::Skip,
            };
            let printed = other.to_string();
            handles.others.push((other, printed));
            Opnd::Ok(rels, e)
        }
        _ => {
            let rels = match ds(t).and_then(|t| parse_entry_canon(&t)) {
                Some(r) => r,
                None => return Opnd::Skip,
            };
            match build_entry(way, &rels) {
                Some(e) => Opnd::Ok(rels, e),
                None => Opnd::Panic,
            }
        }
    }
}

/// a relation operand; way `l`: the live relation `K-J` of the field being edited
fn rel_operand(root: &Relations, model: &mut Model, way: &str, t: &str) -> Opnd<Relation> {
    if way == "l" {
        let kj: Vec<usize> = t.split('-').map(|x| x.parse::<usize>().unwrap_or(usize::MAX)).collect();
        if kj.len() != 2 || model.entry_pos(kj[0]).is_none() {
            return Opnd::Skip;
        }
        let m = match model.alts(kj[0]).and_then(|a| a.get(kj[1]).map(|(_, r)| r.clone())) {
            Some(m) => m,
            None => return Opnd::Skip,
        };
        return match root.get_entry(kj[0]).and_then(|e| e.get_relation(kj[1])) {
            Some(r) => Opnd::Ok(vec![m], r),
            None => Opnd::Panic,
        };
    }
    let m = match ds(t).and_then(|t| RelM::parse_canon(&t)) {
        Some(r) => r,
        None => return Opnd::Skip,
    };
    match build_rel(way, &m) {
        Some(r) => Opnd::Ok(vec![m], r),
        None => Opnd::Panic,
    }
}

enum Step {
    Done,
    Skip,
    Panic,
    /// a call at an index that does not exist (`unwrap` of `get_entry` / `get_relation`): the code
    /// panics before it touches the tree; `true` = it did
    OutOfRange(bool),
}

fn run_hist(start: &str, allow: bool, ops: &str) -> Resp {
    let (mut root, errs) = Relations::parse_relaxed(start, allow);
    if !errs.is_empty() {
        return Resp::ok("START-NOT-WELL-FORMED".to_string());
    }
    // the model of the start field
    let mut model = Model { items: vec![], next_id: 0 };
    let (den0, texts0) = match read_field(&root) {
        Some(x) => x,
        None => return Resp::with("START-UNREADABLE".into(), Some("accessors panic on the start field".into())),
    };
    for (d, t) in den0.into_iter().zip(texts0) {
        let id = model.fresh();
        let kind = match d {
            Den::Alts(a) => Kind::Alts(a.into_iter().map(|r| (model.fresh(), r)).collect()),
            Den::Subst(s) => Kind::Subst(s),
        };
        model.items.push(Item { id, kind, text: Some(t) });
    }
    // handles taken before the history
    let mut handles = Handles { entries: vec![], rels: vec![], others: vec![] };
    {
        let mut k = 0;
        for it in &model.items {
            if let Kind::Alts(a) = &it.kind {
                if let Some(e) = root.get_entry(k) {
                    for (j, (rid, _)) in a.iter().enumerate() {
                        if let Some(r) = e.get_relation(j) {
                            handles.rels.push((it.id, *rid, r));
                        }
                    }
                    handles.entries.push((it.id, e));
                }
                k += 1;
            }
        }
    }
    let mut blocks = vec![];
    let mut fail: Option<String> = None;
    let mut prev_empty = empty_segments(start);
    for (step, op) in ops.split(',').filter(|o| !o.is_empty()).enumerate() {
        let f: Vec<&str> = op.split('.').collect();
        let res = guard(|| apply(&mut root, &mut model, &mut handles, &f));
        match res {
            None | Some(Step::Panic) => {
                blocks.push(format!("{} => PANIC", op));
                if fail.is_none() {
                    fail = Some(format!("step {} `{}`: panic", step, readable_op(op)));
                }
                break; // the tree may be half-edited
            }
            Some(Step::Skip) => {
                blocks.push(format!("{} => SKIP", op));
                continue;
            }
            Some(Step::OutOfRange(true)) => {
                blocks.push(format!("{} => PANIC", op));
                break;
            }
            Some(Step::OutOfRange(false)) => {
                blocks.push(format!("{} => RETURNED", op));
                if fail.is_none() {
                    fail = Some(format!("step {} `{}`: the call returned although the index does not exist", step, readable_op(op)));
                }
                break;
            }
            Some(Step::Done) => {}
        }
        let text = match guard(|| root.to_string()) {
            Some(t) => t,
            None => {
                blocks.push(format!("{} => PANIC(print)", op));
                if fail.is_none() {
                    fail = Some(format!("step {}: printing the field panics", step));
                }
                break;
            }
        };
        let dump = root.verif_dump();
        let hs = show_handles(&handles);
        blocks.push(format!("{} => {} {} H[{}]", op, es(&text), dump, hs));
        if fail.is_some() {
            continue;
        }
        let why = check_step(&root, &text, allow, &model, &handles, prev_empty);
        if let Some(w) = why {
            fail = Some(format!(
                "step {} `{}`: {} | text {:?} | model {:?}",
                step,
                readable_op(op),
                w,
                text,
                show_den(&model.denotation())
            ));
        }
        prev_empty = prev_empty.min(empty_segments(&text));
    }
    Resp::with(blocks.join(" ; "), fail)
}

fn readable_op(op: &str) -> String {
    op.split('.').map(|f| if f.starts_with('x') { ds(f).map(|s| format!("{:?}", s)).unwrap_or(f.to_string()) } else { f.to_string() }).collect::<Vec<_>>().join(".")
}

fn show_handles(h: &Handles) -> String {
    let mut v = vec![];
    for (id, e) in &h.entries {
        v.push(format!("e{}={}", id, guard(|| es(&e.to_string())).unwrap_or("PANIC".into())));
    }
    for (_, rid, r) in &h.rels {
        v.push(format!("r{}={}", rid, guard(|| es(&r.to_string())).unwrap_or("PANIC".into())));
    }
    v.join("|")
}

/// the oracle after one step
fn check_step(root: &Relations, text: &str, allow: bool, model: &Model, handles: &Handles, prev_empty: usize) -> Option<String> {
    // 1. prints to text that parses strictly
    let reparsed = match strict_parse(text, allow) {
        Some(r) => r,
        None => return Some("printed text does not parse strictly".into()),
    };
    // 2. ... to the model
    let (den, texts) = match read_field(&reparsed) {
        Some(x) => x,
        None => return Some("accessors panic on the re-parsed text".into()),
    };
    let want = model.denotation();
    if den != want {
        return Some(format!("re-parsed text denotes {:?}", show_den(&den)));
    }
    // the object itself (not only its text) denotes the model
    match read_field(root) {
        None => return Some("accessors panic on the edited tree".into()),
        Some((d, _)) => {
            if d != want {
                return Some(format!("the edited tree denotes {:?} (its text re-parses to the model)", show_den(&d)));
            }
        }
    }
    // 2b. a field a live operand was taken from is left as it was
    for (o, t) in &handles.others {
        match guard(|| o.to_string()) {
            Some(now) if &now == t => {}
            Some(now) => return Some(format!("the field the operand was taken from changed: {:?}, was {:?}", now, t)),
            None => return Some("the field the operand was taken from panics when printed".into()),
        }
    }
    // 3. separators never duplicated or dangling
    let em = empty_segments(text);
    if em > prev_empty {
        return Some(format!("{} empty comma-separated segment(s), {} before", em, prev_empty));
    }
    // 4. untouched entries and substvars keep their text
    for (it, t) in model.items.iter().zip(texts.iter()) {
        if let Some(orig) = &it.text {
            if orig != t {
                return Some(format!("untouched item {:?} now reads {:?}", orig, t));
            }
        }
    }
    // (exploration aid: VERIF_RELAX=1 switches the handle and tree-shape checks off, so that what
    // they mask in later steps of a history becomes visible)
    if std::env::var("VERIF_RELAX").is_ok() {
        return None;
    }
    // 5. handles taken before the history still belong to the field and show it
    let root_dump = root.verif_dump();
    let mut k = 0;
    for it in &model.items {
        if let Kind::Alts(a) = &it.kind {
            let cur = match root.get_entry(k) {
                Some(e) => e,
                None => return Some("entry count differs".into()),
            };
            if let Some((_, h)) = handles.entries.iter().find(|(id, _)| *id == it.id) {
                let ht = guard(|| (h.to_string(), h.verif_dump_root()));
                match ht {
                    None => return Some("an old entry handle panics".into()),
                    Some((t, d)) => {
                        if d != root_dump {
                            return Some(format!("entry handle taken before the history no longer belongs to the field (it shows {:?})", t));
                        }
                        if t != cur.to_string() {
                            return Some(format!("old entry handle shows {:?}, the field has {:?} there", t, cur.to_string()));
                        }
                    }
                }
            }
            for (j, (rid, _)) in a.iter().enumerate() {
                if let Some((_, _, h)) = handles.rels.iter().find(|(_, r, _)| r == rid) {
                    let ht = guard(|| (h.to_string(), h.verif_dump_root()));
                    match ht {
                        None => return Some("an old relation handle panics".into()),
                        Some((t, d)) => {
                            if d != root_dump {
                                return Some(format!("relation handle taken before the history no longer belongs to the field (it shows {:?})", t));
                            }
                            let cr = cur.get_relation(j).map(|r| r.to_string());
                            if Some(&t) != cr.as_ref() {
                                return Some(format!("old relation handle shows {:?}, the field has {:?} there", t, cr));
                            }
                        }
                    }
                }
            }
            k += 1;
        }
    }
    // 5b. a handle to an element that was replaced or removed no longer belongs to the field: what
    // is done through it later cannot show in the field (after seeded change C11-r9m1)
    let live_entries: Vec<usize> = model.items.iter().map(|it| it.id).collect();
    let live_rels: Vec<usize> = model
        .items
        .iter()
        .flat_map(|it| match &it.kind {
            Kind::Alts(a) => a.iter().map(|(r, _)| *r).collect::<Vec<_>>(),
            _ => vec![],
        })
        .collect();
    for (id, h) in &handles.entries {
        if !live_entries.contains(id) {
            if let Some(d) = guard(|| h.verif_dump_root()) {
                if d == root_dump {
                    return Some(format!("the handle of a removed / replaced entry still belongs to the field (it shows {:?})", h.to_string()));
                }
            }
        }
    }
    for (_, rid, h) in &handles.rels {
        if !live_rels.contains(rid) {
            if let Some(d) = guard(|| h.verif_dump_root()) {
                if d == root_dump {
                    return Some(format!("the handle of a removed / replaced relation still belongs to the field (it shows {:?})", h.to_string()));
                }
            }
        }
    }
    // 6. the hand-built tree is the tree the parser builds for the same text
    if shape(&reparsed.verif_dump()) != shape(&root_dump) {
        return Some("tree shape: the edited tree is not the tree the parser builds for its own text".into());
    }
    None
}

fn apply(root: &mut Relations, model: &mut Model, handles: &mut Handles, f: &[&str]) -> Step {
    let n = model.n_entries();
    let idx = |s: &str| s.parse::<usize>().ok();
    // the entry / relation object an entry-level or relation-level op works on
    let entry_obj = |root: &Relations, model: &Model, handles: &Handles, mode: &str, i: usize| -> Option<Entry> {
        let pos = model.entry_pos(i)?;
        let id = model.items[pos].id;
        if mode == "h" {
            if let Some((_, e)) = handles.entries.iter().find(|(x, _)| *x == id) {
                // a second handle to the same node (Entry is not Clone): re-obtain through the handle's tree is
                // not possible from outside, so the handle itself is used by the caller
                let _ = e;
                return None;
            }
        }
        root.get_entry(i)
    };
    let _ = &entry_obj;
    match f {
        ["ins", i, way, t] => {
            let i = idx(i).unwrap_or(usize::MAX);
            let o = entry_operand(root, model, handles, way, t);
            // beyond the end it appends (`entries().nth(idx)` is None): executed, not skipped
            let _ = n;
            if matches!(o, Opnd::Skip) || i > 1000 {
                return Step::Skip;
            }
            let (rels, e) = match o {
                Opnd::Ok(r, e) => (r, e),
                _ => return Step::Panic,
            };
            root.insert(i, e);
            let item = model.new_entry(rels);
            let pos = model.entry_pos(i).unwrap_or(model.items.len());
            model.items.insert(pos, item);
            Step::Done
        }
        ["push", way, t] => {
            let (rels, e) = match entry_operand(root, model, handles, way, t) {
                Opnd::Ok(r, e) => (r, e),
                Opnd::Skip => return Step::Skip,
                Opnd::Panic => return Step::Panic,
            };
            root.push(e);
            let item = model.new_entry(rels);
            model.items.push(item);
            Step::Done
        }
        ["repl", i, way, t] => {
            let i = idx(i).unwrap_or(usize::MAX);
            let mut o = entry_operand(root, model, handles, way, t);
            let pos = match (o, model.entry_pos(i)) {
                (Opnd::Ok(_, e), None) => return Step::OutOfRange(guard(|| root.replace(i, e)).is_none()),
                (Opnd::Skip, _) | (_, None) => return Step::Skip,
                (o2, Some(p)) => {
                    o = o2;
                    p
                }
            };
            let (rels, e) = match o {
                Opnd::Ok(r, e) => (r, e),
                _ => return Step::Panic,
            };
            root.replace(i, e);
            let item = model.new_entry(rels);
            model.items[pos] = item;
            Step::Done
        }
        ["rme", mode, i] => {
            let i = idx(i).unwrap_or(usize::MAX);
            let pos = match model.entry_pos(i) {
                Some(p) => p,
                None if *mode == "f" => return Step::OutOfRange(guard(|| root.remove_entry(i)).is_none()),
                None => return Step::Skip,
            };
            let id = model.items[pos].id;
            match *mode {
                "f" => {
                    root.remove_entry(i);
                }
                "g" => {
                    let mut e = root.get_entry(i).unwrap();
                    e.remove();
                }
                _ => match handles.entries.iter_mut().find(|(x, _)| *x == id) {
                    Some((_, h)) => h.remove(),
                    None => {
                        root.remove_entry(i);
                    }
                },
            }
            model.items.remove(pos);
            Step::Done
        }
        ["epush", mode, i, way, t] => {
            let i = idx(i).unwrap_or(usize::MAX);
            let o = rel_operand(root, model, way, t);
            let pos = match (&o, model.entry_pos(i)) {
                (Opnd::Skip, _) | (_, None) => return Step::Skip,
                (_, Some(p)) => p,
            };
            let id = model.items[pos].id;
            let (m, r) = match o {
                Opnd::Ok(mut m, r) => (m.remove(0), r),
                _ => return Step::Panic,
            };
            match (*mode, handles.entries.iter_mut().find(|(x, _)| *x == id)) {
                ("h", Some((_, h))) => h.push(r),
                _ => root.get_entry(i).unwrap().push(r),
            }
            let rid = model.fresh();
            model.items[pos].text = None;
            model.alts(i).unwrap().push((rid, m));
            Step::Done
        }
        ["erepl", mode, i, j, way, t] => {
            let (i, j) = (idx(i).unwrap_or(usize::MAX), idx(j).unwrap_or(usize::MAX));
            let o = rel_operand(root, model, way, t);
            let pos = match (&o, model.entry_pos(i)) {
                (Opnd::Skip, _) | (_, None) => return Step::Skip,
                (_, Some(p)) => p,
            };
            if j >= model.alts(i).map(|a| a.len()).unwrap_or(0) {
                return match (o, *mode) {
                    (Opnd::Ok(_, r), "f") => Step::OutOfRange(guard(|| root.get_entry(i).unwrap().replace(j, r)).is_none()),
                    _ => Step::Skip,
                };
            }
            let id = model.items[pos].id;
            let (m, r) = match o {
                Opnd::Ok(mut m, r) => (m.remove(0), r),
                _ => return Step::Panic,
            };
            match (*mode, handles.entries.iter_mut().find(|(x, _)| *x == id)) {
                ("h", Some((_, h))) => h.replace(j, r),
                _ => root.get_entry(i).unwrap().replace(j, r),
            }
            let rid = model.fresh();
            model.items[pos].text = None;
            model.alts(i).unwrap()[j] = (rid, m);
            Step::Done
        }
        ["rmr", mode, i, j] => {
            let (i, j) = (idx(i).unwrap_or(usize::MAX), idx(j).unwrap_or(usize::MAX));
            let pos = match model.entry_pos(i) {
                Some(p) => p,
                None => return Step::Skip,
            };
            let len = model.alts(i).map(|a| a.len()).unwrap_or(0);
            if j >= len {
                if *mode == "f" {
                    return Step::OutOfRange(guard(|| root.get_entry(i).unwrap().remove_relation(j)).is_none());
                }
                return Step::Skip;
            }
            let id = model.items[pos].id;
            let rid = model.alts(i).unwrap()[j].0;
            match *mode {
                "f" => {
                    root.get_entry(i).unwrap().remove_relation(j);
                }
                "h" => match handles.entries.iter().find(|(x, _)| *x == id) {
                    Some((_, h)) => {
                        h.remove_relation(j);
                    }
                    None => {
                        root.get_entry(i).unwrap().remove_relation(j);
                    }
                },
                "r" => match handles.rels.iter_mut().find(|(_, r, _)| *r == rid) {
                    Some((_, _, h)) => h.remove(),
                    None => root.get_entry(i).unwrap().get_relation(j).unwrap().remove(),
                },
                _ => root.get_entry(i).unwrap().get_relation(j).unwrap().remove(),
            }
            model.items[pos].text = None;
            model.alts(i).unwrap().remove(j);
            // removing the last alternative removes the entry
            if len == 1 {
                model.items.remove(pos);
            }
            Step::Done
        }
        [name @ ("setv" | "unsetv" | "dropv" | "setq" | "seta" | "addp"), mode, i, j, args @ ..] => {
            let (i, j) = (idx(i).unwrap_or(usize::MAX), idx(j).unwrap_or(usize::MAX));
            if model.entry_pos(i).is_none() || j >= model.alts(i).map(|a| a.len()).unwrap_or(0) {
                return Step::Skip;
            }
            let rid = model.alts(i).unwrap()[j].0;
            let mut fresh;
            let target: &mut Relation = match (*mode, handles.rels.iter_mut().find(|(_, r, _)| *r == rid)) {
                ("h", Some((_, _, h))) => h,
                _ => {
                    fresh = root.get_entry(i).unwrap().get_relation(j).unwrap();
                    &mut fresh
                }
            };
            match (*name, args) {
                ("setv", [op, v]) => {
                    let v = match ds(v) {
                        Some(v) => v,
                        None => return Step::Skip,
                    };
                    let optext = match *op {
                        "ge" => ">=",
                        "le" => "<=",
                        "eq" => "=",
                        "gt" => ">>",
                        "lt" => "<<",
                        _ => return Step::Skip,
                    };
                    let ver = match debversion::Version::from_str(&v) {
                        Ok(x) => x,
                        Err(_) => return Step::Skip,
                    };
                    target.set_version(Some((vc_of(optext).unwrap(), ver)));
                    model.rel(i, j).unwrap().version = Some((optext.to_string(), v));
                }
                ("unsetv", []) => {
                    target.set_version(None);
                    model.rel(i, j).unwrap().version = None;
                }
                ("dropv", []) => {
                    target.drop_constraint();
                    model.rel(i, j).unwrap().version = None;
                }
                ("setq", [q]) => {
                    let q = match ds(q) {
                        Some(v) => v,
                        None => return Step::Skip,
                    };
                    target.set_archqual(&q);
                    model.rel(i, j).unwrap().archqual = Some(q);
                }
                ("seta", [a]) => {
                    let a = match ds(a) {
                        Some(v) => v,
                        None => return Step::Skip,
                    };
                    let list: Vec<String> = a.split_whitespace().map(|s| s.to_string()).collect();
                    target.set_architectures(list.iter().map(|s| s.as_str()));
                    model.rel(i, j).unwrap().archs = if list.is_empty() { None } else { Some(list) };
                }
                ("addp", [p]) => {
                    let p = match ds(p) {
                        Some(v) => v,
                        None => return Step::Skip,
                    };
                    let terms: Vec<String> = p.split_whitespace().map(|s| s.to_string()).collect();
                    target.add_profile(&terms.iter().map(|t| profile_of(t)).collect::<Vec<_>>());
                    model.rel(i, j).unwrap().profiles.push(terms);
                }
                _ => return Step::Skip,
            }
            Step::Done
        }
        _ => Step::Skip,
    }
}

// ------------------------------------------------------------------ rel.wrap

fn canon_field(d: &[Den]) -> String {
    show_den(d)
}

/// Can a comparison the sorts of `Relations::wrap_and_sort` may make panic (debversion's
/// `Version::cmp` on a numeric component above i32::MAX, F-C12-1)?  Which comparisons Rust's
/// `sort_by` makes is not modelled; the criterion is the one every sorting algorithm shares: some
/// two DISTINCT elements of a list that gets sorted — the rebuilt alternatives of one entry, the
/// rebuilt entries of the field — whose comparison panics (model: `Props.C13.sortMayPanic`; when it is
/// false no sort can panic and the model's result is the real one, `C13_wrapO_pairs`).
/// `None`: an accessor panics (`name()` / `version()`: an operator outside the five, a version
/// `Version::from_str` refuses) — then `wrap_and_sort` panics before or whatever it compares.
pub fn sort_may_panic(root: &Relations) -> Option<bool> {
    let mut wrapped = vec![];
    let mut big = false;
    for e in root.entries() {
        if e.relations().next().is_none() {
            continue;
        }
        let mut ws = vec![];
        for r in e.relations() {
            let w = guard(|| r.wrap_and_sort())?;
            guard(|| (w.name(), w.version()))?;
            ws.push(w);
        }
        for i in 0..ws.len() {
            for j in i + 1..ws.len() {
                if guard(|| ws[i].cmp(&ws[j])).is_none() || guard(|| ws[j].cmp(&ws[i])).is_none() {
                    big = true;
                }
            }
        }
        wrapped.push(e);
    }
    if big {
        return Some(true);
    }
    // no comparison inside an entry panics: the entries can be rebuilt
    let mut es = vec![];
    for e in wrapped {
        es.push(guard(|| e.wrap_and_sort())?);
    }
    for i in 0..es.len() {
        for j in i + 1..es.len() {
            if guard(|| es[i].cmp(&es[j])).is_none() || guard(|| es[j].cmp(&es[i])).is_none() {
                return Some(true);
            }
        }
    }
    Some(false)
}

/// `rel.eqcmp <a> <b>`: `==` and `cmp` of two strictly read fields at relation / entry / field level
/// (Model/RelEq.lean). Oracle (Props/C13Eq): `cmp == Equal` implies `==`; `==` implies `cmp == Equal`
/// unless one of the two relations repeats an architecture (`a [x x] == a [x]`, `HashSet` against
/// sorted `Vec`: recorded incoherence of `PartialEq` and `Ord`, DESIGN 9.5 — the sort never calls `==`)
fn run_eqcmp(ta: &str, tb: &str) -> Resp {
    let (a, b) = match (Relations::from_str(ta), Relations::from_str(tb)) {
        (Ok(a), Ok(b)) => (a, b),
        _ => return Resp::ok("err".into()),
    };
    let sb = |o: Option<bool>| match o {
        Some(true) => "1",
        Some(false) => "0",
        None => "P",
    };
    let so = |o: Option<std::cmp::Ordering>| match o {
        Some(std::cmp::Ordering::Less) => "lt",
        Some(std::cmp::Ordering::Equal) => "eq",
        Some(std::cmp::Ordering::Greater) => "gt",
        None => "P",
    };
    let f = guard(|| a == b);
    let ea: Vec<Entry> = a.entries().collect();
    let eb: Vec<Entry> = b.entries().collect();
    let mut why = None;
    let (r, e) = if ea.len() == 1 && eb.len() == 1 {
        let (x, y) = (&ea[0], &eb[0]);
        let e = format!("e={} ecmp={}", sb(guard(|| x == y)), so(guard(|| x.cmp(y))));
        let ra: Vec<Relation> = x.relations().collect();
        let rb: Vec<Relation> = y.relations().collect();
        if ra.len() == 1 && rb.len() == 1 {
            let eq = guard(|| ra[0] == rb[0]);
            let cmp = guard(|| ra[0].cmp(&rb[0]));
            let dup = |r: &Relation| {
                guard(|| r.architectures().map(|it| it.collect::<Vec<_>>())).flatten().map_or(false, |v| {
                    let mut s = v.clone();
                    s.sort();
                    s.dedup();
                    s.len() != v.len()
                })
            };
            if let (Some(eq), Some(cmp)) = (eq, cmp) {
                if cmp == std::cmp::Ordering::Equal && !eq {
                    why = Some("cmp == Equal but the two relations are not ==".to_string());
                } else if eq && cmp != std::cmp::Ordering::Equal && !dup(&ra[0]) && !dup(&rb[0]) {
                    why = Some("the two relations are == but cmp != Equal (and neither repeats an architecture)".to_string());
                }
                let back = guard(|| rb[0].cmp(&ra[0]));
                if back != Some(cmp.reverse()) {
                    why = Some("cmp is not antisymmetric".to_string());
                }
            }
            (format!("eq={} cmp={}", sb(eq), so(cmp)), e)
        } else {
            ("eq=- cmp=-".to_string(), e)
        }
    } else {
        ("eq=- cmp=-".to_string(), "e=- ecmp=-".to_string())
    };
    Resp::with(format!("{} {} f={}", r, e, sb(f)), why)
}

fn run_wrap(text: &str, allow: bool) -> Resp {
    let (root, errs) = Relations::parse_relaxed(text, allow);
    if !errs.is_empty() {
        return Resp::ok("NOT-WELL-FORMED".to_string());
    }
    // `debversion::Version::cmp` panics on numeric components above i32::MAX when the comparison
    // reaches them (finding F-C12-1). Which comparisons the sort makes is not modelled: both sides
    // answer `BIGNUM` exactly when some two distinct elements of a sorted list cannot be compared
    // (`sort_may_panic`); otherwise no sort can panic and the real result is compared as usual.
    if sort_may_panic(&root) == Some(true) {
        // not hidden: the call is made; a panic here is reported under the open finding F-C13-2
        // (same root cause as F-C12-1), whose trigger the model driver attaches to `BIGNUM`
        let panicked = guard(move || root.wrap_and_sort().to_string()).is_none();
        return Resp::with(
            "BIGNUM".to_string(),
            if panicked { Some("wrap_and_sort panics comparing a numeric version component above i32::MAX".into()) } else { None },
        );
    }
    let input = read_field(&root);
    let w1 = match guard(move || root.wrap_and_sort()) {
        Some(w) => w,
        // a panic is a failure only inside the domain: when the accessors read the input (a relation
        // like `a (> 1)` parses, but `version()` unwraps on its operator — outside the five operators)
        None => return Resp::with("PANIC".into(), if input.is_some() { Some("wrap_and_sort panics".into()) } else { None }),
    };
    let t1 = w1.to_string();
    let d1 = w1.verif_dump();
    let own = read_field(&w1);
    let t2 = guard(move || w1.wrap_and_sort().to_string());
    let t3 = strict_parse(&t1, allow).and_then(|r| guard(move || r.wrap_and_sort().to_string()));
    let obs = format!(
        "{} {} | {} | {}",
        es(&t1),
        d1,
        t2.as_deref().map(es).unwrap_or("PANIC".into()),
        t3.as_deref().map(es).unwrap_or("PANIC-OR-UNPARSABLE".into())
    );
    let mut why: Vec<String> = vec![];
    let (din, _) = match input {
        Some(x) => x,
        None => return Resp::with(obs, Some("accessors panic on the input".into())),
    };
    // the result is a function of the text: results handed out by earlier calls (relation, entry and
    // field level) and edited in place since then must not show in a later normalisation of the same
    // text (after seeded changes C13-r6m1 / C15-r6m1: a cache that hands out the same mutable tree)
    let again = guard(|| {
        let (root2, _) = Relations::parse_relaxed(text, allow);
        for e in root2.entries() {
            for r in e.relations() {
                let mut w = r.wrap_and_sort();
                w.set_archqual("zz");
                w.set_version(Some((VersionConstraint::Equal, "9".parse().unwrap())));
            }
            let we = e.wrap_and_sort();
            for mut r in we.relations() {
                r.set_archqual("zy");
            }
        }
        let wf = root2.wrap_and_sort();
        for e in wf.entries() {
            for mut r in e.relations() {
                r.set_archqual("zx");
            }
        }
        let (root3, _) = Relations::parse_relaxed(text, allow);
        root3.wrap_and_sort().to_string()
    });
    if again.as_deref() != Some(t1.as_str()) {
        why.push(format!(
            "normalising the same text again, after results of earlier calls were edited in place, gives {:?} instead of {:?}",
            again, t1
        ));
    }
    match strict_parse(&t1, allow) {
        None => why.push(format!("result {:?} does not parse strictly", t1)),
        Some(r) => match read_field(&r) {
            None => why.push("accessors panic on the re-parsed result".into()),
            Some((dout, _)) => {
                // same dependencies: same multiset of entries, each the same multiset of alternatives; substvars kept
                // "identical version": the same Debian version, however it is written — an absent
                // epoch is 0, an absent revision is 0, leading zeros of a number do not count. The key
                // is structured (epoch, upstream, revision), NOT the respelt text: `0:1:2` and `1:2`
                // stay different (after seeded change C13-r7m1, whose harmless half — `0:1` printed
                // as `1` — is not a change of meaning)
                let vkey = |t: &str| -> String {
                    let strip = |part: &str| -> String {
                        let mut out = String::new();
                        let cs: Vec<char> = part.chars().collect();
                        let mut i = 0;
                        while i < cs.len() {
                            if cs[i].is_ascii_digit() {
                                let mut j = i;
                                while j < cs.len() && cs[j].is_ascii_digit() {
                                    j += 1;
                                }
                                let run: String = cs[i..j].iter().collect();
                                let t = run.trim_start_matches('0');
                                out.push_str(if t.is_empty() { "0" } else { t });
                                i = j;
                            } else {
                                out.push(cs[i]);
                                i += 1;
                            }
                        }
                        out
                    };
                    match debversion::Version::from_str(t) {
                        Ok(v) => format!(
                            "{}\u{1}{}\u{1}{}",
                            v.epoch.unwrap_or(0),
                            strip(&v.upstream_version),
                            strip(v.debian_revision.as_deref().unwrap_or("0"))
                        ),
                        Err(_) => format!("?{}", t),
                    }
                };
                let norm = |d: &[Den]| -> Vec<Den> {
                    let mut v: Vec<Den> = d
                        .iter()
                        .map(|x| match x {
                            Den::Alts(a) => {
                                let mut a: Vec<RelM> = a
                                    .iter()
                                    .map(|r| {
                                        let mut r = r.clone();
                                        r.version = r.version.map(|(op, v)| (op, vkey(&v)));
                                        r
                                    })
                                    .collect();
                                a.sort();
                                Den::Alts(a)
                            }
                            s => s.clone(),
                        })
                        .collect();
                    v.sort();
                    v
                };
                if norm(&din) != norm(&dout) {
                    why.push(format!("meaning changed: input denotes {:?}, result denotes {:?}", show_den(&din), show_den(&dout)));
                } else {
                    // canonical shape
                    if t1 != canon_field(&dout) {
                        why.push(format!("not canonical: {:?}, canonical form of the same field is {:?}", t1, canon_field(&dout)));
                    }
                    // sorted: alternatives by name inside each entry, entries by their name lists
                    for x in &dout {
                        if let Den::Alts(a) = x {
                            if a.windows(2).any(|w| w[0].name > w[1].name) {
                                why.push(format!("alternatives not sorted in {:?}", t1));
                                break;
                            }
                        }
                    }
                    // entries: at the first alternative where two neighbours differ, the names decide
                    // (a proper prefix first); substvars after all entries
                    let misordered = |x: &Den, y: &Den| -> bool {
                        match (x, y) {
                            (Den::Subst(_), Den::Alts(_)) => true,
                            (Den::Alts(a), Den::Alts(b)) => {
                                for k in 0..a.len().max(b.len()) {
                                    match (a.get(k), b.get(k)) {
                                        (Some(p), Some(q)) if p == q || same_relation(p, q) => continue,
                                        (Some(p), Some(q)) => return p.name > q.name,
                                        (Some(_), None) => return true,
                                        _ => return false,
                                    }
                                }
                                false
                            }
                            _ => false,
                        }
                    };
                    if dout.windows(2).any(|w| misordered(&w[0], &w[1])) {
                        why.push(format!("entries not sorted in {:?}", t1));
                    }
                }
                if shape(&r.verif_dump()) != shape(&d1) {
                    why.push("tree shape: the normalised tree is not the tree the parser builds for its own text".into());
                }
            }
        },
    }
    if let Some((d, _)) = &own {
        let _ = d;
    } else {
        why.push("accessors panic on the normalised tree".into());
    }
    // canonical: the same dependencies written in another order normalise to the same text — the
    // fully reversed field and three seeded shuffles (entries, and the alternatives of every entry,
    // Fisher-Yates; the seed is a hash of the text, so the answer stays a function of the request).
    // `C13_order_independent` covers every permutation; reversal alone leaves a sort that is only
    // correct on (anti-)sorted input unnoticed (audit of C13, W5c)
    {
        let reorder = |k: u64| -> Vec<Den> {
            if k == 0 {
                let mut rev: Vec<Den> = din
                    .iter()
                    .map(|x| match x {
                        Den::Alts(a) => Den::Alts(a.iter().rev().cloned().collect()),
                        s => s.clone(),
                    })
                    .collect();
                rev.reverse();
                return rev;
            }
            let mut h: u64 = 0xcbf29ce484222325 ^ k.wrapping_mul(0x9e3779b97f4a7c15);
            for b in text.bytes() {
                h = (h ^ b as u64).wrapping_mul(0x100000001b3);
            }
            let mut rng = Rng::new(h);
            let mut v: Vec<Den> = din
                .iter()
                .map(|x| match x {
                    Den::Alts(a) => {
                        let mut a = a.clone();
                        for i in (1..a.len()).rev() {
                            a.swap(i, rng.below(i + 1));
                        }
                        Den::Alts(a)
                    }
                    s => s.clone(),
                })
                .collect();
            for i in (1..v.len()).rev() {
                v.swap(i, rng.below(i + 1));
            }
            v
        };
        for k in 0..4u64 {
            let other = reorder(k);
            if k > 0 && din.len() < 2 && !din.iter().any(|x| matches!(x, Den::Alts(a) if a.len() > 1)) {
                break; // nothing to permute
            }
            let how = if k == 0 { "in reverse order".to_string() } else { format!("shuffled (seed {})", k) };
            if let Some(r) = strict_parse(&show_den(&other), allow) {
                match guard(move || r.wrap_and_sort().to_string()) {
                    None => why.push(format!("wrap_and_sort panics on the field {}", how)),
                    Some(t) if t != t1 => {
                        why.push(format!("order-dependent: {:?} for the input, {:?} for the same entries and alternatives {}", t1, t, how));
                        break;
                    }
                    _ => {}
                }
            }
        }
    }
    match &t2 {
        None => why.push("normalising the result again panics".into()),
        Some(t) if *t != t1 => why.push(format!("not idempotent: second pass gives {:?}", t)),
        _ => {}
    }
    if let Some(t) = &t3 {
        if *t != t1 {
            why.push(format!("not idempotent on the re-parsed text: {:?}", t));
        }
    }
    // a '!' separated from the name it negates by a blank is accepted by the strict parser but is not
    // a well-formed field (no such layout in the C10 grammar; `profiles()` reads `<! x>` as an empty
    // negated name followed by `x`): outside C13's domain, compared with the model only
    let detached_not = {
        let cs: Vec<char> = text.chars().collect();
        cs.windows(2).any(|w| w[0] == '!' && w[1].is_whitespace())
    };
    // likewise outside the grammar (audit of C13, W5b): a name glued to a following `!` inside `<…>`
    // (`a <x!y>`: `profiles()` answers the single name `x!y`, rebuilt as one IDENT token) and a version
    // whose text before the first `:` is not a number (`a (= x:1)`: no epoch, upstream `x:1`, rebuilt
    // as one IDENT token) — the live tree is not the tree of its own text; model = code only
    let glued = crate::rel::bang_inside_term(text) || {
        let mut bad = false;
        let mut rest = text;
        while let Some(i) = rest.find('(') {
            let tail = &rest[i + 1..];
            let end = tail.find(')').unwrap_or(tail.len());
            let v: String = tail[..end].chars().filter(|c| !matches!(c, '<' | '>' | '=') && !c.is_whitespace()).collect();
            if let Some((e, _)) = v.split_once(':') {
                if e.is_empty() || !e.chars().all(|c| c.is_ascii_digit()) {
                    bad = true;
                }
            }
            rest = &tail[end..];
        }
        bad
    };
    let fail = if why.is_empty() || detached_not || glued { None } else { Some(format!("{:?} -> {}", text, why.join("; "))) };
    Resp::with(obs, fail)
}

pub fn handle(op: &str, a: &[&str]) -> Option<Resp> {
    match (op, a) {
        ("rel.hist", [t, allow, ops]) => Some(run_hist(&ds(t)?, *allow == "1", ops)),
        ("rel.wrap", [t, allow]) => Some(run_wrap(&ds(t)?, *allow == "1")),
        // a field that holds an API-built EMPTY entry (`Entry::new()` inserted at entry index k): the
        // empty entry is gone, the result is the normal form of the field without it (after seeded
        // change C13-r8m1; the parser never makes an empty ENTRY node)
        ("rel.wrape", [t, allow, k]) => {
            let text = ds(t)?;
            let allow = *allow == "1";
            let k = k.parse::<usize>().ok()?;
            let (mut root, errs) = Relations::parse_relaxed(&text, allow);
            if !errs.is_empty() {
                return Some(Resp::ok("NOT-WELL-FORMED".to_string()));
            }
            if sort_may_panic(&root) == Some(true) || read_field(&root).is_none() {
                return Some(Resp::ok("OUTSIDE".to_string()));
            }
            let plain = guard(|| Relations::parse_relaxed(&text, allow).0.wrap_and_sort().to_string());
            let res = guard(move || {
                root.insert(k, Entry::new());
                let w = root.wrap_and_sort();
                let t1 = w.to_string();
                let d1 = w.verif_dump();
                let t2 = w.wrap_and_sort().to_string();
                (t1, d1, t2)
            });
            match (res, plain) {
                (Some((t1, d1, t2)), Some(p)) => {
                    let mut fail = None;
                    if strict_parse(&t1, allow).is_none() {
                        fail = Some(format!("the normal form {:?} of a field with an empty entry does not parse strictly", t1));
                    } else if empty_segments(&t1) > 0 {
                        fail = Some(format!("the normal form {:?} has an empty comma-separated segment", t1));
                    } else if t1 != p {
                        fail = Some(format!("the empty entry is not simply gone: {:?}, without it {:?}", t1, p));
                    } else if t2 != t1 {
                        fail = Some(format!("normalising again changes the text: {:?} -> {:?}", t1, t2));
                    }
                    Some(Resp::with(format!("{} {} | {}", es(&t1), d1, es(&t2)), fail))
                }
                _ => Some(Resp::with("PANIC".into(), Some("wrap_and_sort panics on a field with an empty entry".into()))),
            }
        }
        ("rel.eqcmp", [a, b]) => Some(run_eqcmp(&ds(a)?, &ds(b)?)),
        _ => None,
    }
}

// ------------------------------------------------------------------ generators

pub const STARTS: [(&str, bool); 74] = [
    ("", false),
    ("a", false),
    ("a (>= 1)", false),
    ("a | b", false),
    ("a | b | c", false),
    ("a, b", false),
    ("a, b, c", false),
    ("a | b, c", false),
    ("a, b | c", false),
    ("a | b, c | d", false),
    ("a (>= 1) | b, c:any [amd64] <!x>", false),
    ("a (>= 1), b (<< 2) | c, d", false),
    // layouts
    ("a,b", false),
    ("a ,b", false),
    ("a , b", false),
    ("a,\n b", false),
    ("a\n, b", false),
    ("a,\n b,\n c", false),
    (" a, b", false),
    ("a, b ", false),
    ("a,  b", false),
    ("a |b", false),
    ("a| b", false),
    ("a|b", false),
    ("a\n | b", false),
    ("a |\n b", false),
    ("a  |  b,  c", false),
    ("a (>=1)", false),
    ("a(>= 1)", false),
    ("a ( >= 1 )", false),
    ("a\t(>= 1)\t, b", false),
    // empty entries, trailing / leading commas
    ("a,", false),
    ("a, ", false),
    ("a, b,", false),
    (",a", false),
    (", a, b", false),
    ("a, , b", false),
    ("a,,b", false),
    ("a, b, , c", false),
    // substvars
    ("${x:y}", true),
    ("${x:y}, a", true),
    ("a, ${x:y}", true),
    ("a, ${x:y}, b", true),
    ("a | b, ${s:D}, c (>= 1)", true),
    ("${x:y},a", true),
    ("a ,${x:y}", true),
    ("${x:y}, ${z:w}", true),
    ("a, b, ${x:y}", true),
    ("${x:y}, a, b", true),
    // relations that already have the optional parts
    ("a:any", false),
    ("a [amd64]", false),
    ("a [amd64 !i386]", false),
    ("a <!x>", false),
    ("a <!x> <y>", false),
    ("a <x y>", false),
    ("a (>= 1) [amd64] <!x>", false),
    ("a:any (>= 1)", false),
    ("a:any (>= 1:2.0-1) [amd64 i386] <!x> <y z>", false),
    ("a [amd64] <x>, b", false),
    ("a (>= 1), b:any", false),
    ("a (>= 1) | b:any (<< 2)", false),
    ("a [amd64], b | c <!x>, ${x:y}", true),
    // layouts the strict parser accepts around the optional parts: blanks / a line break before the
    // qualifier's colon, after it, before the version
    ("a :any", false),
    ("a : any (>= 1), b", false),
    ("a\n :any [amd64]", false),
    ("a:any\n (>= 1) [ amd64 ]", false),
    // the layouts of Props/C11Layout.lean: blanks inside RELATION nodes before `|` and `,`, a tab before
    // `|`, folded lines, trailing comma followed by blanks / a line break / nothing, blanks behind a
    // substitution variable, a field of blanks only
    ("a:any | b, c", false),
    ("a | b:any  , c ", false),
    ("a ,\n b\t| c:any  | d, ${x} ,e ,", true),
    ("${x:y} ,\n a\t|\tb ", true),
    ("a, ${x:y} ", true),
    ("a ,\n ", false),
    ("a,\n", false),
    (" ", false),
];

fn op_pool() -> Vec<String> {
    let x = |s: &str| es(s);
    let mut v = vec![
        format!("ins.0.p.{}", x("n")),
        format!("ins.0.c.{}", x("n (>= 1)")),
        format!("ins.1.p.{}", x("n")),
        format!("ins.1.b.{}", x("n | m")),
        format!("ins.2.c.{}", x("n")),
        format!("push.p.{}", x("n")),
        format!("push.c.{}", x("n | m")),
        format!("push.b.{}", x("n:any (>= 1) [amd64] <!nocheck>")),
        format!("push.b.{}", x("n")),
        format!("repl.0.p.{}", x("n")),
        format!("repl.0.c.{}", x("n (= 1) | m")),
        format!("repl.1.b.{}", x("n (<< 2)")),
        "rme.f.0".into(),
        "rme.f.1".into(),
        "rme.f.2".into(),
        "rme.g.0".into(),
        "rme.h.0".into(),
        "rme.h.1".into(),
        format!("epush.f.0.p.{}", x("n")),
        format!("epush.h.0.c.{}", x("n (= 1)")),
        format!("epush.f.1.b.{}", x("n [i386]")),
        format!("epush.h.1.p.{}", x("n")),
        format!("erepl.f.0.0.p.{}", x("n")),
        format!("erepl.h.0.1.c.{}", x("n (>= 3)")),
        format!("erepl.f.1.0.b.{}", x("n:any")),
        "rmr.f.0.0".into(),
        "rmr.f.0.1".into(),
        "rmr.h.0.0".into(),
        "rmr.r.0.0".into(),
        "rmr.g.0.1".into(),
        "rmr.r.1.0".into(),
        format!("setv.f.0.0.ge.{}", x("3")),
        format!("setv.h.0.0.lt.{}", x("1:2")),
        format!("setv.f.0.0.eq.{}", x("1:2:3-4")),
        format!("setv.f.0.1.eq.{}", x("1")),
        format!("setv.h.1.0.gt.{}", x("2~rc1")),
        "unsetv.f.0.0".into(),
        "unsetv.h.0.0".into(),
        "dropv.f.0.0".into(),
        "dropv.h.0.0".into(),
        format!("setq.f.0.0.{}", x("any")),
        format!("setq.h.0.0.{}", x("native")),
        format!("setq.f.1.0.{}", x("any")),
        format!("seta.f.0.0.{}", x("amd64 i386")),
        format!("seta.h.0.0.{}", x("!hurd-i386")),
        format!("seta.f.0.0.{}", x("")),
        format!("seta.h.0.0.{}", x("amd64 !i386 amd64")),
        format!("seta.h.1.0.{}", x("arm64")),
        format!("addp.f.0.0.{}", x("!nocheck")),
        format!("addp.h.0.0.{}", x("cross stage1")),
        format!("addp.f.1.0.{}", x("nodoc")),
        // LIVE operands (after seeded change C11-r8m1 and audit finding D1): a handle that is still
        // part of this field (`l`) or of another one (`o`) is copied, never moved
        format!("ins.7.p.{}", x("n")),
        // indices that do not exist: the call panics (`unwrap`) and leaves the field as it was
        format!("repl.9.p.{}", x("n")),
        "rme.f.9".into(),
        format!("erepl.f.0.9.p.{}", x("n")),
        "rmr.f.0.9".into(),
        "ins.9.l.0".into(),
        "ins.0.l.1".into(),
        "ins.1.l.0".into(),
        "ins.0.l.2".into(),
        "ins.2.l.0".into(),
        "push.l.0".into(),
        "push.l.1".into(),
        "repl.0.l.1".into(),
        "repl.1.l.0".into(),
        "repl.0.l.0".into(),
        "repl.2.l.0".into(),
        format!("ins.0.o.{}", x("p, q")),
        format!("ins.1.o.{}", x(" p (>= 1) | q ,r")),
        format!("push.o.{}", x("p | q, r")),
        format!("repl.0.o.{}", x("p, q")),
        format!("repl.1.o.{}", x("p  (>=1)|q\n , r")),
        "erepl.f.0.0.l.1-0".into(),
        "erepl.h.1.0.l.0-0".into(),
        "erepl.f.0.1.l.0-0".into(),
        "erepl.f.0.0.l.0-1".into(),
        "epush.f.0.l.1-0".into(),
        "epush.h.0.l.0-0".into(),
        "epush.f.1.l.0-1".into(),
    ];
    v.dedup();
    v
}

pub fn generate_c11(tier: &str, seed: u64, out: &mut Out) {
    let thorough = tier == "thorough";
    let mut rng = Rng::new(seed ^ 0xC11);
    let pool = op_pool();
    for (start, allow) in STARTS {
        let a = ebool(allow).to_string();
        for o1 in &pool {
            out.req("rel.hist", &[es(start), a.clone(), o1.clone()]);
        }
        for o1 in &pool {
            for o2 in &pool {
                out.req("rel.hist", &[es(start), a.clone(), format!("{},{}", o1, o2)]);
            }
        }
    }
    // replacements that compare equal to what they replace under the crate's loose `==`
    // (architectures as a set, versions by their order) but are WRITTEN differently: the list
    // model is textual, the field must show the new spelling (after seeded change C11-r7m1)
    let x = |t: &str| es(t);
    let resp_start = "a (= 1.0) | b [amd64 i386], c (>= 0:2) <x y>";
    for op in [
        format!("erepl.f.0.1.p.{}", x("b [i386 amd64]")),
        format!("erepl.h.0.1.c.{}", x("b [amd64 amd64 i386]")),
        format!("erepl.f.0.0.p.{}", x("a (= 1.00)")),
        format!("erepl.f.0.0.c.{}", x("a (= 0:1.0)")),
        format!("erepl.f.0.0.b.{}", x("a (= 1.0-0)")),
        format!("erepl.f.1.0.p.{}", x("c (>= 2) <x y>")),
        format!("repl.0.p.{}", x("a (= 1.00) | b [i386 amd64]")),
        format!("repl.0.c.{}", x("a (= 0:1.0) | b [amd64 i386]")),
        format!("repl.1.p.{}", x("c (>= 2) <x y>")),
    ] {
        out.req("rel.hist", &[es(resp_start), "0".to_string(), op.clone()]);
        out.req("rel.hist", &[es(resp_start), "0".to_string(), format!("{},{}", op, "rme.f.0")]);
    }
    let n = if thorough { 400_000 } else { 40_000 };
    for _ in 0..n {
        let (start, allow) = STARTS[rng.below(STARTS.len())];
        let len = 3 + rng.below(5);
        let ops: Vec<String> = (0..len).map(|_| pool[rng.below(pool.len())].clone()).collect();
        out.req("rel.hist", &[es(start), ebool(allow).to_string(), ops.join(",")]);
    }
}

pub fn generate_c13(tier: &str, seed: u64, out: &mut Out) {
    use crate::relspec::*;
    let thorough = tier == "thorough";
    let mut rng = Rng::new(seed ^ 0xC13);
    // exhaustive: 2 entries x 2 alternatives out of a pool, every order
    let rels = ["a", "b", "a (>= 1)", "a (<< 1)", "a:any", "a [amd64]", "a [!amd64]", "a <!x>", "a <x y>", "b (= 1:2-3)"];
    for t in ["", "a", "b, a", "b | a, c (>= 1), a", " b ,\n a", "a, ${x:y}", "${x:y}", "a, , b,"] {
        for k in 0..4 {
            out.req("rel.wrape", &[es(t), "1".into(), k.to_string()]);
        }
    }
    for r1 in rels {
        out.req("rel.wrap", &[es(r1), "0".into()]);
        for r2 in rels {
            out.req("rel.wrap", &[es(&format!("{} | {}", r1, r2)), "0".into()]);
            out.req("rel.wrap", &[es(&format!("{}, {}", r1, r2)), "0".into()]);
            for r3 in ["a", "b", "c (>= 1)"] {
                out.req("rel.wrap", &[es(&format!("{} | {}, {}", r1, r2, r3)), "0".into()]);
                out.req("rel.wrap", &[es(&format!("{}, {} | {}", r3, r1, r2)), "0".into()]);
                for r4 in ["a", "b"] {
                    out.req("rel.wrap", &[es(&format!("{} | {}, {} | {}", r1, r2, r3, r4)), "0".into()]);
                }
            }
        }
    }
    // `==` against `cmp` (Model/RelEq, Props/C13Eq): every ordered pair of the relation pool, the
    // twins, relations that repeat an architecture (`==` collects a HashSet, `cmp` sorts a Vec), one
    // whose `version()` panics, and a few entries / fields (slice `==`: lengths first)
    {
        let mut pool: Vec<&str> = rels.to_vec();
        pool.extend([
            "foo [a b]", "foo [b a]", "a (>= 0:1)", "a (= 1.0-0)", "a (= 1.0)", "p <x y>", "p <x  y>", "q:any (<< 2)", "q:any (<<2)",
            "a [x x]", "a [x]", "a [x y x]", "a [y x]", "a [x y]", "a [!x !x]", "a [!x]", "a (= 1.0) [x y]", "a (= 1.00) [y x x]",
            "a [amd64 amd64]", "a []", "a :any", "a <x>", "a < x >", "a <x> <y>", "a <!x y>", "a (>> 1)", "a (= 01)", "a (= 1)", "B",
            "a (> 1)", "b (> 1)",
        ]);
        for x in pool.iter() {
            for y in pool.iter() {
                out.req("rel.eqcmp", &[es(x), es(y)]);
            }
        }
        let fields = [
            "a | b", "b | a", "a", "a | b | c", "a, b", "a,b", "a, , b", "b, a", "a,", "", ",", "a [x x] | b", "a [x] | b", "a (> 1) | b",
            "a (> 1)", "a (> 1), b", "b, a (> 1)", "b | a (> 1)", "a [x x], b", "a [x], b",
        ];
        for x in fields.iter() {
            for y in fields.iter() {
                out.req("rel.eqcmp", &[es(x), es(y)]);
            }
        }
    }
    // prefix entries, duplicates, empties, substvars, layouts
    for t in [
        "", " ", ",", "a", "a,", ",a", "a, , b", "b, a", "b | a", "a | b, a", "a, a | b", "a | b | c, a | b", "a | b, a | b | c", "a | b, a, a | b | c",
        "a, a", "a | a", "b\n | a,\n c", " b ,  a ", "a (>= 1), a", "a, a (>= 1)", "a (>= 2), a (>= 1)", "a (>= 1), a (<< 1)", "a:any, a", "a, a:any",
        "a [amd64], a [i386]", "a <x>, a <y>", "a <x> <y>", "a <x y> <!z>", "a [!amd64 i386]", "a (>= 1:2.0)", "a ( >= 1 )", "B, a", "a-b, a+b, a.b", "libc6 (>= 2.34), libc6 (>= 2.4)",
    ] {
        out.req("rel.wrap", &[es(t), "0".into()]);
    }
    for t in ["${x:y}", "${x:y}, a", "b, ${x:y}, a", "a, ${misc:Depends}", "${shlibs:Depends}, ${misc:Depends}, b | a", "a, ${x:y},", "${x:y} , a"] {
        out.req("rel.wrap", &[es(t), "1".into()]);
    }
    // versions whose text changes meaning when a zero epoch / zero revision is dropped (a ':' or '-'
    // inside the upstream part), next to the harmless respellings (after seeded change C13-r7m1)
    for v in ["0:1:2", "0:1:2-3", "1.0-rc1-0", "0:1.0-rc1-0", "0:1", "1.0-0", "01.5", "0:01.5-00"] {
        for op in [">=", "=", "<<"] {
            out.req("rel.wrap", &[es(&format!("a ({} {})", op, v)), "0".into()]);
            out.req("rel.wrap", &[es(&format!("b, a ({} {}) | c", op, v)), "0".into()]);
        }
    }
    // relations that compare equal but are written differently (architecture order, explicit zero
    // epoch, version spelling), in every spacing variant and both orders, as alternatives and as
    // entries: the textual tie-break must be taken on the normalised text, whatever the input layout
    let twins: [(&str, &str); 5] = [
        ("foo [a b]", "foo [b a]"),
        ("a (>= 0:1)", "a (>= 1)"),
        ("a (= 1.0-0)", "a (= 1.0)"),
        ("p <x y>", "p <x  y>"),
        ("q:any (<< 2)", "q:any (<<2)"),
    ];
    let spaced = |r: &str| -> Vec<String> {
        vec![r.to_string(), r.replacen(' ', "  ", 1), r.replace(' ', "   "), format!(" {}", r), r.replacen(' ', "\n ", 1)]
    };
    for (x, y) in twins.iter() {
        for vx in spaced(x) {
            for vy in spaced(y) {
                for (l, r) in [(&vx, &vy), (&vy, &vx)] {
                    out.req("rel.wrap", &[es(&format!("{} | {}", l, r)), "0".into()]);
                    out.req("rel.wrap", &[es(&format!("{}, {}", l, r)), "0".into()]);
                    out.req("rel.wrap", &[es(&format!("z, {} | {}, b", l, r)), "0".into()]);
                }
            }
        }
        // the twins as LEADING alternatives of two entries whose later alternatives differ the other way
        // round: the entries are ordered by their alternatives as relations (twins compare equal, so the
        // second alternative decides), the textual tie-break comes after the whole comparison
        for (l, r) in [(x, y), (y, x)] {
            for (t1, t2) in [("c", "b"), ("b", "c"), ("b (>= 2)", "b"), ("b", "b")] {
                out.req("rel.wrap", &[es(&format!("{} | {}, {} | {}", l, t1, r, t2)), "0".into()]);
                out.req("rel.wrap", &[es(&format!("{} | {}, {} | {}, {}", l, t1, r, t2, l)), "0".into()]);
            }
        }
    }
    // terms of a bracket group separated by every kind of blank: space, tab, bare newline, newline
    // plus indentation, several of them
    for sep in [" ", "\t", "\n", "\n ", "  ", " \n\t ", "\r\n"] {
        for t in [
            format!("foo <!nocheck{}!cross> <stage1>, bar", sep),
            format!("foo <a{}b{}c>", sep, sep),
            format!("foo [amd64{}i386], bar [!a{}!b]", sep, sep),
            format!("foo (>={}1), bar{}(<< 2)", sep, sep),
            format!("b{}|{}a,{}c", sep, sep, sep),
        ] {
            out.req("rel.wrap", &[es(&t), "0".into()]);
        }
    }
    // layouts outside the C10 grammar that the strict parser accepts (blank after '!', inside the operator, ...)
    for t in ["a [! b]", "a [! b !\n c], d [!e]", "a <! x y>", "libc6-dev [! hurd-i386 !\n kfreebsd-amd64], foo [!amd64]", "a ( >= 1 ), b", "a : any, b"] {
        out.req("rel.wrap", &[es(t), "0".into()]);
    }
    // the rest of the audit's table of strictly accepted layouts (C10 audit, section 4; C13 audit,
    // section 4): gaps around the qualifier colon, dangling / stacked '!', glued profile terms, a
    // non-numeric "epoch", empty lists, repeated architectures, operators outside the five (PANIC)
    for t in [
        "a :any", "a: any", "a\n:\nany", "b, a :any | a", "a [!]", "a [x !]", "a [!!x]", "a [! !x]", "c, a [x !] | a [x]", "a [x!y]", "a [x x], a [x]",
        "a []", "a <>", "a <x!y>", "a <!x!y>", "b <y>, a <x!y> | a <x>", "a (= x:1)", "a (= x:1), a (= 1)", "a (= 01:1)", "a (= 4294967295:1)",
        "a (1)", "a (> 1)", "a (< 1)", "a (== 1)", "a (<> 1)", "a (=> 1)", "a (>>= 1)", "a (= 4294967296:1)",
        // the by-products of the sort key (Props/C13Key)
        "a (>= 1), a (>> 1), a (= 1), a (<= 1), a (<< 1), a", "a (>= 1) | a (>> 1)", "a, B, 1, -, +", "a [y x]", "a [!y !x]", "a <z y> <!w v>",
        "a (>= 2) | b, a (>= 1) | z", "z | b (>= 1) | b, a:any, B [y x], a",
    ] {
        out.req("rel.wrap", &[es(t), "0".into()]);
    }
    for t in ["${}", "${:}", "${a::b}, a", "${a:}, ${:a}, b"] {
        out.req("rel.wrap", &[es(t), "1".into()]);
    }
    // the C10 field generator: every layout, wild constructs included
    let n = if thorough { 300_000 } else { 30_000 };
    for k in 0..n {
        let layout = match k % 4 {
            0 => Layout::Canonical,
            1 => Layout::Minimal,
            2 => Layout::Spaces,
            _ => Layout::Folded,
        };
        let pol = Policy { layout, wild: rng.chance(50) };
        let sv = rng.chance(40);
        let f = random_field(&mut rng, &pol, sv);
        out.req("rel.wrap", &[es(&f.text()), ebool(sv).to_string()]);
    }
    // (appended) numbers above i32::MAX: BIGNUM exactly when two distinct elements that get sorted cannot
    // be compared (`sort_may_panic`); a single big number, distinct names, a comparison decided before
    // the number (epoch, earlier component, operator): the real result is compared with the model's
    for t in [
        "a (>= 3000000000)",
        "a (>= 3000000000), b",
        "b (>= 3000000000), a (>= 3000000001)",
        "a (>= 3000000000), a (>= 3000000001)",
        "a (>= 3000000000), a (>= 3000000000)",
        "a (>= 3000000000), a (>= 1)",
        "a (>= 2147483647), a (>= 1)",
        "a (>= 2147483648), a (>= 1)",
        "a (>= 3000000000:1), a (>= 1)",
        "a (>= 1:3000000000), a (>= 1:1)",
        "a (>= 1:3000000000), a (>= 2:1)",
        "a (>= 1.3000000000), a (>= 2.1)",
        "a (>= 1.3000000000), a (>= 1.1)",
        "a (>= 0~20240101120000)",
        "a (>= 0~20240101120000), b (>= 0~20240101120001)",
        "a (>= 0~20240101120000) | a (>= 0~20240101120001)",
        "a (>= 0~20240101120000) | b (>= 0~20240101120001), c",
        "z | a (>= 3000000000), y | a (>= 3000000000)",
        "a (>= 3000000000) | z, a (>= 3000000000) | y",
        "a (>= 3000000000) | z, a (>= 3000000001) | y",
        "a (<< 3000000000), a (>= 3000000000)",
        "a (>= 1-3000000000), a (>= 1-3000000001)",
        "a (>= 1-3000000000), a (>= 2-3000000001)",
        "a (>= 00000000002), a (>= 1)",
        "a (>= 3000000000) [amd64], a (>= 3000000000) [i386]",
        "a:any (>= 3000000000), a (>= 3000000000)",
        "c, a (>= 3000000000), b, a",
        "a (>= 3000000000), a (> 1)",
        "a (> 1), b (>= 3000000000), b (>= 3000000001)",
    ] {
        out.req("rel.wrap", &[es(t), "0".into()]);
        out.req("rel.wrap", &[es(&format!("${{x:y}}, {}", t)), "1".into()]);
    }
}
