#!/usr/bin/env python3
"""Rewrite the generated tables of DESIGN.md (between <!-- GEN:<name> --> and <!-- /GEN:<name> -->)
from known_findings.json and seeded/*/meta.json, so the prose record cannot drift from the data."""
import json, os, re, glob, subprocess
R = os.path.dirname(os.path.dirname(os.path.abspath(__file__)))

def esc(s): return str(s).replace("|", "\\|").replace("\n", " ")

def findings():
    fs = json.load(open(os.path.join(R, "known_findings.json")))
    fixed = [f for f in fs if f.get("status") == "fixed"]
    opn = [f for f in fs if f.get("status") != "fixed"]
    out = ["| finding | property | what failed | commit |", "|---|---|---|---|"]
    for f in fixed:
        out.append(f"| {f['id']} | {f['property']} | {esc(f.get('what',''))[:260]} | {f.get('commit','')} |")
    out.append("")
    out.append(f"Repaired: {len(fixed)}. Open (printed as KNOWN-FINDING by the property's check): {len(opn)}.")
    out.append("")
    out.append("| open finding | property | what fails | why it is recorded rather than repaired |")
    out.append("|---|---|---|---|")
    for f in opn:
        out.append(f"| {f['id']} | {f['property']} | {esc(f.get('what',''))[:300]} | {esc(f.get('why_open', f.get('proposed_patch', f.get('patch',''))))[:300]} |")
    return "\n".join(out)

def seeded():
    out = ["| seeded change | property | what it does | needs | caught by | first run |", "|---|---|---|---|---|---|"]
    n = 0
    for d in sorted(glob.glob(os.path.join(R, "seeded", "*"))):
        mp = os.path.join(d, "meta.json")
        if not os.path.exists(mp): continue
        m = json.load(open(mp)); n += 1
        cb = m.get("caught_by") or []
        if isinstance(cb, dict): cb = [f"{k}: {v}" for k, v in cb.items()]
        if isinstance(cb, str): cb = [cb]
        first = "missed → generator/oracle strengthened" if m.get("history") else "caught"
        out.append(f"| {os.path.basename(d)} | {m.get('property','')} | {esc(m.get('summary',''))[:220]} | {esc(m.get('needs',''))[:160]} | {esc('; '.join(map(str,cb)))[:200]} | {first} |")
    out.append("")
    out.append(f"{n} confirmed seeded changes.")
    return "\n".join(out)

def status():
    props = json.load(open(os.path.join(R, "lean", "props.json")))
    fs = json.load(open(os.path.join(R, "known_findings.json")))
    out = ["| property | theorems (full / partial / witness) | not carried by a theorem | open findings |", "|---|---|---|---|"]
    allp = [json.loads(l)["id"] for l in open(os.path.join(R, "properties.jsonl")) if l.strip()]
    for pid in allp:
        if pid not in props:
            out.append(f"| {pid} | — | check not built yet | |")
            continue
        th = props[pid].get("theorems", [])
        k = lambda x: sum(1 for t in th if t.get("kind") == x)
        opn = [f["id"] for f in fs if f.get("property") == pid and f.get("status") != "fixed"]
        out.append(f"| {pid} | {len(th)} ({k('full')} / {k('partial')} / {k('witness')}) | {esc(props[pid].get('partial') or 'nothing: every clause is a theorem over the model; model = code is the correspondence run')[:700]} | {', '.join(opn)} |")
    return "\n".join(out)

def trusted():
    props = json.load(open(os.path.join(R, "lean", "props.json")))
    out = ["| property | modelled rather than verified / assumed (besides the Lean kernel, the three standard axioms and the correspondence run) | domain assumptions |", "|---|---|---|"]
    for pid in sorted(props):
        tb = "; ".join(props[pid].get("trusted_base") or []) or "—"
        asm = "; ".join(props[pid].get("assumptions") or []) or "—"
        out.append(f"| {pid} | {esc(tb)[:900]} | {esc(asm)[:500]} |")
    return "\n".join(out)

def main():
    p = os.path.join(R, "DESIGN.md")
    s = open(p).read()
    for name, fn in (("findings", findings), ("seeded", seeded), ("status", status), ("trusted", trusted)):
        pat = re.compile(rf"(<!-- GEN:{name} -->\n).*?(<!-- /GEN:{name} -->)", re.S)
        if pat.search(s):
            s = pat.sub(lambda m: m.group(1) + fn() + "\n" + m.group(2), s)
    open(p, "w").write(s)
main()
