#!/bin/bash
# Development aid: evaluate a seeded mutation in an isolated copy (so that /repo itself is not
# disturbed while other work builds against it). The committed record of a seeded change is produced
# by running the registered checks against /repo itself (git -C /repo apply ...; ./check ID; undo).
# usage: tools/seedtest.sh <patch.diff> <ID> [<ID> ...]
set -e
PATCH=$(readlink -f "$1"); shift
N=$$
EV=/tmp/ev/$N
mkdir -p $EV
git -C /repo worktree add -q --detach $EV/repo HEAD
rsync -a --exclude .git --exclude work --exclude replays /verif/ $EV/verif/ || [ $? = 24 ]   # 24 = files vanished during a concurrent build: harmless, lake rebuilds them
cd $EV/verif
sed -i "s#/repo#$EV/repo#g" harness/Cargo.toml harness/src/*.rs tools/translate.py tools/checklib.py 2>/dev/null || true
cp $EV/repo/Cargo.lock harness/Cargo.lock
git -C $EV/repo apply "$PATCH"
for ID in "$@"; do
  echo "== $ID"
  VERIF_REPO=$EV/repo ./check $ID 2>&1 | grep -E "VIOLATION|KNOWN-FINDING|quick:|PROOF OBLIGATION|smallest" | cut -c1-400
done
cd /
git -C /repo worktree remove --force $EV/repo
rm -rf $EV
