#!/usr/bin/env python3
"""Development aid: confirm a delivered seeded change, run the named checks against it in an
isolated copy (tools/seedtest.sh) and store it under seeded/<name>/ when it is confirmed.
usage: tools/seed_pipeline.py <agent dir> <round> <ID> [<ID> ...]      (first ID = the property it targets)
       tools/seed_pipeline.py --recheck <name> <ID> [...]              (re-run checks for a stored change)
The meta.json field `history` (what had to be strengthened) is added by hand."""
import json, os, re, subprocess, sys, shutil
V = os.path.dirname(os.path.dirname(os.path.abspath(__file__)))


def sh(cmd):
    return subprocess.run(cmd, shell=True, capture_output=True, text=True).stdout


def checks(patch, ids):
    out = sh(f"cd {V} && tools/seedtest.sh {patch} {' '.join(ids)} 2>&1")
    res, cur = {}, None
    for line in out.splitlines():
        if line.startswith("== "):
            cur = line[3:].strip(); res[cur] = []
        elif cur:
            res[cur].append(line)
    caught, smallest = [], []
    for i in ids:
        ls = res.get(i, [])
        viol = [l for l in ls if l.startswith("VIOLATION")]
        if not viol:
            continue
        if all("no-failing-input-found" in l for l in viol):
            caught.append(f"{i} (correspondence only, no-failing-input-found)")
        else:
            caught.append(f"{i} (failing input replayed)")
        sm = [l for l in ls if "smallest" in l]
        if sm:
            smallest.append(sm[0].strip()[:400])
    return out, caught, smallest


def main():
    if sys.argv[1] == "--recheck":
        name, ids = sys.argv[2], sys.argv[3:]
        d = os.path.join(V, "seeded", name)
        out, caught, smallest = checks(os.path.join(d, "patch.diff"), ids)
        print(out)
        m = json.load(open(os.path.join(d, "meta.json")))
        m["checks_run"] = ids; m["caught_by"] = caught; m["smallest_reported"] = smallest
        json.dump(m, open(os.path.join(d, "meta.json"), "w"), indent=1)
        print("caught_by:", caught)
        return
    agent, rnd, ids = os.path.abspath(sys.argv[1]), int(sys.argv[2]), sys.argv[3:]
    name = os.path.basename(agent)
    o = os.path.join(agent, "out")
    print(sh(f"{V}/tools/confirm_seed.sh {agent} 2>&1"))
    conf = json.load(open(os.path.join(o, "confirm.json")))
    if not conf["confirmed"]:
        print("NOT CONFIRMED", name); return
    out, caught, smallest = checks(os.path.join(o, "patch.diff"), ids)
    print(out)
    am = json.load(open(os.path.join(o, "meta.json")))
    d = os.path.join(V, "seeded", name)
    os.makedirs(d, exist_ok=True)
    shutil.copy(os.path.join(o, "patch.diff"), d)
    shutil.copy(os.path.join(o, "demo.rs"), d)
    base = sh("git -C /repo rev-parse --short HEAD").strip()
    m = {"property": ids[0], "summary": am.get("summary", ""), "needs": am.get("needs", ""),
         "files": am.get("files", []), "demo_crate": am.get("demo_crate", "."),
         "demo_cmd": "tools/confirm_seed.sh (demo.rs copied to <demo_crate>/tests/, cargo test --offline -p <crate> --test <name>)",
         "base_commit": base,
         "confirmed_by_me": {k: conf[k] for k in ("pristine_demo", "patched_workspace_suite", "patched_demo")},
         "checks_run": ids, "caught_by": caught, "smallest_reported": smallest,
         "how_run": "tools/seed_pipeline.py: tools/confirm_seed.sh (scratch worktree: demo on the pristine tree, workspace suite with the patch, demo with the patch), then tools/seedtest.sh <patch> <IDs> (isolated copy of /verif + git worktree of /repo with the patch applied)",
         "round": rnd}
    json.dump(m, open(os.path.join(d, "meta.json"), "w"), indent=1)
    print("STORED", name, "caught_by:", caught if caught else "MISSED")


main()
